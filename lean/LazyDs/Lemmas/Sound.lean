import LazyDs.Lemmas.RelConcat
import LazyDs.Lemmas.RelBatch
import LazyDs.Lemmas.RelItems
import LazyDs.Lemmas.RelIntersperse
import LazyDs.Lemmas.PySliceLemmas
import LazyDs.Lemmas.WfUnary
import LazyDs.Lemmas.WfNary
/-
  The central refinement theorem: for every admissible pipeline, what `build` (the model of the
  lazy code) produces refines what `ref` (the eager list semantics) produces, and every
  reference dataset is well-formed (C02/C03 on eager data).  By structural induction on the
  pipeline, one stage lemma per constructor.
-/
namespace LazyDs

/-! ### slices and the eager operations built on them -/

theorem rel_mkSlice {d d' : DS} {r : RefDS} (spec : SliceSpec) (h : Rel d r) (hd : mkSlice spec d = .ok d') :
    ∃ r', Ref.mkSlice spec r = .ok r' ∧ Rel d' r' := by
  unfold mkSlice at hd
  cases hg : d.sliceGuard with
  | error e => simp [hg, bind, Except.bind] at hd
  | ok u =>
    simp only [hg, bind, Except.bind] at hd
    cases hi : d.indexable with
    | false => simp [hi, throw, throwThe, MonadExceptOf.throw] at hd
    | true =>
      simp only [hi, Bool.not_true] at hd
      have hri : r.indexable = true := by rw [← h.indexable]; exact hi
      cases hl : d.len with
      | error e => simp [hl] at hd
      | ok n =>
        simp only [hl] at hd
        cases hs : resolveSlice n d.keys spec with
        | error e => simp [hs] at hd
        | ok sel =>
          simp only [hs] at hd
          have hd' : sliceDS sel d = d' := by simpa using hd
          obtain ⟨hlen, _⟩ := h.idx hri
          have hn : n = r.outs.length := by
            rw [h.len, hlen] at hl
            injection hl with hl
            exact hl.symm
          have hsel : ∀ j ∈ sel, j < r.outs.length := by
            rw [← hn]
            apply resolveSlice_lt (inputKeys := d.keys) (spec := spec)
            · intro ks hk
              rw [h.keys] at hk
              rw [hn]
              exact h.keysLen hri ks hk
            · exact hs
          refine ⟨Ref.slice sel r, ?_, ?_⟩
          · unfold Ref.mkSlice
            simp only [hri, Bool.not_true, bind, Except.bind, ← h.len, hl, ← h.keys, hs]
            rfl
          · rw [← hd']
            exact rel_slice h hri sel hsel

theorem wf2_mkSlice {r r' : RefDS} (spec : SliceSpec) (h : RefWF2 r) (hr : Ref.mkSlice spec r = .ok r') :
    RefWF2 r' := by
  unfold Ref.mkSlice at hr
  cases hi : r.indexable with
  | false => simp [hi, throw, throwThe, MonadExceptOf.throw, bind, Except.bind] at hr
  | true =>
    simp only [hi, Bool.not_true, bind, Except.bind] at hr
    cases hl : r.len with
    | error e => simp [hl] at hr
    | ok n =>
      simp only [hl] at hr
      cases hs : resolveSlice n r.keys spec with
      | error e => simp [hs] at hr
      | ok sel =>
        simp only [hs] at hr
        have hr' : Ref.slice sel r = r' := by simpa using hr
        have hn : n = r.outs.length := by
          have := h.lenOuts hi
          rw [this] at hl
          injection hl with hl
          exact hl.symm
        rw [← hr']
        apply wf2_slice sel h hi
        rw [← hn]
        apply resolveSlice_lt (inputKeys := r.keys) (spec := spec)
        · intro ks hk; rw [hn]; exact h.keysLen hi ks hk
        · exact hs

theorem rel_mkFilterEager {d d' : DS} {r : RefDS} (f : Val → Res Bool) (h : Rel d r)
    (hd : mkFilterEager f d = .ok d') : ∃ r', Ref.mkFilterEager f r = .ok r' ∧ Rel d' r' := by
  unfold mkFilterEager at hd
  unfold Ref.mkFilterEager
  rw [← h.indexable, ← h.iter, ← h.len]
  cases hi : d.indexable with
  | false => simp [hi, throw, throwThe, MonadExceptOf.throw, bind, Except.bind] at hd
  | true =>
    simp only [hi, Bool.not_true, bind, Except.bind] at hd ⊢
    cases hx : filterIdx f d.iter.vals 0 with
    | error e => simp [hx] at hd
    | ok idx =>
      simp only [hx] at hd ⊢
      cases hv : streamToRes d.iter with
      | error e => simp [hv] at hd
      | ok vs =>
        simp only [hv] at hd ⊢
        cases hl : d.len with
        | error e => simp [hl] at hd
        | ok n =>
          simp only [hl] at hd ⊢
          exact rel_mkSlice _ h hd

theorem wf2_mkFilterEager {r r' : RefDS} (f : Val → Res Bool) (h : RefWF2 r)
    (hr : Ref.mkFilterEager f r = .ok r') : RefWF2 r' := by
  unfold Ref.mkFilterEager at hr
  cases hi : r.indexable with
  | false => simp [hi, throw, throwThe, MonadExceptOf.throw, bind, Except.bind] at hr
  | true =>
    simp only [hi, Bool.not_true, bind, Except.bind] at hr
    cases hx : filterIdx f r.stream.vals 0 with
    | error e => simp [hx] at hr
    | ok idx =>
      simp only [hx] at hr
      cases hv : streamToRes r.stream with
      | error e => simp [hv] at hr
      | ok vs =>
        simp only [hv] at hr
        cases hl : r.len with
        | error e => simp [hl] at hr
        | ok n =>
          simp only [hl] at hr
          exact wf2_mkSlice _ h hr

theorem rel_mkShuffleOnce {d d' : DS} {r : RefDS} (perm : List Nat) (h : Rel d r)
    (hd : mkShuffleOnce perm d = .ok d') : ∃ r', Ref.mkShuffleOnce perm r = .ok r' ∧ Rel d' r' := by
  unfold mkShuffleOnce at hd
  unfold Ref.mkShuffleOnce
  rw [← h.len]
  cases hl : d.len with
  | error e => simp [hl, bind, Except.bind] at hd
  | ok n =>
    simp only [hl, bind, Except.bind] at hd ⊢
    exact rel_mkSlice _ h hd

theorem wf2_mkShuffleOnce {r r' : RefDS} (perm : List Nat) (h : RefWF2 r)
    (hr : Ref.mkShuffleOnce perm r = .ok r') : RefWF2 r' := by
  unfold Ref.mkShuffleOnce at hr
  cases hl : r.len with
  | error e => simp [hl, bind, Except.bind] at hr
  | ok n =>
    simp only [hl, bind, Except.bind] at hr
    exact wf2_mkSlice _ h hr

theorem rel_mkSort {d d' : DS} {r : RefDS} (keyFn : Option (Val → Res Val)) (rev : Bool) (h : Rel d r)
    (hd : mkSort keyFn rev d = .ok d') : ∃ r', Ref.mkSort keyFn rev r = .ok r' ∧ Rel d' r' := by
  unfold mkSort at hd
  unfold Ref.mkSort
  cases keyFn with
  | none =>
    simp only at hd ⊢
    rw [← h.keys]
    cases hk : d.keys with
    | error e =>
      simp only [hk] at hd
      split at hd <;> cases hd
    | ok ks =>
      simp only [hk] at hd ⊢
      exact rel_mkSlice _ h hd
  | some f =>
    simp only [bind, Except.bind] at hd ⊢
    rw [← h.iter]
    cases hm : d.iter.vals.mapM f with
    | error e => simp [hm] at hd
    | ok kv =>
      simp only [hm] at hd ⊢
      cases hv : streamToRes d.iter with
      | error e => simp [hv] at hd
      | ok vs =>
        simp only [hv] at hd ⊢
        cases ha : asInts kv with
        | some is =>
          simp only [ha] at hd ⊢
          exact rel_mkSlice _ h hd
        | none =>
          simp only [ha] at hd ⊢
          cases hb : asStrs kv with
          | some ss =>
            simp only [hb] at hd ⊢
            exact rel_mkSlice _ h hd
          | none =>
            simp only [hb] at hd ⊢
            split at hd
            · rename_i hle
              simp only [hle, if_true]
              exact rel_mkSlice _ h hd
            · cases hd

theorem wf2_mkSort {r r' : RefDS} (keyFn : Option (Val → Res Val)) (rev : Bool) (h : RefWF2 r)
    (hr : Ref.mkSort keyFn rev r = .ok r') : RefWF2 r' := by
  unfold Ref.mkSort at hr
  cases keyFn with
  | none =>
    simp only at hr
    cases hk : r.keys with
    | error e =>
      simp only [hk] at hr
      split at hr <;> cases hr
    | ok ks =>
      simp only [hk] at hr
      exact wf2_mkSlice _ h hr
  | some f =>
    simp only [bind, Except.bind] at hr
    cases hm : r.stream.vals.mapM f with
    | error e => simp [hm] at hr
    | ok kv =>
      simp only [hm] at hr
      cases hv : streamToRes r.stream with
      | error e => simp [hv] at hr
      | ok vs =>
        simp only [hv] at hr
        cases ha : asInts kv with
        | some is =>
          simp only [ha] at hr
          exact wf2_mkSlice _ h hr
        | none =>
          simp only [ha] at hr
          cases hb : asStrs kv with
          | some ss =>
            simp only [hb] at hr
            exact wf2_mkSlice _ h hr
          | none =>
            simp only [hb] at hr
            split at hr
            · exact wf2_mkSlice _ h hr
            · cases hr

/-- lifting a per-element refinement through `List.mapM` -/
theorem mapM_rel {α} (f : α → Res DS) (g : α → Res RefDS)
    (hfg : ∀ a d, f a = .ok d → ∃ r, g a = .ok r ∧ Rel d r) :
    ∀ (l : List α) (ds : List DS), l.mapM f = .ok ds → ∃ rs, l.mapM g = .ok rs ∧ List.Forall₂ Rel ds rs
  | [], ds, h => by
    simp only [List.mapM_nil] at h
    cases h
    exact ⟨[], rfl, List.Forall₂.nil⟩
  | a :: l, ds, h => by
    simp only [List.mapM_cons] at h
    cases hfa : f a with
    | error e => rw [hfa] at h; cases h
    | ok d =>
      rw [hfa] at h
      cases hl : l.mapM f with
      | error e => rw [hl] at h; cases h
      | ok ds' =>
        rw [hl] at h
        cases h
        obtain ⟨r, hr, hrel⟩ := hfg a d hfa
        obtain ⟨rs, hrs, hall⟩ := mapM_rel f g hfg l ds' hl
        refine ⟨r :: rs, ?_, List.Forall₂.cons hrel hall⟩
        simp only [List.mapM_cons, hr, hrs]
        rfl

theorem mapM_wf {α} (g : α → Res RefDS) (hg : ∀ a r, g a = .ok r → RefWF2 r) :
    ∀ (l : List α) (rs : List RefDS), l.mapM g = .ok rs → ∀ r ∈ rs, RefWF2 r
  | [], rs, h => by
    simp only [List.mapM_nil] at h
    cases h
    intro r hr; cases hr
  | a :: l, rs, h => by
    simp only [List.mapM_cons] at h
    cases hga : g a with
    | error e => rw [hga] at h; cases h
    | ok r0 =>
      rw [hga] at h
      cases hl : l.mapM g with
      | error e => rw [hl] at h; cases h
      | ok rs' =>
        rw [hl] at h
        cases h
        intro r hr
        cases hr with
        | head => exact hg a _ hga
        | tail _ hr => exact mapM_wf g hg l rs' hl r hr

theorem forall₂_pyIndex {ds : List DS} {rs : List RefDS} (h : List.Forall₂ Rel ds rs) (i : Int) (d : DS)
    (hd : pyIndex ds i = .ok d) : ∃ r, pyIndex rs i = .ok r ∧ Rel d r := by
  have hlen : ds.length = rs.length := by
    clear hd
    induction h with
    | nil => rfl
    | cons _ _ ih => simp [ih]
  rw [pyIndex_eq] at hd
  rw [pyIndex_eq, ← hlen]
  clear hlen
  generalize (if i < 0 then i + (ds.length : Int) else i) = j at hd ⊢
  unfold pyCore at hd ⊢
  by_cases hj : j < 0
  · simp [hj] at hd
  · simp only [hj, if_false] at hd ⊢
    generalize j.toNat = k at hd ⊢
    induction h generalizing k with
    | nil => simp at hd
    | cons hrel _ ih =>
      cases k with
      | zero =>
        simp only [List.getElem?_cons_zero] at hd ⊢
        injection hd with hd
        subst hd
        exact ⟨_, rfl, hrel⟩
      | succ k =>
        simp only [List.getElem?_cons_succ] at hd ⊢
        exact ih k hd

theorem rel_mkSplit {d : DS} {r : RefDS} (k : Int) (h : Rel d r) (ds : List DS) (hd : mkSplit k d = .ok ds) :
    ∃ rs, Ref.mkSplit k r = .ok rs ∧ List.Forall₂ Rel ds rs := by
  unfold mkSplit at hd
  unfold Ref.mkSplit
  rw [← h.len]
  by_cases hk : k < 1
  · simp [hk, throw, throwThe, MonadExceptOf.throw, bind, Except.bind] at hd
  · simp only [hk, if_false, bind, Except.bind] at hd ⊢
    cases hl : d.len with
    | error e => simp [hl] at hd
    | ok n =>
      simp only [hl] at hd ⊢
      by_cases hkn : k > (n : Int)
      · simp [hkn, throw, throwThe, MonadExceptOf.throw] at hd
      · simp only [hkn, if_false] at hd ⊢
        exact mapM_rel _ _ (fun i d' hd' => rel_mkSlice _ h hd') _ ds hd

theorem wf2_mkSplit {r : RefDS} (k : Int) (h : RefWF2 r) (rs : List RefDS) (hr : Ref.mkSplit k r = .ok rs) :
    ∀ r' ∈ rs, RefWF2 r' := by
  unfold Ref.mkSplit at hr
  by_cases hk : k < 1
  · simp [hk, throw, throwThe, MonadExceptOf.throw, bind, Except.bind] at hr
  · simp only [hk, if_false, bind, Except.bind] at hr
    cases hl : r.len with
    | error e => simp [hl] at hr
    | ok n =>
      simp only [hl] at hr
      by_cases hkn : k > (n : Int)
      · simp [hkn, throw, throwThe, MonadExceptOf.throw] at hr
      · simp only [hkn, if_false] at hr
        exact mapM_wf _ (fun i r' hr' => wf2_mkSlice _ h hr') _ rs hr

theorem rel_mkShard {d d' : DS} {r : RefDS} (k i : Int) (h : Rel d r) (hd : mkShard k i d = .ok d') :
    ∃ r', Ref.mkShard k i r = .ok r' ∧ Rel d' r' := by
  unfold mkShard at hd
  unfold Ref.mkShard
  cases hs : mkSplit k d with
  | error e => simp [hs, bind, Except.bind] at hd
  | ok parts =>
    simp only [hs, bind, Except.bind] at hd
    obtain ⟨rs, hrs, hall⟩ := rel_mkSplit k h parts hs
    obtain ⟨r', hr', hrel⟩ := forall₂_pyIndex hall i d' hd
    exact ⟨r', by simp only [hrs, bind, Except.bind]; exact hr', hrel⟩

theorem wf2_mkShard {r r' : RefDS} (k i : Int) (h : RefWF2 r) (hr : Ref.mkShard k i r = .ok r') : RefWF2 r' := by
  unfold Ref.mkShard at hr
  cases hs : Ref.mkSplit k r with
  | error e => simp [hs, bind, Except.bind] at hr
  | ok parts =>
    simp only [hs, bind, Except.bind] at hr
    exact wf2_mkSplit k h parts hs r' (pyIndex_ok_mem _ _ _ hr)

/-! ### admissible pipelines

The side conditions under which the refinement is proved.  Each is forced by the code (the
places where the full statement is false are exhibited as counterexample theorems):
* user functions never raise `IndexError` (`EnvOK`): `BatchDataset.__getitem__` would swallow it;
* dict sources have distinct keys (Python dicts do);
* `batch` has `batch_size ≥ 1`, and with `drop_last` the dropped tail evaluates without error
  (`rel_batch_counterexample`);
* `items()` of an indexable dataset needs its key table (`items_getInt_without_keys_counterexample`, finding F18);
* `catch`, multi-worker `prefetch` and `key_zip` parts need positional access to an indexable input;
* `cycle` is outside (infinite). -/

def EnvOK (ρ : Env) : Prop := ∀ f v, ρ.fn f v ≠ .error .indexError

mutual
def Adm (ρ : Env) : Pipeline → Prop
  | .listSrc _ => True
  | .dictSrc kvs => (kvs.map (·.1)).Nodup
  | .map _ p => Adm ρ p
  | .parMap _ _ _ p => Adm ρ p
  | .filterLazy _ p => Adm ρ p
  | .filterEager _ p => Adm ρ p
  | .slice _ p => Adm ρ p
  | .concat ps => AdmAll ρ ps
  | .intersperse ps => AdmAll ρ ps
  | .zip ps => AdmAll ρ ps
  | .keyZip ps => AdmAll ρ ps ∧ ∀ rs, refAll ρ ps = .ok rs → ∀ r ∈ rs, r.indexable = true
  | .batch n dl p => Adm ρ p ∧ 1 ≤ n ∧
      ∀ r, ref ρ p = .ok r → r.indexable = true → dl = true → TailOk n r.outs
  | .unbatch p => Adm ρ p
  | .items p => Adm ρ p ∧ ∀ r, ref ρ p = .ok r → r.indexable = true → ∃ ks, r.keys = .ok ks
  | .tile _ p => Adm ρ p
  | .shuffleOnce _ p => Adm ρ p
  | .sort _ _ p => Adm ρ p
  | .shard _ _ p => Adm ρ p
  | .cache p => Adm ρ p
  | .cacheEager p => Adm ρ p
  | .catch _ p => Adm ρ p ∧ ∀ r, ref ρ p = .ok r → r.indexable = true
  | .copy _ p => Adm ρ p
  | .prefetch w _ t ce p => Adm ρ p ∧
      ∀ r, ref ρ p = .ok r → (ce.isSome = true ∨ ¬(w = 1 ∧ t = true)) → r.indexable = true
  | .cycle _ => False
def AdmAll (ρ : Env) : Pipelines → Prop
  | .nil => True
  | .cons p ps => Adm ρ p ∧ AdmAll ρ ps
end

/-! ### the refinement theorem -/

mutual
theorem build_ref (ρ : Env) (hρ : EnvOK ρ) :
    (p : Pipeline) → Adm ρ p → ∀ d, build ρ p = .ok d → ∃ r, ref ρ p = .ok r ∧ Rel d r
  | .listSrc xs, _, d, h => by
    simp only [build] at h; cases h
    exact ⟨_, rfl, rel_listSrc xs⟩
  | .dictSrc kvs, ha, d, h => by
    simp only [build] at h; cases h
    exact ⟨_, rfl, rel_dictSrc kvs ha⟩
  | .map f p, ha, d, h => by
    simp only [build, bind, Except.bind] at h
    cases hb : build ρ p with
    | error e => simp [hb] at h
    | ok d0 =>
      simp only [hb] at h; cases h
      obtain ⟨r0, hr0, hrel⟩ := build_ref ρ hρ p ha d0 hb
      exact ⟨_, by simp only [ref, bind, Except.bind, hr0], rel_map _ (hρ f) hrel⟩
  | .parMap f w b p, ha, d, h => by
    simp only [build, bind, Except.bind] at h
    cases hb : build ρ p with
    | error e => simp [hb] at h
    | ok d0 =>
      simp only [hb] at h
      obtain ⟨r0, hr0, hrel⟩ := build_ref ρ hρ p ha d0 hb
      by_cases hw : (w == 0) = true
      · simp only [hw, if_true] at h; cases h
        exact ⟨_, by simp only [ref, bind, Except.bind, hr0, hw, if_true], rel_map _ (hρ f) hrel⟩
      · have hd : parMapDS (ρ.fn f) b d0 = d := by
          simp only [hw] at h
          injection h
        subst hd
        exact ⟨_, by simp only [ref, bind, Except.bind, hr0, hw]; rfl, rel_parMap _ b (hρ f) hrel⟩
  | .filterLazy f p, ha, d, h => by
    simp only [build, bind, Except.bind] at h
    cases hb : build ρ p with
    | error e => simp [hb] at h
    | ok d0 =>
      simp only [hb] at h; cases h
      obtain ⟨r0, hr0, hrel⟩ := build_ref ρ hρ p ha d0 hb
      exact ⟨_, by simp only [ref, bind, Except.bind, hr0], rel_filter _ hrel⟩
  | .filterEager f p, ha, d, h => by
    simp only [build, bind, Except.bind] at h
    cases hb : build ρ p with
    | error e => simp [hb] at h
    | ok d0 =>
      simp only [hb] at h
      obtain ⟨r0, hr0, hrel⟩ := build_ref ρ hρ p ha d0 hb
      obtain ⟨r, hr, hr'⟩ := rel_mkFilterEager _ hrel h
      exact ⟨r, by simp only [ref, bind, Except.bind, hr0]; exact hr, hr'⟩
  | .slice s p, ha, d, h => by
    simp only [build, bind, Except.bind] at h
    cases hb : build ρ p with
    | error e => simp [hb] at h
    | ok d0 =>
      simp only [hb] at h
      obtain ⟨r0, hr0, hrel⟩ := build_ref ρ hρ p ha d0 hb
      obtain ⟨r, hr, hr'⟩ := rel_mkSlice s hrel h
      exact ⟨r, by simp only [ref, bind, Except.bind, hr0]; exact hr, hr'⟩
  | .concat ps, ha, d, h => by
    simp only [build, bind, Except.bind] at h
    cases hb : buildAll ρ ps with
    | error e => simp [hb] at h
    | ok ds =>
      simp only [hb] at h
      obtain ⟨rs, hrs, hall⟩ := buildAll_ref ρ hρ ps ha ds hb
      obtain ⟨r, hr, hr'⟩ := rel_mkConcat hall h
      exact ⟨r, by simp only [ref, bind, Except.bind, hrs]; exact hr, hr'⟩
  | .intersperse ps, ha, d, h => by
    simp only [build, bind, Except.bind] at h
    cases hb : buildAll ρ ps with
    | error e => simp [hb] at h
    | ok ds =>
      simp only [hb] at h
      obtain ⟨rs, hrs, hall⟩ := buildAll_ref ρ hρ ps ha ds hb
      cases hall with
      | nil => cases h
      | cons h1 htl =>
        cases htl with
        | nil =>
          cases h
          exact ⟨_, by simp only [ref, bind, Except.bind, hrs], h1⟩
        | cons h2 htl2 =>
          obtain ⟨r, hr, hr'⟩ := rel_mkIntersperse (List.Forall₂.cons h1 (List.Forall₂.cons h2 htl2)) h
          exact ⟨r, by simp only [ref, bind, Except.bind, hrs]; exact hr, hr'⟩
  | .zip ps, ha, d, h => by
    simp only [build, bind, Except.bind] at h
    cases hb : buildAll ρ ps with
    | error e => simp [hb] at h
    | ok ds =>
      simp only [hb] at h
      obtain ⟨rs, hrs, hall⟩ := buildAll_ref ρ hρ ps ha ds hb
      cases hall with
      | nil => simp at h
      | cons h1 htl =>
        simp only [List.isEmpty_cons, Bool.false_eq_true, if_false] at h
        obtain ⟨r, hr, hr'⟩ := rel_mkZip (List.Forall₂.cons h1 htl) h
        exact ⟨r, by simp only [ref, bind, Except.bind, hrs, List.isEmpty_cons, Bool.false_eq_true, if_false]; exact hr, hr'⟩
  | .keyZip ps, ha, d, h => by
    simp only [build, bind, Except.bind] at h
    cases hb : buildAll ρ ps with
    | error e => simp [hb] at h
    | ok ds =>
      simp only [hb] at h
      obtain ⟨rs, hrs, hall⟩ := buildAll_ref ρ hρ ps ha.1 ds hb
      cases hall with
      | nil => simp at h
      | cons h1 htl =>
        simp only [List.isEmpty_cons, Bool.false_eq_true, if_false] at h
        obtain ⟨r, hr, hr'⟩ := rel_mkKeyZip (List.Forall₂.cons h1 htl) (ha.2 _ hrs) h
        exact ⟨r, by simp only [ref, bind, Except.bind, hrs, List.isEmpty_cons, Bool.false_eq_true, if_false]; exact hr, hr'⟩
  | .batch n dl p, ha, d, h => by
    simp only [build, bind, Except.bind] at h
    cases hb : build ρ p with
    | error e => simp [hb] at h
    | ok d0 =>
      simp only [hb] at h; cases h
      obtain ⟨r0, hr0, hrel⟩ := build_ref ρ hρ p ha.1 d0 hb
      exact ⟨_, by simp only [ref, bind, Except.bind, hr0],
        rel_batch_partial hrel ha.2.1 (fun hi hdl => ha.2.2 r0 hr0 hi hdl)⟩
  | .unbatch p, ha, d, h => by
    simp only [build, bind, Except.bind] at h
    cases hb : build ρ p with
    | error e => simp [hb] at h
    | ok d0 =>
      simp only [hb] at h; cases h
      obtain ⟨r0, hr0, hrel⟩ := build_ref ρ hρ p ha d0 hb
      exact ⟨_, by simp only [ref, bind, Except.bind, hr0], rel_unbatch hrel⟩
  | .items p, ha, d, h => by
    simp only [build, bind, Except.bind] at h
    cases hb : build ρ p with
    | error e => simp [hb] at h
    | ok d0 =>
      simp only [hb] at h; cases h
      obtain ⟨r0, hr0, hrel⟩ := build_ref ρ hρ p ha.1 d0 hb
      exact ⟨_, by simp only [ref, bind, Except.bind, hr0], rel_items hrel (ha.2 r0 hr0)⟩
  | .tile n p, ha, d, h => by
    simp only [build, bind, Except.bind] at h
    cases hb : build ρ p with
    | error e => simp [hb] at h
    | ok d0 =>
      simp only [hb] at h
      obtain ⟨r0, hr0, hrel⟩ := build_ref ρ hρ p ha d0 hb
      obtain ⟨r, hr, hr'⟩ := rel_mkTile hrel h
      exact ⟨r, by simp only [ref, bind, Except.bind, hr0]; exact hr, hr'⟩
  | .shuffleOnce perm p, ha, d, h => by
    simp only [build, bind, Except.bind] at h
    cases hb : build ρ p with
    | error e => simp [hb] at h
    | ok d0 =>
      simp only [hb] at h
      obtain ⟨r0, hr0, hrel⟩ := build_ref ρ hρ p ha d0 hb
      obtain ⟨r, hr, hr'⟩ := rel_mkShuffleOnce perm hrel h
      exact ⟨r, by simp only [ref, bind, Except.bind, hr0]; exact hr, hr'⟩
  | .sort key rev p, ha, d, h => by
    simp only [build, bind, Except.bind] at h
    cases hb : build ρ p with
    | error e => simp [hb] at h
    | ok d0 =>
      simp only [hb] at h
      obtain ⟨r0, hr0, hrel⟩ := build_ref ρ hρ p ha d0 hb
      obtain ⟨r, hr, hr'⟩ := rel_mkSort _ rev hrel h
      exact ⟨r, by simp only [ref, bind, Except.bind, hr0]; exact hr, hr'⟩
  | .shard k i p, ha, d, h => by
    simp only [build, bind, Except.bind] at h
    cases hb : build ρ p with
    | error e => simp [hb] at h
    | ok d0 =>
      simp only [hb] at h
      obtain ⟨r0, hr0, hrel⟩ := build_ref ρ hρ p ha d0 hb
      obtain ⟨r, hr, hr'⟩ := rel_mkShard k i hrel h
      exact ⟨r, by simp only [ref, bind, Except.bind, hr0]; exact hr, hr'⟩
  | .cache p, ha, d, h => by
    simp only [build, bind, Except.bind] at h
    cases hb : build ρ p with
    | error e => simp [hb] at h
    | ok d0 =>
      simp only [hb] at h
      obtain ⟨r0, hr0, hrel⟩ := build_ref ρ hρ p ha d0 hb
      obtain ⟨r, hr, hr'⟩ := rel_mkCache hrel h
      exact ⟨r, by simp only [ref, bind, Except.bind, hr0]; exact hr, hr'⟩
  | .cacheEager p, ha, d, h => by
    simp only [build, bind, Except.bind] at h
    cases hb : build ρ p with
    | error e => simp [hb] at h
    | ok d0 =>
      simp only [hb] at h
      obtain ⟨r0, hr0, hrel⟩ := build_ref ρ hρ p ha d0 hb
      obtain ⟨r, hr, hr'⟩ := rel_mkCacheEager hrel h
      exact ⟨r, by simp only [ref, bind, Except.bind, hr0]; exact hr, hr'⟩
  | .catch E p, ha, d, h => by
    simp only [build, bind, Except.bind] at h
    cases hb : build ρ p with
    | error e => simp [hb] at h
    | ok d0 =>
      simp only [hb] at h; cases h
      obtain ⟨r0, hr0, hrel⟩ := build_ref ρ hρ p ha.1 d0 hb
      exact ⟨_, by simp only [ref, bind, Except.bind, hr0], rel_catch E hrel (ha.2 r0 hr0)⟩
  | .copy _ p, ha, d, h => by
    simp only [build] at h
    obtain ⟨r0, hr0, hrel⟩ := build_ref ρ hρ p ha d h
    exact ⟨r0, by simp only [ref]; exact hr0, hrel⟩
  | .prefetch w b t ce p, ha, d, h => by
    simp only [build, bind, Except.bind] at h
    cases hb : build ρ p with
    | error e => simp [hb] at h
    | ok d0 =>
      simp only [hb] at h
      obtain ⟨r0, hr0, hrel⟩ := build_ref ρ hρ p ha.1 d0 hb
      obtain ⟨r, hr, hr'⟩ := rel_mkPrefetch w b t ce hrel (ha.2 r0 hr0) h
      exact ⟨r, by simp only [ref, bind, Except.bind, hr0]; exact hr, hr'⟩
  | .cycle p, ha, d, h => by cases ha
theorem buildAll_ref (ρ : Env) (hρ : EnvOK ρ) :
    (ps : Pipelines) → AdmAll ρ ps → ∀ ds, buildAll ρ ps = .ok ds →
      ∃ rs, refAll ρ ps = .ok rs ∧ List.Forall₂ Rel ds rs
  | .nil, _, ds, h => by
    simp only [buildAll] at h; cases h
    exact ⟨[], rfl, List.Forall₂.nil⟩
  | .cons p ps, ha, ds, h => by
    simp only [buildAll, bind, Except.bind] at h
    cases hb : build ρ p with
    | error e => simp [hb] at h
    | ok d0 =>
      simp only [hb] at h
      cases hbs : buildAll ρ ps with
      | error e => simp [hbs] at h
      | ok ds0 =>
        simp only [hbs] at h; cases h
        obtain ⟨r0, hr0, hrel⟩ := build_ref ρ hρ p ha.1 d0 hb
        obtain ⟨rs, hrs, hall⟩ := buildAll_ref ρ hρ ps ha.2 ds0 hbs
        exact ⟨r0 :: rs, by simp only [refAll, bind, Except.bind, hr0, hrs], List.Forall₂.cons hrel hall⟩
end


/-! ### every reference dataset is well-formed (C02 / C03 on the eager data) -/

mutual
theorem ref_wf (ρ : Env) : (p : Pipeline) → Adm ρ p → ∀ r, ref ρ p = .ok r → RefWF2 r
  | .listSrc xs, _, r, h => by
    simp only [ref] at h; cases h; exact wf2_listSrc xs
  | .dictSrc kvs, _, r, h => by
    simp only [ref] at h; cases h; exact wf2_dictSrc kvs
  | .map f p, ha, r, h => by
    simp only [ref, bind, Except.bind] at h
    cases hb : ref ρ p with
    | error e => simp [hb] at h
    | ok r0 => simp only [hb] at h; cases h; exact wf2_map _ (ref_wf ρ p ha r0 hb)
  | .parMap f w b p, ha, r, h => by
    simp only [ref, bind, Except.bind] at h
    cases hb : ref ρ p with
    | error e => simp [hb] at h
    | ok r0 =>
      simp only [hb] at h
      split at h
      · cases h; exact wf2_map _ (ref_wf ρ p ha r0 hb)
      · cases h; exact wf2_parMap _ b (ref_wf ρ p ha r0 hb)
  | .filterLazy f p, ha, r, h => by
    simp only [ref, bind, Except.bind] at h
    cases hb : ref ρ p with
    | error e => simp [hb] at h
    | ok r0 => simp only [hb] at h; cases h; exact wf2_filter _ (ref_wf ρ p ha r0 hb)
  | .filterEager f p, ha, r, h => by
    simp only [ref, bind, Except.bind] at h
    cases hb : ref ρ p with
    | error e => simp [hb] at h
    | ok r0 => simp only [hb] at h; exact wf2_mkFilterEager _ (ref_wf ρ p ha r0 hb) h
  | .slice s p, ha, r, h => by
    simp only [ref, bind, Except.bind] at h
    cases hb : ref ρ p with
    | error e => simp [hb] at h
    | ok r0 => simp only [hb] at h; exact wf2_mkSlice s (ref_wf ρ p ha r0 hb) h
  | .concat ps, ha, r, h => by
    simp only [ref, bind, Except.bind] at h
    cases hb : refAll ρ ps with
    | error e => simp [hb] at h
    | ok rs => simp only [hb] at h; exact wf2_mkConcat (refAll_wf ρ ps ha rs hb) h
  | .intersperse ps, ha, r, h => by
    simp only [ref, bind, Except.bind] at h
    cases hb : refAll ρ ps with
    | error e => simp [hb] at h
    | ok rs =>
      simp only [hb] at h
      have hall := refAll_wf ρ ps ha rs hb
      match rs, h, hall with
      | [], h, _ => cases h
      | [r1], h, hall => cases h; exact hall _ (List.mem_singleton.mpr rfl)
      | r1 :: r2 :: rest, h, hall => exact wf2_mkIntersperse hall h
  | .zip ps, ha, r, h => by
    simp only [ref, bind, Except.bind] at h
    cases hb : refAll ρ ps with
    | error e => simp [hb] at h
    | ok rs =>
      simp only [hb] at h
      split at h
      · cases h
      · exact wf2_mkZip (refAll_wf ρ ps ha rs hb) h
  | .keyZip ps, ha, r, h => by
    simp only [ref, bind, Except.bind] at h
    cases hb : refAll ρ ps with
    | error e => simp [hb] at h
    | ok rs =>
      simp only [hb] at h
      split at h
      · cases h
      · exact wf2_mkKeyZip (refAll_wf ρ ps ha.1 rs hb) (ha.2 rs hb) h
  | .batch n dl p, ha, r, h => by
    simp only [ref, bind, Except.bind] at h
    cases hb : ref ρ p with
    | error e => simp [hb] at h
    | ok r0 => simp only [hb] at h; cases h; exact wf2_batch (ref_wf ρ p ha.1 r0 hb) ha.2.1
  | .unbatch p, ha, r, h => by
    simp only [ref, bind, Except.bind] at h
    cases hb : ref ρ p with
    | error e => simp [hb] at h
    | ok r0 => simp only [hb] at h; cases h; exact wf2_unbatch (ref_wf ρ p ha r0 hb)
  | .items p, ha, r, h => by
    simp only [ref, bind, Except.bind] at h
    cases hb : ref ρ p with
    | error e => simp [hb] at h
    | ok r0 => simp only [hb] at h; cases h; exact wf2_items (ref_wf ρ p ha.1 r0 hb) (ha.2 r0 hb)
  | .tile n p, ha, r, h => by
    simp only [ref, bind, Except.bind] at h
    cases hb : ref ρ p with
    | error e => simp [hb] at h
    | ok r0 => simp only [hb] at h; exact wf2_mkTile (ref_wf ρ p ha r0 hb) h
  | .shuffleOnce perm p, ha, r, h => by
    simp only [ref, bind, Except.bind] at h
    cases hb : ref ρ p with
    | error e => simp [hb] at h
    | ok r0 => simp only [hb] at h; exact wf2_mkShuffleOnce perm (ref_wf ρ p ha r0 hb) h
  | .sort key rev p, ha, r, h => by
    simp only [ref, bind, Except.bind] at h
    cases hb : ref ρ p with
    | error e => simp [hb] at h
    | ok r0 => simp only [hb] at h; exact wf2_mkSort _ rev (ref_wf ρ p ha r0 hb) h
  | .shard k i p, ha, r, h => by
    simp only [ref, bind, Except.bind] at h
    cases hb : ref ρ p with
    | error e => simp [hb] at h
    | ok r0 => simp only [hb] at h; exact wf2_mkShard k i (ref_wf ρ p ha r0 hb) h
  | .cache p, ha, r, h => by
    simp only [ref, bind, Except.bind] at h
    cases hb : ref ρ p with
    | error e => simp [hb] at h
    | ok r0 => simp only [hb] at h; exact wf2_mkCache (ref_wf ρ p ha r0 hb) h
  | .cacheEager p, ha, r, h => by
    simp only [ref, bind, Except.bind] at h
    cases hb : ref ρ p with
    | error e => simp [hb] at h
    | ok r0 => simp only [hb] at h; exact wf2_mkCacheEager (ref_wf ρ p ha r0 hb) h
  | .catch E p, ha, r, h => by
    simp only [ref, bind, Except.bind] at h
    cases hb : ref ρ p with
    | error e => simp [hb] at h
    | ok r0 => simp only [hb] at h; cases h; exact wf2_catch E (ref_wf ρ p ha.1 r0 hb) (ha.2 r0 hb)
  | .copy _ p, ha, r, h => by
    simp only [ref] at h; exact ref_wf ρ p ha r h
  | .prefetch w b t ce p, ha, r, h => by
    simp only [ref, bind, Except.bind] at h
    cases hb : ref ρ p with
    | error e => simp [hb] at h
    | ok r0 => simp only [hb] at h; exact wf2_mkPrefetch w b t ce (ref_wf ρ p ha.1 r0 hb) (ha.2 r0 hb) h
  | .cycle p, ha, r, h => by cases ha
theorem refAll_wf (ρ : Env) : (ps : Pipelines) → AdmAll ρ ps → ∀ rs, refAll ρ ps = .ok rs → ∀ r ∈ rs, RefWF2 r
  | .nil, _, rs, h => by
    simp only [refAll] at h; cases h
    intro r hr; cases hr
  | .cons p ps, ha, rs, h => by
    simp only [refAll, bind, Except.bind] at h
    cases hb : ref ρ p with
    | error e => simp [hb] at h
    | ok r0 =>
      simp only [hb] at h
      cases hbs : refAll ρ ps with
      | error e => simp [hbs] at h
      | ok rs0 =>
        simp only [hbs] at h; cases h
        intro r hr
        cases hr with
        | head => exact ref_wf ρ p ha.1 r0 hb
        | tail _ hr => exact refAll_wf ρ ps ha.2 rs0 hbs r hr
end

end LazyDs

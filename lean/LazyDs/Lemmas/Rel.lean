import LazyDs.Spec.Ref
/-
  The refinement relation between a model dataset (`DS`, index walks and all) and a reference
  dataset (`RefDS`, eager list data), basic facts about `pyIndex`/`outAt`/`Stream.ofOuts`,
  and the refinement lemmas for the stages whose proof is short.
-/
namespace LazyDs

/-! ### list indexing -/

/-- the two steps of `pyIndex`: wrap a negative index once, then look up -/
def pyCore {α} (l : List α) (j : Int) : Res α :=
  if j < 0 then .error .indexError
  else match l[j.toNat]? with
    | some v => .ok v
    | none => .error .indexError

theorem pyIndex_eq {α} (l : List α) (i : Int) :
    pyIndex l i = pyCore l (if i < 0 then i + (l.length : Int) else i) := rfl

theorem pyCore_map {α β} (f : α → β) (l : List α) (j : Int) :
    pyCore (l.map f) j = (pyCore l j).map f := by
  unfold pyCore
  by_cases h : j < 0
  · simp [h, Except.map]
  · simp only [h, if_false, List.getElem?_map]
    cases l[j.toNat]? <;> rfl

theorem pyIndex_nat {α} (l : List α) (j : Nat) :
    pyIndex l (j : Int) = match l[j]? with | some v => .ok v | none => .error .indexError := by
  rw [pyIndex_eq]
  have h1 : ¬ ((j : Int) < 0) := by omega
  simp only [h1, if_false, pyCore, Int.toNat_natCast]

theorem pyIndex_lt {α} (l : List α) (j : Nat) (h : j < l.length) :
    pyIndex l (j : Int) = .ok l[j] := by
  rw [pyIndex_nat]; simp [h]

theorem pyIndex_ge {α} (l : List α) (i : Int) (h : (l.length : Int) ≤ i) :
    pyIndex l i = .error .indexError := by
  rw [pyIndex_eq]
  have h1 : ¬ (i < 0) := by omega
  simp only [h1, if_false, pyCore]
  have : l[i.toNat]? = none := by
    apply List.getElem?_eq_none; omega
  simp [this]

theorem pyIndex_lt_neg {α} (l : List α) (i : Int) (h : i < -(l.length : Int)) :
    pyIndex l i = .error .indexError := by
  rw [pyIndex_eq]
  have h1 : i < 0 := by omega
  have h2 : i + (l.length : Int) < 0 := by omega
  simp [h1, h2, pyCore]

theorem pyIndex_wrap {α} (l : List α) (i : Int) (h0 : 0 ≤ i) (h1 : i < l.length) :
    pyIndex l (i - l.length) = pyIndex l i := by
  rw [pyIndex_eq, pyIndex_eq]
  have a1 : i - (l.length : Int) < 0 := by omega
  have a2 : ¬ (i < 0) := by omega
  simp only [a1, a2, if_true, if_false]
  have : i - (l.length : Int) + (l.length : Int) = i := by omega
  rw [this]

theorem pyIndex_map {α β} (f : α → β) (l : List α) (i : Int) :
    pyIndex (l.map f) i = (pyIndex l i).map f := by
  rw [pyIndex_eq, pyIndex_eq, pyCore_map, List.length_map]

theorem pyCore_error {α} (l : List α) (j : Int) (e : Err) (h : pyCore l j = .error e) :
    e = .indexError := by
  unfold pyCore at h
  split at h
  · injection h with h; exact h.symm
  · split at h
    · cases h
    · injection h with h; exact h.symm

theorem pyIndex_error {α} (l : List α) (i : Int) (e : Err) (h : pyIndex l i = .error e) :
    e = .indexError := by
  rw [pyIndex_eq] at h; exact pyCore_error _ _ _ h

theorem pyCore_ok_mem {α} (l : List α) (j : Int) (v : α) (h : pyCore l j = .ok v) : v ∈ l := by
  unfold pyCore at h
  split at h
  · cases h
  · split at h
    · rename_i hv
      injection h with h
      subst h
      exact List.mem_of_getElem? hv
    · cases h

theorem pyIndex_ok_mem {α} (l : List α) (i : Int) (v : α) (h : pyIndex l i = .ok v) : v ∈ l := by
  rw [pyIndex_eq] at h; exact pyCore_ok_mem _ _ _ h

theorem outAt_map' (g : Res Val → Res Val) (hg : ∀ e, g (.error e) = .error e) (l : List (Res Val)) (i : Int) :
    outAt (l.map g) i = g (outAt l i) := by
  unfold outAt
  rw [pyIndex_map]
  cases h : pyIndex l i with
  | ok v => rfl
  | error e => simp [Except.map, hg]

theorem outAt_lt (l : List (Res Val)) (j : Nat) (h : j < l.length) : outAt l (j : Int) = l[j] := by
  unfold outAt; rw [pyIndex_lt l j h]

theorem outAt_ge (l : List (Res Val)) (i : Int) (h : (l.length : Int) ≤ i) : outAt l i = .error .indexError := by
  unfold outAt; rw [pyIndex_ge l i h]

theorem outAt_lt_neg (l : List (Res Val)) (i : Int) (h : i < -(l.length : Int)) : outAt l i = .error .indexError := by
  unfold outAt; rw [pyIndex_lt_neg l i h]

theorem outAt_wrap (l : List (Res Val)) (i : Int) (h0 : 0 ≤ i) (h1 : i < l.length) :
    outAt l (i - l.length) = outAt l i := by
  unfold outAt; rw [pyIndex_wrap l i h0 h1]

/-! ### the refinement relation -/

/-- `d` (the model of the lazy code) refines `r` (the eager reference data) -/
structure Rel (d : DS) (r : RefDS) : Prop where
  indexable : d.indexable = r.indexable
  len : d.len = r.len
  keys : d.keys = r.keys
  iter : d.iter = r.stream
  iterK : d.iterK = r.kstream
  /-- integer indexing is Python list indexing of the outcome list -/
  idx : r.indexable = true → r.len = .ok r.outs.length ∧ ∀ i, d.getInt i = outAt r.outs i
  /-- in-range outcomes are never `IndexError` (user functions do not raise it: hypothesis of the theorems) -/
  noIdxErr : r.indexable = true → ∀ o ∈ r.outs, o ≠ .error .indexError
  /-- a key table has one key per position -/
  keysLen : r.indexable = true → ∀ ks, r.keys = .ok ks → ks.length = r.outs.length
  /-- looking up the key listed at position `j` gives the example at position `j` -/
  getKey : r.indexable = true → ∀ ks, r.keys = .ok ks → ∀ (j : Nat) (h : j < ks.length),
    d.getKey (ks[j]) = outAt r.outs (j : Int)

/-! ### sources -/

theorem rel_listSrc (xs : List Val) : Rel (listSrc xs) (Ref.listSrc xs) where
  indexable := rfl
  len := rfl
  keys := rfl
  iter := rfl
  iterK := rfl
  idx := by
    intro _
    refine ⟨by simp [Ref.listSrc], ?_⟩
    intro i
    simp only [listSrc, Ref.listSrc, outAt, pyIndex_map]
    cases pyIndex xs i <;> rfl
  noIdxErr := by
    intro _ o ho
    simp only [Ref.listSrc, List.mem_map] at ho
    obtain ⟨v, _, rfl⟩ := ho
    intro h; cases h
  keysLen := by intro _ ks h; cases h
  getKey := by intro _ ks h; cases h

theorem dictLookup_getElem (kvs : List (String × Val)) (hn : (kvs.map (·.1)).Nodup) (j : Nat) (h : j < kvs.length) :
    dictLookup kvs (kvs[j].1) = .ok kvs[j].2 := by
  induction kvs generalizing j with
  | nil => simp at h
  | cons kv rest ih =>
    simp only [List.map_cons, List.nodup_cons, List.mem_map, not_exists, not_and] at hn
    cases j with
    | zero => simp [dictLookup, List.find?]
    | succ j =>
      simp only [List.getElem_cons_succ]
      have hj : j < rest.length := by simpa using h
      have hne : (kv.1 == rest[j].1) = false := by
        have := hn.1 rest[j] (List.getElem_mem hj)
        simp only [beq_eq_false_iff_ne, ne_eq]
        exact fun e => this e.symm
      have := ih hn.2 j hj
      simp only [dictLookup, List.find?, hne] at this ⊢
      exact this

theorem rel_dictSrc (kvs : List (String × Val)) (hn : (kvs.map (·.1)).Nodup) : Rel (dictSrc kvs) (Ref.dictSrc kvs) where
  indexable := rfl
  len := rfl
  keys := rfl
  iter := rfl
  iterK := rfl
  idx := by
    intro _
    refine ⟨by simp [Ref.dictSrc], ?_⟩
    intro i
    simp only [dictSrc, Ref.dictSrc, outAt, pyIndex_map]
    cases pyIndex kvs i <;> rfl
  noIdxErr := by
    intro _ o ho
    simp only [Ref.dictSrc, List.mem_map] at ho
    obtain ⟨v, _, rfl⟩ := ho
    intro h; cases h
  keysLen := by
    intro _ ks h
    simp only [Ref.dictSrc] at h ⊢
    injection h with h
    subst h
    simp
  getKey := by
    intro _ ks h j hj
    simp only [Ref.dictSrc] at h
    injection h with h
    subst h
    have hj' : j < kvs.length := by simpa using hj
    simp only [dictSrc, Ref.dictSrc, List.getElem_map]
    rw [dictLookup_getElem kvs hn j hj', outAt_lt _ j (by simpa using hj')]
    simp

/-! ### map -/

theorem bind_noIdx (f : Val → Res Val) (hf : ∀ v, f v ≠ .error .indexError) (o : Res Val)
    (ho : o ≠ .error .indexError) : (o >>= f) ≠ .error .indexError := by
  cases o with
  | ok v => exact hf v
  | error e => exact ho

theorem rel_map (f : Val → Res Val) (hf : ∀ v, f v ≠ .error .indexError) {d : DS} {r : RefDS}
    (h : Rel d r) : Rel (mapDS f d) (Ref.map f r) where
  indexable := h.indexable
  len := h.len
  keys := h.keys
  iter := by simp only [mapDS, Ref.map, h.iter]
  iterK := by simp only [mapDS, Ref.map, h.iterK]
  idx := by
    intro hi
    obtain ⟨hl, hg⟩ := h.idx hi
    refine ⟨by simp only [Ref.map, hl, List.length_map], ?_⟩
    intro i
    simp only [mapDS, Ref.map]
    rw [hg i, outAt_map' (· >>= f) (fun e => rfl)]
  noIdxErr := by
    intro hi o ho
    simp only [Ref.map, List.mem_map] at ho
    obtain ⟨o', ho', rfl⟩ := ho
    exact bind_noIdx f hf o' (h.noIdxErr hi o' ho')
  keysLen := by
    intro hi ks hk
    simp only [Ref.map, List.length_map] at hk ⊢
    exact h.keysLen hi ks hk
  getKey := by
    intro hi ks hk j hj
    simp only [mapDS, Ref.map] at hk ⊢
    rw [h.getKey hi ks hk j hj, outAt_map' (· >>= f) (fun e => rfl)]

/-! ### lazy filter, unbatch: nothing positional, iteration is the same list operation -/

theorem rel_filter (f : Val → Res Bool) {d : DS} {r : RefDS} (h : Rel d r) :
    Rel (filterDS f d) (Ref.filter f r) where
  indexable := rfl
  len := rfl
  keys := rfl
  iter := by simp only [filterDS, Ref.filter, h.iter]
  iterK := by simp only [filterDS, Ref.filter, h.iterK]
  idx := by intro hi; cases hi
  noIdxErr := by intro hi; cases hi
  keysLen := by intro hi; cases hi
  getKey := by intro hi; cases hi

theorem rel_unbatch {d : DS} {r : RefDS} (h : Rel d r) : Rel (unbatchDS d) (Ref.unbatch r) where
  indexable := rfl
  len := rfl
  keys := rfl
  iter := by simp only [unbatchDS, Ref.unbatch, h.iter]
  iterK := rfl
  idx := by intro hi; cases hi
  noIdxErr := by intro hi; cases hi
  keysLen := by intro hi; cases hi
  getKey := by intro hi; cases hi

end LazyDs

namespace LazyDs

/-! ### `mapM` in `Except` -/

theorem mapM_ok {α β} (f : α → Res β) : ∀ (l : List α) (out : List β), l.mapM f = .ok out →
    out.length = l.length ∧ ∀ (t : Nat) (h : t < l.length) (h' : t < out.length), f l[t] = .ok out[t]
  | [], out, h => by
    simp only [List.mapM_nil] at h
    cases h
    exact ⟨rfl, fun t h => by simp at h⟩
  | a :: l, out, h => by
    simp only [List.mapM_cons] at h
    cases hfa : f a with
    | error e => rw [hfa] at h; cases h
    | ok b =>
      rw [hfa] at h
      cases hl : l.mapM f with
      | error e => rw [hl] at h; cases h
      | ok bs =>
        rw [hl] at h
        cases h
        obtain ⟨h1, h2⟩ := mapM_ok f l bs hl
        refine ⟨by simp [h1], ?_⟩
        intro t ht ht'
        cases t with
        | zero => simpa using hfa
        | succ t => simpa using h2 t (by simpa using ht) (by simpa using ht')

/-! ### slices -/

theorem rel_slice {d : DS} {r : RefDS} (h : Rel d r) (hi : r.indexable = true) (sel : List Nat)
    (hsel : ∀ j ∈ sel, j < r.outs.length) : Rel (sliceDS sel d) (Ref.slice sel r) := by
  obtain ⟨hl, hg⟩ := h.idx hi
  have hfun : (fun (j : Nat) => d.getInt (j : Int)) = (fun (j : Nat) => outAt r.outs (j : Int)) := by
    funext j; exact hg j
  refine
    { indexable := rfl, len := rfl, keys := ?_, iter := ?_, iterK := ?_, idx := ?_, noIdxErr := ?_,
      keysLen := ?_, getKey := ?_ }
  · simp only [sliceDS, sliceKeys, Ref.slice, Ref.selectKeys, h.keys]
  · simp only [sliceDS, sliceOuts, Ref.slice, hfun]
  · simp only [sliceDS, sliceIterK, Ref.slice, Ref.selectK, h.keys]
    cases r.keys with
    | error e => rfl
    | ok ks =>
      simp only
      congr 1
      apply List.map_congr_left
      intro j _
      rw [hg j]
  · intro _
    refine ⟨by simp [Ref.slice], ?_⟩
    intro i
    simp only [sliceDS, Ref.slice, outAt, pyIndex_map]
    cases pyIndex sel i with
    | error e => rfl
    | ok j => simp only [Except.map, bind, Except.bind]; exact hg j
  · intro _ o ho
    simp only [Ref.slice, List.mem_map] at ho
    obtain ⟨j, hj, rfl⟩ := ho
    rw [outAt_lt r.outs j (hsel j hj)]
    exact h.noIdxErr hi _ (List.getElem_mem _)
  · intro _ ks hk
    simp only [Ref.slice, Ref.selectKeys, List.length_map] at hk ⊢
    cases hrk : r.keys with
    | error e => rw [hrk] at hk; cases hk
    | ok ks0 =>
      rw [hrk] at hk
      exact (mapM_ok _ sel ks hk).1
  · intro _ ks hk t ht
    simp only [Ref.slice, Ref.selectKeys] at hk
    cases hrk : r.keys with
    | error e => rw [hrk] at hk; cases hk
    | ok ks0 =>
      rw [hrk] at hk
      obtain ⟨hlen, hget⟩ := mapM_ok _ sel ks hk
      have ht' : t < sel.length := by omega
      have hks0 : ks0.length = r.outs.length := h.keysLen hi ks0 hrk
      have hlt : sel[t] < ks0.length := by rw [hks0]; exact hsel _ (List.getElem_mem _)
      have := hget t ht' ht
      rw [pyIndex_lt ks0 sel[t] hlt] at this
      injection this with this
      simp only [sliceDS, Ref.slice]
      rw [← this, h.getKey hi ks0 hrk sel[t] hlt]
      rw [outAt_lt _ t (by simpa using ht')]
      simp

end LazyDs

import LazyDs.Lemmas.Rel
/-
  `BatchDataset` refines `Ref.batch`.

  * list laws for the generator loop `chunkAux` and the eager chunking `Ref.chunks`
    (`chunkAux_flatten`, `chunkAux_lengths`, `chunkAux_eq_chunks`, `chunkAux_dropLast`);
  * a closed form for `Ref.chunks` (`chunks_getElem?`, `chunks_length`, `chunks_filter_full`);
  * what the index walk `batchCollect` computes (`batchCollect_eq`, `batchCollect_overrun`);
  * the refinement `rel_batch_partial`, its unconditional corollaries `rel_batch_keep`
    (`drop_last = False`) and `rel_batch_allOk`, the exact criterion `rel_batch_iff`, and the
    counterexample `rel_batch_counterexample` to the unconditional statement for `drop_last = True`.

  WHY `rel_batch` IS FALSE FOR `dropLast = true`.
  `BatchDataset.__getitem__(k)` with `drop_last` does not look at `len`; it probes
  `input[k*bs], input[k*bs+1], …` and re-raises whatever the first failing probe raises.
  For `k = n / bs` (the first index past the end) the probes walk through the dropped tail
  `input[(n/bs)*bs :]` before they run off the input.  If an example in that tail raises, say,
  `ValueError`, then `ds[len(ds)]` raises `ValueError`, whereas list indexing of the eager
  reference (`Ref.batch … |>.outs`, which does not contain the dropped tail) raises `IndexError`.
  The refinement holds exactly when no outcome in the dropped tail is a failure.
-/
namespace LazyDs

/-! ### the generator loop: `chunkAux` -/

theorem chunkAux_flatten_gen {α} (bs : Nat) : ∀ (l cur : List α),
    (chunkAux bs false l cur).flatten = cur.reverse ++ l
  | [], cur => by
    cases cur <;> simp [chunkAux]
  | x :: xs, cur => by
    unfold chunkAux
    simp only [List.length_cons, ge_iff_le]
    split
    · simp [chunkAux_flatten_gen bs xs []]
    · simp [chunkAux_flatten_gen bs xs (x :: cur)]

/-- batch then unbatch is the identity (the list law) -/
theorem chunkAux_flatten {α} {bs : Nat} (_hbs : 1 ≤ bs) (l : List α) :
    (chunkAux bs false l []).flatten = l := by
  simpa using chunkAux_flatten_gen bs l []

theorem chunkAux_lengths_gen {α} {bs : Nat} (dl : Bool) : ∀ (l cur : List α), cur.length < bs →
    ∀ c ∈ chunkAux bs dl l cur, 1 ≤ c.length ∧ c.length ≤ bs
  | [], cur, hc, c, hm => by
    unfold chunkAux at hm
    split at hm
    · rename_i h
      simp only [List.mem_singleton] at hm
      subst hm
      simp only [gt_iff_lt, Bool.and_eq_true, decide_eq_true_eq] at h
      simp only [List.length_reverse]
      omega
    · simp at hm
  | x :: xs, cur, hc, c, hm => by
    unfold chunkAux at hm
    simp only [List.length_cons, ge_iff_le] at hm
    split at hm
    · rename_i h
      rcases List.mem_cons.mp hm with rfl | hm
      · simp only [List.length_reverse, List.length_cons]; omega
      · exact chunkAux_lengths_gen dl xs [] (by simp only [List.length_nil]; omega) c hm
    · rename_i h
      exact chunkAux_lengths_gen dl xs (x :: cur) (by simp only [List.length_cons]; omega) c hm

/-- every yielded batch is non-empty and has at most `bs` elements -/
theorem chunkAux_lengths {α} {bs : Nat} {dl : Bool} (hbs : 1 ≤ bs) (l : List α) :
    ∀ c ∈ chunkAux bs dl l [], 1 ≤ c.length ∧ c.length ≤ bs :=
  chunkAux_lengths_gen dl l [] (by simp only [List.length_nil]; omega)

/-! ### the eager chunking: `Ref.chunks` -/

theorem chunks_nil {α} (bs fuel : Nat) : Ref.chunks bs ([] : List α) fuel = [] := by
  cases fuel <;> simp [Ref.chunks]

/-- closed form: the `k`-th chunk is `l[k*bs : (k+1)*bs]`, and there is one exactly when `k*bs < |l|` -/
theorem chunks_getElem? {α} {bs : Nat} (hbs : 1 ≤ bs) : ∀ (fuel : Nat) (l : List α), l.length < fuel →
    ∀ k, (Ref.chunks bs l fuel)[k]? =
      if k * bs < l.length then some ((l.drop (k * bs)).take bs) else none
  | 0, l, h, k => by omega
  | fuel + 1, [], _, k => by simp [Ref.chunks]
  | fuel + 1, a :: l, h, k => by
    simp only [Ref.chunks, List.isEmpty_cons, Bool.false_eq_true, if_false]
    cases k with
    | zero => simp
    | succ k =>
      have hlen : ((a :: l).drop bs).length < fuel := by
        simp only [List.length_drop, List.length_cons] at h ⊢; omega
      rw [List.getElem?_cons_succ, chunks_getElem? hbs fuel _ hlen k, List.drop_drop,
        List.length_drop, Nat.succ_mul]
      have e1 : bs + k * bs = k * bs + bs := Nat.add_comm _ _
      rw [e1]
      simp only [List.length_cons]
      by_cases hk : k * bs + bs < l.length + 1
      · have : k * bs < l.length + 1 - bs := by omega
        simp only [hk, this, if_true]
      · have : ¬ (k * bs < l.length + 1 - bs) := by omega
        simp only [hk, this, if_false]

/-- the number of chunks `N` is characterised by `|l| ≤ N * bs < |l| + bs` -/
theorem chunks_length_bounds {α} {bs : Nat} (hbs : 1 ≤ bs) (fuel : Nat) (l : List α) (h : l.length < fuel) :
    l.length ≤ (Ref.chunks bs l fuel).length * bs ∧ (Ref.chunks bs l fuel).length * bs < l.length + bs := by
  have hg := chunks_getElem? hbs fuel l h
  constructor
  · have h1 := hg (Ref.chunks bs l fuel).length
    rw [List.getElem?_eq_none (Nat.le_refl _)] at h1
    split at h1
    · cases h1
    · omega
  · cases hN : (Ref.chunks bs l fuel).length with
    | zero => omega
    | succ m =>
      have h1 := hg m
      have hm : m < (Ref.chunks bs l fuel).length := by omega
      rw [List.getElem?_eq_getElem hm] at h1
      split at h1
      · rw [Nat.succ_mul]; omega
      · cases h1

/-- `⌈|l| / bs⌉` chunks -/
theorem chunks_length {α} {bs : Nat} (hbs : 1 ≤ bs) (fuel : Nat) (l : List α) (h : l.length < fuel) :
    (Ref.chunks bs l fuel).length = (l.length + bs - 1) / bs := by
  obtain ⟨h1, h2⟩ := chunks_length_bounds hbs fuel l h
  symm
  apply Nat.div_eq_of_lt_le
  · omega
  · rw [Nat.succ_mul]; omega

/-- all chunks but possibly the last have length `bs`, the last one is non-empty -/
theorem chunks_elem_length {α} {bs : Nat} (hbs : 1 ≤ bs) (fuel : Nat) (l : List α) (h : l.length < fuel)
    (k : Nat) (c : List α) (hc : (Ref.chunks bs l fuel)[k]? = some c) :
    c.length = min bs (l.length - k * bs) ∧ 1 ≤ c.length := by
  rw [chunks_getElem? hbs fuel l h k] at hc
  split at hc
  · injection hc with hc
    subst hc
    simp only [List.length_take, List.length_drop]
    exact ⟨trivial, by omega⟩
  · cases hc

/-- keeping the full chunks = keeping the first `⌊|l| / bs⌋` chunks -/
theorem chunks_filter_full {α} {bs : Nat} (hbs : 1 ≤ bs) : ∀ (fuel : Nat) (l : List α), l.length < fuel →
    (Ref.chunks bs l fuel).filter (·.length == bs) = (Ref.chunks bs l fuel).take (l.length / bs)
  | 0, l, h => by omega
  | fuel + 1, [], _ => by simp [Ref.chunks]
  | fuel + 1, a :: l, h => by
    simp only [Ref.chunks, List.isEmpty_cons, Bool.false_eq_true, if_false]
    by_cases hfull : bs ≤ (a :: l).length
    · have hlen : ((a :: l).drop bs).length < fuel := by
        simp only [List.length_drop, List.length_cons] at h ⊢; omega
      have hdiv : (a :: l).length / bs = ((a :: l).length - bs) / bs + 1 :=
        Nat.div_eq_sub_div (by omega) hfull
      have htake : ((a :: l).take bs).length = bs := by
        simp only [List.length_take]; omega
      rw [hdiv, List.take_succ_cons]
      simp only [List.filter_cons, htake, beq_self_eq_true, if_true]
      rw [chunks_filter_full hbs fuel _ hlen, List.length_drop]
    · have hlt : (a :: l).length < bs := by omega
      have hdiv : (a :: l).length / bs = 0 := Nat.div_eq_of_lt hlt
      have hdrop : (a :: l).drop bs = [] := List.drop_eq_nil_of_le (by omega)
      have htake : (((a :: l).take bs).length == bs) = false := by
        simp only [List.length_take, beq_eq_false_iff_ne, ne_eq]; omega
      rw [hdiv, hdrop, chunks_nil]
      simp only [List.filter_cons, htake, Bool.false_eq_true, if_false, List.filter_nil, List.take_zero]

/-! ### the generator loop and the eager chunking agree -/

theorem chunkAux_eq_chunks_gen {α} {bs : Nat} : ∀ (l cur : List α) (fuel : Nat), cur.length < bs →
    l.length + 1 ≤ fuel → chunkAux bs false l cur = Ref.chunks bs (cur.reverse ++ l) fuel
  | [], cur, fuel, hc, hf => by
    obtain ⟨fuel, rfl⟩ : ∃ f, fuel = f + 1 := ⟨fuel - 1, by simp only [List.length_nil] at hf; omega⟩
    cases cur with
    | nil => simp [chunkAux, Ref.chunks]
    | cons c cs =>
      have hlen : (cs.reverse ++ [c]).length ≤ bs := by
        simp only [List.length_append, List.length_reverse, List.length_cons, List.length_nil] at hc ⊢
        omega
      simp only [chunkAux, Ref.chunks, List.length_cons, List.reverse_cons, List.append_nil]
      simp [List.take_of_length_le hlen, List.drop_eq_nil_of_le hlen, chunks_nil]
  | x :: xs, cur, fuel, hc, hf => by
    obtain ⟨fuel, rfl⟩ : ∃ f, fuel = f + 1 := ⟨fuel - 1, by simp only [List.length_cons] at hf; omega⟩
    have hf' : xs.length + 1 ≤ fuel := by simp only [List.length_cons] at hf; omega
    unfold chunkAux
    simp only [List.length_cons, ge_iff_le]
    split
    · rename_i h
      have hlen : (cur.reverse ++ [x]).length = bs := by
        simp only [List.length_append, List.length_reverse, List.length_cons, List.length_nil]; omega
      have hsplit : cur.reverse ++ x :: xs = (cur.reverse ++ [x]) ++ xs := by simp
      have hne : (cur.reverse ++ x :: xs).isEmpty = false := by
        cases hr : cur.reverse <;> simp
      rw [Ref.chunks, hne]
      simp only [Bool.false_eq_true, if_false]
      rw [hsplit, List.take_left' hlen, List.drop_left' hlen, List.reverse_cons]
      congr 1
      simpa using chunkAux_eq_chunks_gen xs [] fuel (by simp only [List.length_nil]; omega) hf'
    · rename_i h
      have := chunkAux_eq_chunks_gen (bs := bs) xs (x :: cur) (fuel + 1) (by simp only [List.length_cons]; omega)
        (Nat.le_succ_of_le hf')
      rw [this]
      simp

/-- `BatchDataset.__iter__` yields the eager chunks `[l[0:bs], l[bs:2bs], …]` -/
theorem chunkAux_eq_chunks {α} {bs : Nat} (hbs : 1 ≤ bs) (l : List α) :
    chunkAux bs false l [] = Ref.chunks bs l (l.length + 1) := by
  simpa using chunkAux_eq_chunks_gen l [] (l.length + 1) (by simp only [List.length_nil]; omega)
    (Nat.le_refl _)

/-- with `drop_last` the loop only omits the trailing partial batch -/
theorem chunkAux_true_eq {α} {bs : Nat} : ∀ (l cur : List α), cur.length < bs →
    chunkAux bs true l cur = (chunkAux bs false l cur).filter (·.length == bs)
  | [], cur, hc => by
    cases cur with
    | nil => simp [chunkAux]
    | cons c cs =>
      have : (cs.length + 1 == bs) = false := by
        simp only [List.length_cons] at hc
        simp only [beq_eq_false_iff_ne, ne_eq]; omega
      simp [chunkAux, this]
  | x :: xs, cur, hc => by
    unfold chunkAux
    simp only [List.length_cons, ge_iff_le]
    split
    · rename_i h
      have hl : (cur.length + 1 == bs) = true := by
        simp only [beq_iff_eq]; omega
      rw [List.filter_cons]
      simp only [List.length_reverse, List.length_cons, hl, if_true]
      rw [chunkAux_true_eq xs [] (by simp only [List.length_nil]; omega)]
    · rename_i h
      exact chunkAux_true_eq xs (x :: cur) (by simp only [List.length_cons]; omega)

theorem chunkAux_dropLast {α} {bs : Nat} (hbs : 1 ≤ bs) (l : List α) :
    chunkAux bs true l [] = (Ref.chunks bs l (l.length + 1)).filter (·.length == bs) := by
  rw [chunkAux_true_eq l [] (by simp only [List.length_nil]; omega), chunkAux_eq_chunks hbs]

/-! ### `List.mapM id` on outcomes, `chunkOut` -/

theorem mapM_id_error : ∀ (c : List (Res Val)) (e : Err), c.mapM id = .error e → .error e ∈ c
  | [], e, h => by simp only [List.mapM_nil] at h; cases h
  | o :: c, e, h => by
    simp only [List.mapM_cons, id] at h
    cases o with
    | error e' =>
      have : e' = e := by injection h
      subst this
      exact List.mem_cons_self
    | ok v =>
      cases hc : c.mapM id with
      | error e' =>
        rw [hc] at h
        have : e' = e := by injection h
        subst this
        exact List.mem_cons_of_mem _ (mapM_id_error c e' hc)
      | ok vs => rw [hc] at h; cases h

theorem mapM_id_ok : ∀ (c : List (Res Val)) (vs : List Val), c.mapM id = .ok vs → ∀ o ∈ c, ∃ v, o = .ok v
  | [], _, _, o, ho => by cases ho
  | o' :: c, vs, h, o, ho => by
    simp only [List.mapM_cons, id] at h
    cases o' with
    | error e' => cases h
    | ok v =>
      cases hc : c.mapM id with
      | error e' => rw [hc] at h; cases h
      | ok vs' =>
        rcases List.mem_cons.mp ho with rfl | ho
        · exact ⟨v, rfl⟩
        · exact mapM_id_ok c vs' hc o ho

theorem mapM_id_allOk : ∀ (c : List (Res Val)), (∀ o ∈ c, ∃ v, o = .ok v) → ∃ vs, c.mapM id = .ok vs
  | [], _ => ⟨[], by simp only [List.mapM_nil]; rfl⟩
  | o :: c, h => by
    obtain ⟨v, rfl⟩ := h o List.mem_cons_self
    obtain ⟨vs, hvs⟩ := mapM_id_allOk c (fun o ho => h o (List.mem_cons_of_mem _ ho))
    exact ⟨v :: vs, by simp only [List.mapM_cons, id, hvs]; rfl⟩

/-- a failing chunk fails with one of its members' failures -/
theorem chunkOut_error (c : List (Res Val)) (e : Err) (h : Ref.chunkOut c = .error e) : .error e ∈ c := by
  unfold Ref.chunkOut at h
  cases hc : c.mapM id with
  | error e' =>
    rw [hc] at h
    have : e' = e := by injection h
    subst this
    exact mapM_id_error c e' hc
  | ok vs => rw [hc] at h; cases h

theorem outAt_nat (l : List (Res Val)) (j : Nat) :
    outAt l (j : Int) = match l[j]? with | some o => o | none => .error .indexError := by
  unfold outAt
  rw [pyIndex_nat]
  cases l[j]? <;> rfl

/-! ### the outcome list of `Ref.batch` in closed form -/

theorem batch_outs_keep {bs : Nat} (hbs : 1 ≤ bs) (r : RefDS) (k : Nat) :
    (Ref.batch bs false r).outs[k]? =
      if k * bs < r.outs.length then some (Ref.chunkOut ((r.outs.drop (k * bs)).take bs)) else none := by
  simp only [Ref.batch, Bool.false_eq_true, if_false, List.getElem?_map]
  rw [chunks_getElem? hbs _ _ (Nat.lt_add_one _) k]
  split <;> rfl

theorem batch_outs_drop {bs : Nat} (hbs : 1 ≤ bs) (r : RefDS) (k : Nat) :
    (Ref.batch bs true r).outs[k]? =
      if (k + 1) * bs ≤ r.outs.length then some (Ref.chunkOut ((r.outs.drop (k * bs)).take bs)) else none := by
  simp only [Ref.batch, if_true, List.getElem?_map]
  rw [chunks_filter_full hbs _ _ (Nat.lt_add_one _), List.getElem?_take,
    chunks_getElem? hbs _ _ (Nat.lt_add_one _) k]
  have hiff : k < r.outs.length / bs ↔ (k + 1) * bs ≤ r.outs.length :=
    Nat.le_div_iff_mul_le (by omega)
  rw [Nat.succ_mul] at hiff
  rw [Nat.succ_mul]
  by_cases hk : k * bs + bs ≤ r.outs.length
  · have h1 : k * bs < r.outs.length := by omega
    simp only [hiff.mpr hk, hk, h1, if_true, Option.map_some]
  · have h1 : ¬ (k < r.outs.length / bs) := fun h => hk (hiff.mp h)
    simp only [h1, hk, if_false, Option.map_none]

theorem batch_outs_length {bs : Nat} (hbs : 1 ≤ bs) (dl : Bool) (r : RefDS) :
    (Ref.batch bs dl r).outs.length =
      if dl then r.outs.length / bs else (r.outs.length + bs - 1) / bs := by
  cases dl with
  | false =>
    simp only [Ref.batch, Bool.false_eq_true, if_false, List.length_map]
    exact chunks_length hbs _ _ (Nat.lt_add_one _)
  | true =>
    simp only [Ref.batch, if_true, List.length_map]
    rw [chunks_filter_full hbs _ _ (Nat.lt_add_one _), List.length_take]
    have h1 := (chunks_length_bounds hbs _ r.outs (Nat.lt_add_one _)).1
    have : r.outs.length / bs ≤ (Ref.chunks bs r.outs (r.outs.length + 1)).length :=
      Nat.div_le_of_le_mul (by rw [Nat.mul_comm]; exact h1)
    omega

/-- `len` of the reference batch dataset is the number of its outcomes -/
theorem batch_len_eq {bs : Nat} (hbs : 1 ≤ bs) (dl : Bool) (r : RefDS) (hl : r.len = .ok r.outs.length) :
    (Ref.batch bs dl r).len = .ok (Ref.batch bs dl r).outs.length := by
  rw [batch_outs_length hbs]
  have hb : (bs == 0) = false := by simp only [beq_eq_false_iff_ne, ne_eq]; omega
  simp only [Ref.batch, hl, bind, Except.bind, hb, Bool.false_eq_true, if_false]
  cases dl <;> rfl

/-! ### the index walk `batchCollect` -/

section walk
variable {d : DS} {L : List (Res Val)}

/-- a probe past the end that may not be skipped (`t == 0 or drop_last`) raises `IndexError` -/
theorem batchCollect_oob (hg : ∀ i, d.getInt i = outAt L i) (dl : Bool) (b fuel t : Nat)
    (hge : L.length ≤ b + t) (hraise : t = 0 ∨ dl = true) :
    batchCollect d dl (b : Int) (fuel + 1) t = .error .indexError := by
  have hcast : (b : Int) + (t : Int) = ((b + t : Nat) : Int) := (Int.natCast_add b t).symm
  unfold batchCollect
  rw [hcast, hg, outAt_ge L _ (by omega)]
  rcases hraise with rfl | rfl <;> simp

/-- The walk computes the chunk `L[b+t : b+t+fuel]` (as `List.mapM id`: the values, or the first
    failure) provided every probe that runs past the end is one that is skipped
    (`t ≠ 0` and not `drop_last`). -/
theorem batchCollect_eq (hg : ∀ i, d.getInt i = outAt L i) (hno : ∀ o ∈ L, o ≠ .error .indexError)
    (dl : Bool) (b : Nat) : ∀ (fuel t : Nat),
    (∀ s, t ≤ s → s < t + fuel → L.length ≤ b + s → s ≠ 0 ∧ dl = false) →
    batchCollect d dl (b : Int) fuel t = ((L.drop (b + t)).take fuel).mapM id
  | 0, t, _ => by simp only [batchCollect, List.take_zero, List.mapM_nil]; rfl
  | fuel + 1, t, H => by
    have ih := batchCollect_eq hg hno dl b fuel (t + 1)
      (fun s h1 h2 h3 => H s (by omega) (by omega) h3)
    have hcast : (b : Int) + (t : Int) = ((b + t : Nat) : Int) := (Int.natCast_add b t).symm
    unfold batchCollect
    rw [hcast, hg, ih, ← Nat.add_assoc]
    by_cases hlt : b + t < L.length
    · rw [outAt_lt L _ hlt, List.drop_eq_getElem_cons hlt, List.take_succ_cons, List.mapM_cons]
      have hne := hno _ (List.getElem_mem hlt)
      cases ho : L[b + t] with
      | ok v => rfl
      | error e =>
        have hne' : (e == Err.indexError) = false := by
          simp only [beq_eq_false_iff_ne, ne_eq]
          intro he; subst he; exact hne ho
        simp only [hne', Bool.false_eq_true, if_false, id]
        rfl
    · obtain ⟨ht, hd⟩ := H t (Nat.le_refl _) (by omega) (by omega)
      subst hd
      have ht0 : (t == 0) = false := by simp only [beq_eq_false_iff_ne, ne_eq]; exact ht
      rw [outAt_ge L _ (by omega), List.drop_eq_nil_of_le (by omega : L.length ≤ b + t),
        List.drop_eq_nil_of_le (by omega : L.length ≤ b + t + 1)]
      simp [ht0]

/-- With `drop_last`, a walk that runs past the end raises the first failure among the remaining
    outcomes `L[b+t:]`, and `IndexError` if there is none. -/
theorem batchCollect_overrun (hg : ∀ i, d.getInt i = outAt L i) (hno : ∀ o ∈ L, o ≠ .error .indexError)
    (b : Nat) : ∀ (fuel t : Nat), L.length ≤ b + t + fuel →
    batchCollect d true (b : Int) (fuel + 1) t =
      ((L.drop (b + t)).mapM id >>= fun _ => (.error .indexError : Res (List Val)))
  | fuel, t, H => by
    by_cases hlt : b + t < L.length
    · obtain ⟨fuel, rfl⟩ : ∃ f, fuel = f + 1 := ⟨fuel - 1, by omega⟩
      have ih := batchCollect_overrun hg hno b fuel (t + 1) (by omega)
      have hcast : (b : Int) + (t : Int) = ((b + t : Nat) : Int) := (Int.natCast_add b t).symm
      unfold batchCollect
      rw [hcast, hg, ih, ← Nat.add_assoc, outAt_lt L _ hlt, List.drop_eq_getElem_cons hlt,
        List.mapM_cons]
      have hne := hno _ (List.getElem_mem hlt)
      cases ho : L[b + t] with
      | ok v =>
        simp only [id]
        cases (L.drop (b + t + 1)).mapM id <;> rfl
      | error e =>
        have hne' : (e == Err.indexError) = false := by
          simp only [beq_eq_false_iff_ne, ne_eq]
          intro he; subst he; exact hne ho
        simp only [hne', Bool.false_eq_true, if_false, id]
        rfl
    · rw [batchCollect_oob hg true b fuel t (by omega) (Or.inr rfl),
        List.drop_eq_nil_of_le (by omega : L.length ≤ b + t)]
      rfl

end walk

/-! ### integer indexing of `batchDS` from its behaviour on natural numbers -/

theorem batch_getInt_of_core {d : DS} {bs : Nat} {dl : Bool} {outs : List (Res Val)}
    (hlen : batchLen bs dl d = .ok outs.length)
    (core : ∀ k : Nat, (do let l ← batchCollect d dl ((k : Int) * bs) bs 0; (.ok (.list l) : Res Val))
      = outAt outs (k : Int)) :
    ∀ i, (batchDS bs dl d).getInt i = outAt outs i := by
  intro i
  simp only [batchDS]
  by_cases hi : i < 0
  · simp only [hi, if_true, hlen, bind, Except.bind]
    by_cases hj : i + (outs.length : Int) < 0
    · simp only [hj, if_true]
      rw [outAt_lt_neg outs i (by omega)]
    · simp only [hj, if_false]
      obtain ⟨k, hk⟩ : ∃ k : Nat, i + (outs.length : Int) = (k : Int) :=
        ⟨(i + (outs.length : Int)).toNat, by omega⟩
      have hi' : i = (k : Int) - (outs.length : Int) := by omega
      have := core k
      simp only [bind, Except.bind] at this
      rw [hk, this, hi', outAt_wrap outs (k : Int) (by omega) (by omega)]
  · simp only [hi, if_false]
    obtain ⟨k, rfl⟩ : ∃ k : Nat, i = (k : Int) := ⟨i.toNat, by omega⟩
    exact core k

/-! ### the refinement -/

/-- no failure in the part of the input that `drop_last` drops -/
def TailOk (bs : Nat) (outs : List (Res Val)) : Prop :=
  ∀ o ∈ outs.drop (outs.length / bs * bs), ∃ v, o = .ok v

theorem batch_core {d : DS} {r : RefDS} {bs : Nat} (hbs : 1 ≤ bs) (dl : Bool)
    (hg : ∀ i, d.getInt i = outAt r.outs i) (hno : ∀ o ∈ r.outs, o ≠ .error .indexError)
    (htail : dl = true → TailOk bs r.outs) (k : Nat) :
    (do let l ← batchCollect d dl ((k : Int) * bs) bs 0; (.ok (.list l) : Res Val))
      = outAt (Ref.batch bs dl r).outs (k : Int) := by
  obtain ⟨fuel, rfl⟩ : ∃ f, bs = f + 1 := ⟨bs - 1, by omega⟩
  rw [← Int.natCast_mul, outAt_nat]
  cases dl with
  | false =>
    rw [batch_outs_keep hbs]
    by_cases hk : k * (fuel + 1) < r.outs.length
    · simp only [hk, if_true]
      rw [batchCollect_eq hg hno false (k * (fuel + 1)) (fuel + 1) 0
        (fun s _ _ h3 => ⟨by omega, rfl⟩)]
      rfl
    · simp only [hk, if_false]
      rw [batchCollect_oob hg false _ fuel 0 (by omega) (Or.inl rfl)]
      rfl
  | true =>
    rw [batch_outs_drop hbs]
    by_cases hk : (k + 1) * (fuel + 1) ≤ r.outs.length
    · simp only [hk, if_true]
      rw [Nat.succ_mul] at hk
      rw [batchCollect_eq hg hno true (k * (fuel + 1)) (fuel + 1) 0
        (fun s _ h2 h3 => by omega)]
      rfl
    · simp only [hk, if_false]
      rw [Nat.succ_mul] at hk
      rw [batchCollect_overrun hg hno _ fuel 0 (by omega)]
      -- the remaining outcomes are a suffix of the dropped tail: no failure among them
      have hq : r.outs.length / (fuel + 1) ≤ k := by
        apply Nat.le_of_lt_succ
        apply (Nat.div_lt_iff_lt_mul (by omega)).mpr
        rw [Nat.succ_mul]; omega
      have hqk : r.outs.length / (fuel + 1) * (fuel + 1) ≤ k * (fuel + 1) :=
        Nat.mul_le_mul_right _ hq
      have hsuf : r.outs.drop (k * (fuel + 1) + 0) =
          (r.outs.drop (r.outs.length / (fuel + 1) * (fuel + 1))).drop
            (k * (fuel + 1) - r.outs.length / (fuel + 1) * (fuel + 1)) := by
        rw [List.drop_drop]; congr 1; omega
      obtain ⟨vs, hvs⟩ := mapM_id_allOk (r.outs.drop (k * (fuel + 1) + 0)) (by
        intro o ho
        rw [hsuf] at ho
        exact htail rfl o (List.mem_of_mem_drop ho))
      rw [hvs]
      rfl

/-- **The refinement of `BatchDataset`**, in its strongest true form: with `drop_last` the part of the
    input that is dropped must not contain a failing example (see `rel_batch_iff` for the converse and
    `rel_batch_counterexample` for what goes wrong otherwise). -/
theorem rel_batch_partial {d : DS} {r : RefDS} {bs : Nat} {dropLast : Bool} (h : Rel d r) (hbs : 1 ≤ bs)
    (htail : r.indexable = true → dropLast = true → TailOk bs r.outs) :
    Rel (batchDS bs dropLast d) (Ref.batch bs dropLast r) where
  indexable := h.indexable
  len := by simp only [batchDS, batchLen, Ref.batch, h.len]
  keys := rfl
  iter := by simp only [batchDS, Ref.batch, h.iter]
  iterK := rfl
  idx := by
    intro hi
    have hi' : r.indexable = true := hi
    obtain ⟨hl, hg⟩ := h.idx hi'
    have hlen := batch_len_eq hbs dropLast r hl
    refine ⟨hlen, ?_⟩
    apply batch_getInt_of_core
    · rw [← hlen]; simp only [batchLen, Ref.batch, h.len]
    · exact batch_core hbs dropLast hg (h.noIdxErr hi') (htail hi')
  noIdxErr := by
    intro hi o ho
    have hi' : r.indexable = true := hi
    have hno := h.noIdxErr hi'
    obtain ⟨k, hk⟩ := List.getElem?_of_mem ho
    intro hoe
    subst hoe
    have hmem : ∀ c : List (Res Val), (∀ x ∈ c, x ∈ r.outs) →
        Ref.chunkOut c ≠ .error .indexError := fun c hc hce =>
      hno _ (hc _ (chunkOut_error c _ hce)) rfl
    have hsub : ∀ x ∈ (r.outs.drop (k * bs)).take bs, x ∈ r.outs := fun x hx =>
      List.mem_of_mem_drop (List.mem_of_mem_take hx)
    cases dropLast with
    | false =>
      rw [batch_outs_keep hbs] at hk
      split at hk
      · injection hk with hk; exact hmem _ hsub hk
      · cases hk
    | true =>
      rw [batch_outs_drop hbs] at hk
      split at hk
      · injection hk with hk; exact hmem _ hsub hk
      · cases hk
  keysLen := by intro _ ks hk; cases hk
  getKey := by intro _ ks hk; cases hk

/-- `drop_last = False`: the refinement holds unconditionally -/
theorem rel_batch_keep {d : DS} {r : RefDS} {bs : Nat} (h : Rel d r) (hbs : 1 ≤ bs) :
    Rel (batchDS bs false d) (Ref.batch bs false r) :=
  rel_batch_partial h hbs (fun _ hdl => by cases hdl)

/-- no failing example at all (e.g. total user functions): the refinement holds for either `drop_last` -/
theorem rel_batch_allOk {d : DS} {r : RefDS} {bs : Nat} {dropLast : Bool} (h : Rel d r) (hbs : 1 ≤ bs)
    (hok : ∀ o ∈ r.outs, ∃ v, o = .ok v) : Rel (batchDS bs dropLast d) (Ref.batch bs dropLast r) :=
  rel_batch_partial h hbs (fun _ _ o ho => hok o (List.mem_of_mem_drop ho))

/-- the input length is a multiple of the batch size (nothing is dropped): unconditional as well -/
theorem rel_batch_dvd {d : DS} {r : RefDS} {bs : Nat} {dropLast : Bool} (h : Rel d r) (hbs : 1 ≤ bs)
    (hdvd : r.outs.length % bs = 0) : Rel (batchDS bs dropLast d) (Ref.batch bs dropLast r) :=
  rel_batch_partial h hbs (fun _ _ o ho => by
    have h1 := Nat.div_add_mod r.outs.length bs
    rw [hdvd, Nat.add_zero, Nat.mul_comm] at h1
    rw [h1, List.drop_eq_nil_of_le (Nat.le_refl _)] at ho
    cases ho)

/-- The side condition of `rel_batch_partial` is necessary: the refinement holds **iff** the dropped
    tail contains no failure. -/
theorem rel_batch_iff {d : DS} {r : RefDS} {bs : Nat} {dropLast : Bool} (h : Rel d r) (hbs : 1 ≤ bs) :
    Rel (batchDS bs dropLast d) (Ref.batch bs dropLast r) ↔
      (r.indexable = true → dropLast = true → TailOk bs r.outs) := by
  refine ⟨?_, rel_batch_partial h hbs⟩
  intro H hi hdl
  subst hdl
  obtain ⟨hl, hg⟩ := h.idx hi
  have hno := h.noIdxErr hi
  have hq := (H.idx hi).2 ((r.outs.length / bs : Nat) : Int)
  have hout : (Ref.batch bs true r).outs.length = r.outs.length / bs := by
    rw [batch_outs_length hbs]; rfl
  rw [outAt_ge _ _ (by omega)] at hq
  obtain ⟨fuel, rfl⟩ : ∃ f, bs = f + 1 := ⟨bs - 1, by omega⟩
  have hnn : ¬ (((r.outs.length / (fuel + 1) : Nat) : Int) < 0) := by omega
  simp only [batchDS, hnn, if_false] at hq
  have hov : r.outs.length ≤ r.outs.length / (fuel + 1) * (fuel + 1) + 0 + fuel := by
    have := Nat.lt_div_mul_add (a := r.outs.length) (b := fuel + 1) (by omega)
    omega
  rw [← Int.natCast_mul, batchCollect_overrun hg hno _ fuel 0 hov, Nat.add_zero] at hq
  cases hm : (r.outs.drop (r.outs.length / (fuel + 1) * (fuel + 1))).mapM id with
  | ok vs => exact mapM_id_ok _ vs hm
  | error e =>
    rw [hm] at hq
    have he : e = .indexError := by
      simp only [bind, Except.bind] at hq
      injection hq
    subst he
    exact absurd rfl (hno _ (List.mem_of_mem_drop (mapM_id_error _ _ hm)))

/-! ### the counterexample to the unconditional statement -/

/-- a user function that fails (not with `IndexError`) on the example `3` -/
def failOn3 : Val → Res Val
  | .int 3 => .error .valueError
  | v => .ok v

theorem failOn3_noIdx (v : Val) : failOn3 v ≠ .error .indexError := by
  unfold failOn3
  split <;> intro h <;> cases h

/-- `new([1,2,3]).map(f).batch(2, drop_last=True)` with `f(3)` raising `ValueError`:
    the input refines its reference, `bs ≥ 1`, but the batched datasets are not related, because
    `ds[1]` raises `ValueError` (the probe of `input[2]`) while the reference `[[1,2]][1]` raises
    `IndexError`. -/
theorem rel_batch_counterexample :
    ∃ (d : DS) (r : RefDS) (bs : Nat) (dropLast : Bool),
      Rel d r ∧ 1 ≤ bs ∧ ¬ Rel (batchDS bs dropLast d) (Ref.batch bs dropLast r) := by
  refine ⟨mapDS failOn3 (listSrc [.int 1, .int 2, .int 3]),
    Ref.map failOn3 (Ref.listSrc [.int 1, .int 2, .int 3]), 2, true,
    rel_map failOn3 failOn3_noIdx (rel_listSrc _), by omega, ?_⟩
  intro H
  have h1 := (H.idx rfl).2 1
  have h2 : (batchDS 2 true (mapDS failOn3 (listSrc [.int 1, .int 2, .int 3]))).getInt 1
      = .error .valueError := by rfl
  have h3 : outAt (Ref.batch 2 true (Ref.map failOn3 (Ref.listSrc [.int 1, .int 2, .int 3]))).outs 1
      = .error .indexError := by rfl
  rw [h2, h3] at h1
  cases h1

end LazyDs

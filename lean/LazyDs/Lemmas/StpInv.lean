/-
  Invariant, measures and helper lemmas for the `single_thread_prefetch` transition system
  of `LazyDs.Conc.Stp`.  Core Lean only.
-/
import LazyDs.Conc.Stp

namespace LazyDs.Stp

variable {α ε : Type}

/-! ## Queue helpers -/

/-- the non-sentinel entries of the queue, in order -/
def items : List (QItem α) → List α
  | [] => []
  | .item x :: r => x :: items r
  | .sentinel :: r => items r

/-- the queue contains the sentinel -/
def hasS : List (QItem α) → Bool
  | [] => false
  | .item _ :: r => hasS r
  | .sentinel :: _ => true

/-- the sentinel occurs at most once, and only as the last entry -/
def okQ : List (QItem α) → Bool
  | [] => true
  | .item _ :: r => okQ r
  | .sentinel :: r => r.isEmpty

@[simp] theorem items_nil : items ([] : List (QItem α)) = [] := rfl
@[simp] theorem items_cons_item (x : α) (r) : items (.item x :: r) = x :: items r := rfl
@[simp] theorem items_cons_sentinel (r : List (QItem α)) : items (.sentinel :: r) = items r := rfl
@[simp] theorem hasS_nil : hasS ([] : List (QItem α)) = false := rfl
@[simp] theorem hasS_cons_item (x : α) (r) : hasS (.item x :: r) = hasS r := rfl
@[simp] theorem hasS_cons_sentinel (r : List (QItem α)) : hasS (.sentinel :: r) = true := rfl
@[simp] theorem okQ_nil : okQ ([] : List (QItem α)) = true := rfl
@[simp] theorem okQ_cons_item (x : α) (r) : okQ (.item x :: r) = okQ r := rfl
@[simp] theorem okQ_cons_sentinel (r : List (QItem α)) : (okQ (.sentinel :: r) = true) ↔ r = [] := by
  simp [okQ]

@[simp] theorem items_append_item (q : List (QItem α)) (x : α) :
    items (q ++ [.item x]) = items q ++ [x] := by
  induction q with
  | nil => rfl
  | cons a r ih => cases a <;> simp_all

@[simp] theorem items_append_sentinel (q : List (QItem α)) :
    items (q ++ [.sentinel]) = items q := by
  induction q with
  | nil => rfl
  | cons a r ih => cases a <;> simp_all

theorem items_length_le (q : List (QItem α)) : (items q).length ≤ q.length := by
  induction q with
  | nil => simp
  | cons a r ih => cases a <;> simp <;> omega

@[simp] theorem hasS_append_item (q : List (QItem α)) (x : α) :
    hasS (q ++ [.item x]) = hasS q := by
  induction q with
  | nil => rfl
  | cons a r ih => cases a <;> simp_all

@[simp] theorem hasS_append_sentinel (q : List (QItem α)) :
    hasS (q ++ [.sentinel]) = true := by
  induction q with
  | nil => rfl
  | cons a r ih => cases a <;> simp_all

theorem okQ_append (q : List (QItem α)) (y : QItem α) (h : hasS q = false) :
    okQ (q ++ [y]) = true := by
  induction q with
  | nil => cases y <;> simp
  | cons a r ih => cases a <;> simp_all

/-! ## Program-point helpers -/

/-- the item the consumer holds (between `get()` and `yield`) -/
def handC : CPc α → List α
  | .cHave x => [x]
  | _ => []

/-- the item the worker holds (pulled from the source, not yet in the queue) -/
def handW : WPc α → List α
  | .wChk1 x => [x]
  | .wPut x => [x]
  | _ => []

/-- item held by the consumer of state `s` -/
abbrev hand_c (s : St α ε) : List α := handC s.c
/-- item held by the worker of state `s` -/
abbrev hand_w (s : St α ε) : List α := handW s.w

/-- the worker is about to `put` -/
def rp : WPc α → Nat
  | .wPut _ => 1
  | .wPutS => 1
  | _ => 0

/-- the worker is about to pull from the source -/
def nx : WPc α → Nat
  | .wNext => 1
  | _ => 0

/-- consumer program points after `shutdown = True` -/
def cShut : CPc α → Bool
  | .cDrain | .cJoin | .cAfter | .cDone => true
  | _ => false

/-- consumer program points after `thread.join()` -/
def cPost : CPc α → Bool
  | .cAfter | .cDone => true
  | _ => false

/-- worker program points after the `for` loop ended -/
def wPast : WPc α → Bool
  | .wFin | .wPutS | .wDone => true
  | _ => false

@[simp] theorem handC_cGet : handC (.cGet : CPc α) = [] := rfl
@[simp] theorem handC_cHave (x : α) : handC (.cHave x) = [x] := rfl
@[simp] theorem handC_cYield : handC (.cYield : CPc α) = [] := rfl
@[simp] theorem handC_cFin : handC (.cFin : CPc α) = [] := rfl
@[simp] theorem handC_cDrain : handC (.cDrain : CPc α) = [] := rfl
@[simp] theorem handC_cJoin : handC (.cJoin : CPc α) = [] := rfl
@[simp] theorem handC_cAfter : handC (.cAfter : CPc α) = [] := rfl
@[simp] theorem handC_cDone : handC (.cDone : CPc α) = [] := rfl
@[simp] theorem handW_w0 : handW (.w0 : WPc α) = [] := rfl
@[simp] theorem handW_wNext : handW (.wNext : WPc α) = [] := rfl
@[simp] theorem handW_wChk1 (x : α) : handW (.wChk1 x) = [x] := rfl
@[simp] theorem handW_wPut (x : α) : handW (.wPut x) = [x] := rfl
@[simp] theorem handW_wChk2 : handW (.wChk2 : WPc α) = [] := rfl
@[simp] theorem handW_wFin : handW (.wFin : WPc α) = [] := rfl
@[simp] theorem handW_wPutS : handW (.wPutS : WPc α) = [] := rfl
@[simp] theorem handW_wDone : handW (.wDone : WPc α) = [] := rfl

@[simp] theorem rp_w0 : rp (.w0 : WPc α) = 0 := rfl
@[simp] theorem rp_wNext : rp (.wNext : WPc α) = 0 := rfl
@[simp] theorem rp_wChk1 (x : α) : rp (.wChk1 x : WPc α) = 0 := rfl
@[simp] theorem rp_wPut (x : α) : rp (.wPut x : WPc α) = 1 := rfl
@[simp] theorem rp_wChk2 : rp (.wChk2 : WPc α) = 0 := rfl
@[simp] theorem rp_wFin : rp (.wFin : WPc α) = 0 := rfl
@[simp] theorem rp_wPutS : rp (.wPutS : WPc α) = 1 := rfl
@[simp] theorem rp_wDone : rp (.wDone : WPc α) = 0 := rfl
@[simp] theorem nx_w0 : nx (.w0 : WPc α) = 0 := rfl
@[simp] theorem nx_wNext : nx (.wNext : WPc α) = 1 := rfl
@[simp] theorem nx_wChk1 (x : α) : nx (.wChk1 x : WPc α) = 0 := rfl
@[simp] theorem nx_wPut (x : α) : nx (.wPut x : WPc α) = 0 := rfl
@[simp] theorem nx_wChk2 : nx (.wChk2 : WPc α) = 0 := rfl
@[simp] theorem nx_wFin : nx (.wFin : WPc α) = 0 := rfl
@[simp] theorem nx_wPutS : nx (.wPutS : WPc α) = 0 := rfl
@[simp] theorem nx_wDone : nx (.wDone : WPc α) = 0 := rfl
@[simp] theorem wPast_w0 : wPast (.w0 : WPc α) = false := rfl
@[simp] theorem wPast_wNext : wPast (.wNext : WPc α) = false := rfl
@[simp] theorem wPast_wChk1 (x : α) : wPast (.wChk1 x : WPc α) = false := rfl
@[simp] theorem wPast_wPut (x : α) : wPast (.wPut x : WPc α) = false := rfl
@[simp] theorem wPast_wChk2 : wPast (.wChk2 : WPc α) = false := rfl
@[simp] theorem wPast_wFin : wPast (.wFin : WPc α) = true := rfl
@[simp] theorem wPast_wPutS : wPast (.wPutS : WPc α) = true := rfl
@[simp] theorem wPast_wDone : wPast (.wDone : WPc α) = true := rfl
@[simp] theorem cShut_cGet : cShut (.cGet : CPc α) = false := rfl
@[simp] theorem cShut_cHave (x : α) : cShut (.cHave x : CPc α) = false := rfl
@[simp] theorem cShut_cYield : cShut (.cYield : CPc α) = false := rfl
@[simp] theorem cShut_cFin : cShut (.cFin : CPc α) = false := rfl
@[simp] theorem cShut_cDrain : cShut (.cDrain : CPc α) = true := rfl
@[simp] theorem cShut_cJoin : cShut (.cJoin : CPc α) = true := rfl
@[simp] theorem cShut_cAfter : cShut (.cAfter : CPc α) = true := rfl
@[simp] theorem cShut_cDone : cShut (.cDone : CPc α) = true := rfl
@[simp] theorem cPost_cGet : cPost (.cGet : CPc α) = false := rfl
@[simp] theorem cPost_cHave (x : α) : cPost (.cHave x : CPc α) = false := rfl
@[simp] theorem cPost_cYield : cPost (.cYield : CPc α) = false := rfl
@[simp] theorem cPost_cFin : cPost (.cFin : CPc α) = false := rfl
@[simp] theorem cPost_cDrain : cPost (.cDrain : CPc α) = false := rfl
@[simp] theorem cPost_cJoin : cPost (.cJoin : CPc α) = false := rfl
@[simp] theorem cPost_cAfter : cPost (.cAfter : CPc α) = true := rfl
@[simp] theorem cPost_cDone : cPost (.cDone : CPc α) = true := rfl

/-- what the generator has raised into the consumer, by program point -/
def raisedAt (c : CPc α) (closed : Bool) (ex : Option ε) : Option ε :=
  match c with
  | .cDone => bif closed then none else ex
  | _ => none

@[simp] theorem raisedAt_cGet (cl : Bool) (ex : Option ε) : raisedAt (.cGet : CPc α) cl ex = none := rfl
@[simp] theorem raisedAt_cHave (x : α) (cl : Bool) (ex : Option ε) : raisedAt (.cHave x) cl ex = none := rfl
@[simp] theorem raisedAt_cYield (cl : Bool) (ex : Option ε) : raisedAt (.cYield : CPc α) cl ex = none := rfl
@[simp] theorem raisedAt_cFin (cl : Bool) (ex : Option ε) : raisedAt (.cFin : CPc α) cl ex = none := rfl
@[simp] theorem raisedAt_cDrain (cl : Bool) (ex : Option ε) : raisedAt (.cDrain : CPc α) cl ex = none := rfl
@[simp] theorem raisedAt_cJoin (cl : Bool) (ex : Option ε) : raisedAt (.cJoin : CPc α) cl ex = none := rfl
@[simp] theorem raisedAt_cAfter (cl : Bool) (ex : Option ε) : raisedAt (.cAfter : CPc α) cl ex = none := rfl
@[simp] theorem raisedAt_cDone (cl : Bool) (ex : Option ε) :
    raisedAt (.cDone : CPc α) cl ex = bif cl then none else ex := rfl

/-- the consumer is at `thread.join()` -/
def cJoinB : CPc α → Bool
  | .cJoin => true
  | _ => false

/-- the consumer has left the `get()`/`yield` loop -/
def cLeft : CPc α → Bool
  | .cFin | .cDrain | .cJoin | .cAfter | .cDone => true
  | _ => false

@[simp] theorem cJoinB_cGet : cJoinB (.cGet : CPc α) = false := rfl
@[simp] theorem cJoinB_cHave (x : α) : cJoinB (.cHave x : CPc α) = false := rfl
@[simp] theorem cJoinB_cYield : cJoinB (.cYield : CPc α) = false := rfl
@[simp] theorem cJoinB_cFin : cJoinB (.cFin : CPc α) = false := rfl
@[simp] theorem cJoinB_cDrain : cJoinB (.cDrain : CPc α) = false := rfl
@[simp] theorem cJoinB_cJoin : cJoinB (.cJoin : CPc α) = true := rfl
@[simp] theorem cJoinB_cAfter : cJoinB (.cAfter : CPc α) = false := rfl
@[simp] theorem cJoinB_cDone : cJoinB (.cDone : CPc α) = false := rfl
@[simp] theorem cLeft_cGet : cLeft (.cGet : CPc α) = false := rfl
@[simp] theorem cLeft_cHave (x : α) : cLeft (.cHave x : CPc α) = false := rfl
@[simp] theorem cLeft_cYield : cLeft (.cYield : CPc α) = false := rfl
@[simp] theorem cLeft_cFin : cLeft (.cFin : CPc α) = true := rfl
@[simp] theorem cLeft_cDrain : cLeft (.cDrain : CPc α) = true := rfl
@[simp] theorem cLeft_cJoin : cLeft (.cJoin : CPc α) = true := rfl
@[simp] theorem cLeft_cAfter : cLeft (.cAfter : CPc α) = true := rfl
@[simp] theorem cLeft_cDone : cLeft (.cDone : CPc α) = true := rfl

theorem handC_length_le (c : CPc α) : (handC c).length ≤ 1 := by cases c <;> simp
theorem handW_length_le (w : WPc α) : (handW w).length ≤ 1 := by cases w <;> simp
theorem rp_le (w : WPc α) : rp w ≤ 1 := by cases w <;> simp
theorem nx_handW (w : WPc α) : nx w + (handW w).length ≤ 1 := by cases w <;> simp

/-! ## Reachability -/

/-- `s` is the result of running some schedule from the initial state -/
def Reachable (b : Nat) (src₀ : List α) (ending : Option ε) (s : St α ε) : Prop :=
  ∃ sched, run (init b src₀ ending) sched = some s

/-! ## The inductive invariant -/

/-- the inductive invariant of the transition system, relative to the parameters of `init` -/
structure Inv (b : Nat) (src₀ : List α) (ending : Option ε) (s : St α ε) : Prop where
  /-- the buffer holds at least one entry -/
  hb : 1 ≤ b
  sb : s.b = b
  se : s.ending = ending
  /-- the queue never exceeds its bound -/
  qb : s.q.length ≤ b
  /-- the flag is set exactly from `cDrain` on -/
  shut : s.shutdown = cShut s.c
  /-- at `join()` the queue was seen empty and the worker can put at most once more -/
  join : cJoinB s.c = true → s.q.length + rp s.w ≤ 1
  /-- `join()` returned: the worker has exited -/
  after : cPost s.c = true → s.w = .wDone
  /-- before shutdown the sentinel occurs at most once and only last -/
  okq : s.shutdown = false → okQ s.q = true
  /-- before shutdown a sentinel in the queue means the worker is gone -/
  sent : s.shutdown = false → hasS s.q = true → s.w = .wDone
  /-- before shutdown a dead worker left a sentinel (or the consumer is already leaving) -/
  dead : s.shutdown = false → s.w = .wDone → hasS s.q = true ∨ cLeft s.c = true
  /-- nothing lost, nothing duplicated, order kept -/
  fifo : s.shutdown = false →
    s.delivered ++ (handC s.c ++ (items s.q ++ (handW s.w ++ s.src))) = src₀
  pre : s.delivered <+: src₀
  len : s.pulled + s.src.length = src₀.length
  exc : s.excInfo = none ∨ s.excInfo = ending
  /-- before shutdown, once the loop is over the source is exhausted and its ending is recorded -/
  past : s.shutdown = false → wPast s.w = true → s.excInfo = ending ∧ s.src = []
  /-- leaving without `close()` means the sentinel was consumed -/
  norm : s.closed = false → cLeft s.c = true →
    s.w = .wDone ∧ s.delivered = src₀ ∧ s.excInfo = ending
  /-- nothing is raised before the end; at the end it is `exc_info`, unless closed -/
  rais : s.raised = raisedAt s.c s.closed s.excInfo
  /-- before shutdown every pulled item is accounted for -/
  pull : s.shutdown = false →
    s.pulled = s.delivered.length + (handC s.c).length + (items s.q).length + (handW s.w).length
  /-- after shutdown the worker pulls at most once more, and only from `wNext` -/
  pullS : s.shutdown = true → s.pulled + nx s.w ≤ s.delivered.length + b + 2

theorem inv_init {b : Nat} {src₀ : List α} {ending : Option ε} (hb : 1 ≤ b) :
    Inv b src₀ ending (init b src₀ ending) := by
  constructor <;> simp [init, hb]

/-! ## Preservation, one lemma per thread -/

theorem cJoinB_cShut (c : CPc α) : cJoinB c = true → cShut c = true := by cases c <;> simp
theorem cPost_cShut (c : CPc α) : cPost c = true → cShut c = true := by cases c <;> simp
theorem cShut_cLeft (c : CPc α) : cShut c = true → cLeft c = true := by cases c <;> simp

/-- closes the goal `Inv … s'` once `s'` is an explicit record: normalise the hypotheses once
    (plain `simp`, no rewriting of hypotheses with each other), then one `grind` per conjunct -/
local macro "inv_tac" : tactic =>
  `(tactic| (simp at * <;> constructor <;> (try simp) <;>
      grind [okQ_append, handW_wDone, rp_wDone, nx_wDone, wPast_wDone, okQ_nil, items_nil,
        hasS_nil]))

section Step
variable {b : Nat} {src₀ : List α} {ending : Option ε} {s s' : St α ε}

theorem inv_w0 (h : Inv b src₀ ending s) (hw : s.w = .w0)
    (hs : step s .worker = some s') : Inv b src₀ ending s' := by
  obtain ⟨b', q, sh, ex, src, en, pu, de, cl, ra, w, c⟩ := s
  obtain ⟨hb, sb, se, qb, shut, join, after, okq, sent, dead, fifo, pre, len, exc, past, norm,
    rais, pull, pullS⟩ := h
  simp only at *
  subst hw
  have hjs := cJoinB_cShut c
  have hps := cPost_cShut c
  have hsl := cShut_cLeft c
  cases sh <;> simp only [step, Option.some.injEq] at hs <;> subst hs <;> inv_tac

theorem inv_wNext_cons (h : Inv b src₀ ending s) (hw : s.w = .wNext) (hsrc : s.src ≠ [])
    (hs : step s .worker = some s') : Inv b src₀ ending s' := by
  obtain ⟨b', q, sh, ex, src, en, pu, de, cl, ra, w, c⟩ := s
  obtain ⟨hb, sb, se, qb, shut, join, after, okq, sent, dead, fifo, pre, len, exc, past, norm,
    rais, pull, pullS⟩ := h
  simp only at *
  subst hw
  have hjs := cJoinB_cShut c
  have hps := cPost_cShut c
  have hsl := cShut_cLeft c
  cases src with
  | nil => simp at hsrc
  | cons x rest =>
    simp only [step, Option.some.injEq] at hs; subst hs
    cases sh <;> inv_tac

theorem inv_wNext_nil (h : Inv b src₀ ending s) (hw : s.w = .wNext) (hsrc : s.src = [])
    (hs : step s .worker = some s') : Inv b src₀ ending s' := by
  obtain ⟨b', q, sh, ex, src, en, pu, de, cl, ra, w, c⟩ := s
  obtain ⟨hb, sb, se, qb, shut, join, after, okq, sent, dead, fifo, pre, len, exc, past, norm,
    rais, pull, pullS⟩ := h
  simp only at *
  subst hw
  have hjs := cJoinB_cShut c
  have hps := cPost_cShut c
  have hsl := cShut_cLeft c
  subst hsrc
  cases en with
  | none =>
    simp only [step, Option.some.injEq] at hs; subst hs
    cases sh <;> inv_tac
  | some e =>
    simp only [step, Option.some.injEq] at hs; subst hs
    have hr : raisedAt c cl (some e) = raisedAt c cl ex := by
      cases c <;> simp_all
    cases sh <;> inv_tac

theorem inv_wChk1 {x : α} (h : Inv b src₀ ending s) (hw : s.w = .wChk1 x)
    (hs : step s .worker = some s') : Inv b src₀ ending s' := by
  obtain ⟨b', q, sh, ex, src, en, pu, de, cl, ra, w, c⟩ := s
  obtain ⟨hb, sb, se, qb, shut, join, after, okq, sent, dead, fifo, pre, len, exc, past, norm,
    rais, pull, pullS⟩ := h
  simp only at *
  subst hw
  have hjs := cJoinB_cShut c
  have hps := cPost_cShut c
  have hsl := cShut_cLeft c
  cases sh <;> simp only [step, Option.some.injEq] at hs <;> subst hs <;> inv_tac

theorem inv_wPut {x : α} (h : Inv b src₀ ending s) (hw : s.w = .wPut x)
    (hs : step s .worker = some s') : Inv b src₀ ending s' := by
  obtain ⟨b', q, sh, ex, src, en, pu, de, cl, ra, w, c⟩ := s
  obtain ⟨hb, sb, se, qb, shut, join, after, okq, sent, dead, fifo, pre, len, exc, past, norm,
    rais, pull, pullS⟩ := h
  simp only at *
  subst hw
  have hjs := cJoinB_cShut c
  have hps := cPost_cShut c
  have hsl := cShut_cLeft c
  simp only [step] at hs
  split at hs
  · simp only [Option.some.injEq] at hs; subst hs
    have hi := items_length_le q
    cases sh <;> inv_tac
  · simp at hs

theorem inv_wChk2 (h : Inv b src₀ ending s) (hw : s.w = .wChk2)
    (hs : step s .worker = some s') : Inv b src₀ ending s' := by
  obtain ⟨b', q, sh, ex, src, en, pu, de, cl, ra, w, c⟩ := s
  obtain ⟨hb, sb, se, qb, shut, join, after, okq, sent, dead, fifo, pre, len, exc, past, norm,
    rais, pull, pullS⟩ := h
  simp only at *
  subst hw
  have hjs := cJoinB_cShut c
  have hps := cPost_cShut c
  have hsl := cShut_cLeft c
  cases sh <;> simp only [step, Option.some.injEq] at hs <;> subst hs <;> inv_tac

theorem inv_wFin (h : Inv b src₀ ending s) (hw : s.w = .wFin)
    (hs : step s .worker = some s') : Inv b src₀ ending s' := by
  obtain ⟨b', q, sh, ex, src, en, pu, de, cl, ra, w, c⟩ := s
  obtain ⟨hb, sb, se, qb, shut, join, after, okq, sent, dead, fifo, pre, len, exc, past, norm,
    rais, pull, pullS⟩ := h
  simp only at *
  subst hw
  have hjs := cJoinB_cShut c
  have hps := cPost_cShut c
  have hsl := cShut_cLeft c
  cases sh <;> simp only [step, Option.some.injEq] at hs <;> subst hs <;> inv_tac

theorem inv_wPutS (h : Inv b src₀ ending s) (hw : s.w = .wPutS)
    (hs : step s .worker = some s') : Inv b src₀ ending s' := by
  obtain ⟨b', q, sh, ex, src, en, pu, de, cl, ra, w, c⟩ := s
  obtain ⟨hb, sb, se, qb, shut, join, after, okq, sent, dead, fifo, pre, len, exc, past, norm,
    rais, pull, pullS⟩ := h
  simp only at *
  subst hw
  have hjs := cJoinB_cShut c
  have hps := cPost_cShut c
  have hsl := cShut_cLeft c
  simp only [step] at hs
  split at hs
  · simp only [Option.some.injEq] at hs; subst hs
    have hi := items_length_le q
    cases sh <;> inv_tac
  · simp at hs

theorem inv_step_worker (h : Inv b src₀ ending s) (hs : step s .worker = some s') :
    Inv b src₀ ending s' := by
  cases hw : s.w with
  | w0 => exact inv_w0 h hw hs
  | wNext =>
    cases hsrc : s.src with
    | nil => exact inv_wNext_nil h hw hsrc hs
    | cons x r => exact inv_wNext_cons h hw (by simp [hsrc]) hs
  | wChk1 x => exact inv_wChk1 h hw hs
  | wPut x => exact inv_wPut h hw hs
  | wChk2 => exact inv_wChk2 h hw hs
  | wFin => exact inv_wFin h hw hs
  | wPutS => exact inv_wPutS h hw hs
  | wDone => simp [step, hw] at hs

theorem inv_cGet (h : Inv b src₀ ending s) (hc : s.c = .cGet)
    (hs : step s .consumer = some s') : Inv b src₀ ending s' := by
  obtain ⟨b', q, sh, ex, src, en, pu, de, cl, ra, w, c⟩ := s
  obtain ⟨hb, sb, se, qb, shut, join, after, okq, sent, dead, fifo, pre, len, exc, past, norm,
    rais, pull, pullS⟩ := h
  simp only at *
  subst hc
  have hrp := rp_le w
  have hnx := nx_handW w
  have hhw := handW_length_le w
  have hi := items_length_le q
  cases sh
  · cases q with
    | nil => simp [step] at hs
    | cons y rest =>
      cases y <;> simp only [step, Option.some.injEq] at hs <;> subst hs <;> inv_tac
  · simp at shut

theorem inv_cHave {x : α} (h : Inv b src₀ ending s) (hc : s.c = .cHave x)
    (hs : step s .consumer = some s') : Inv b src₀ ending s' := by
  obtain ⟨b', q, sh, ex, src, en, pu, de, cl, ra, w, c⟩ := s
  obtain ⟨hb, sb, se, qb, shut, join, after, okq, sent, dead, fifo, pre, len, exc, past, norm,
    rais, pull, pullS⟩ := h
  simp only at *
  subst hc
  have hrp := rp_le w
  have hnx := nx_handW w
  have hhw := handW_length_le w
  have hi := items_length_le q
  cases sh
  · simp only [step, Option.some.injEq] at hs; subst hs
    have hp : de ++ [x] <+: src₀ := ⟨_, by simpa using fifo rfl⟩
    inv_tac
  · simp at shut

theorem inv_cFin (h : Inv b src₀ ending s) (hc : s.c = .cFin)
    (hs : step s .consumer = some s') : Inv b src₀ ending s' := by
  obtain ⟨b', q, sh, ex, src, en, pu, de, cl, ra, w, c⟩ := s
  obtain ⟨hb, sb, se, qb, shut, join, after, okq, sent, dead, fifo, pre, len, exc, past, norm,
    rais, pull, pullS⟩ := h
  simp only at *
  subst hc
  have hrp := rp_le w
  have hnx := nx_handW w
  have hhw := handW_length_le w
  have hi := items_length_le q
  cases sh <;> simp only [step, Option.some.injEq] at hs <;> subst hs <;> inv_tac

theorem inv_cDrain (h : Inv b src₀ ending s) (hc : s.c = .cDrain)
    (hs : step s .consumer = some s') : Inv b src₀ ending s' := by
  obtain ⟨b', q, sh, ex, src, en, pu, de, cl, ra, w, c⟩ := s
  obtain ⟨hb, sb, se, qb, shut, join, after, okq, sent, dead, fifo, pre, len, exc, past, norm,
    rais, pull, pullS⟩ := h
  simp only at *
  subst hc
  have hrp := rp_le w
  have hnx := nx_handW w
  have hhw := handW_length_le w
  have hi := items_length_le q
  cases sh
  · simp at shut
  · cases q <;> simp only [step, Option.some.injEq] at hs <;> subst hs <;> inv_tac

theorem inv_cJoin (h : Inv b src₀ ending s) (hc : s.c = .cJoin)
    (hs : step s .consumer = some s') : Inv b src₀ ending s' := by
  obtain ⟨b', q, sh, ex, src, en, pu, de, cl, ra, w, c⟩ := s
  obtain ⟨hb, sb, se, qb, shut, join, after, okq, sent, dead, fifo, pre, len, exc, past, norm,
    rais, pull, pullS⟩ := h
  simp only at *
  subst hc
  have hrp := rp_le w
  have hnx := nx_handW w
  have hhw := handW_length_le w
  have hi := items_length_le q
  cases sh
  · simp at shut
  · cases w <;> simp only [step, Option.some.injEq, reduceCtorEq] at hs
    subst hs; inv_tac

theorem inv_cAfter (h : Inv b src₀ ending s) (hc : s.c = .cAfter)
    (hs : step s .consumer = some s') : Inv b src₀ ending s' := by
  obtain ⟨b', q, sh, ex, src, en, pu, de, cl, ra, w, c⟩ := s
  obtain ⟨hb, sb, se, qb, shut, join, after, okq, sent, dead, fifo, pre, len, exc, past, norm,
    rais, pull, pullS⟩ := h
  simp only at *
  subst hc
  have hrp := rp_le w
  have hnx := nx_handW w
  have hhw := handW_length_le w
  have hi := items_length_le q
  cases sh
  · simp at shut
  · simp only [step, Option.some.injEq] at hs; subst hs
    cases cl <;> inv_tac

theorem inv_step_consumer (h : Inv b src₀ ending s) (hs : step s .consumer = some s') :
    Inv b src₀ ending s' := by
  cases hc : s.c with
  | cGet => exact inv_cGet h hc hs
  | cHave x => exact inv_cHave h hc hs
  | cYield => simp [step, hc] at hs
  | cFin => exact inv_cFin h hc hs
  | cDrain => exact inv_cDrain h hc hs
  | cJoin => exact inv_cJoin h hc hs
  | cAfter => exact inv_cAfter h hc hs
  | cDone => simp [step, hc] at hs

theorem inv_step_resume_aux (h : Inv b src₀ ending s) (hc : s.c = .cYield)
    (hs : step s .resume = some s') : Inv b src₀ ending s' := by
  obtain ⟨b', q, sh, ex, src, en, pu, de, cl, ra, w, c⟩ := s
  obtain ⟨hb, sb, se, qb, shut, join, after, okq, sent, dead, fifo, pre, len, exc, past, norm,
    rais, pull, pullS⟩ := h
  simp only at *
  subst hc
  have hrp := rp_le w
  have hnx := nx_handW w
  have hhw := handW_length_le w
  have hi := items_length_le q
  cases sh <;> simp only [step, Option.some.injEq] at hs <;> subst hs <;> inv_tac

theorem inv_step_close_aux (h : Inv b src₀ ending s) (hc : s.c = .cYield)
    (hs : step s .close = some s') : Inv b src₀ ending s' := by
  obtain ⟨b', q, sh, ex, src, en, pu, de, cl, ra, w, c⟩ := s
  obtain ⟨hb, sb, se, qb, shut, join, after, okq, sent, dead, fifo, pre, len, exc, past, norm,
    rais, pull, pullS⟩ := h
  simp only at *
  subst hc
  have hrp := rp_le w
  have hnx := nx_handW w
  have hhw := handW_length_le w
  have hi := items_length_le q
  cases sh <;> simp only [step, Option.some.injEq] at hs <;> subst hs <;> inv_tac

theorem inv_step_resume (h : Inv b src₀ ending s) (hs : step s .resume = some s') :
    Inv b src₀ ending s' := by
  cases hc : s.c with
  | cYield => exact inv_step_resume_aux h hc hs
  | _ => simp [step, hc] at hs

theorem inv_step_close (h : Inv b src₀ ending s) (hs : step s .close = some s') :
    Inv b src₀ ending s' := by
  cases hc : s.c with
  | cYield => exact inv_step_close_aux h hc hs
  | _ => simp [step, hc] at hs

theorem inv_step {t : Tid} (h : Inv b src₀ ending s) (hs : step s t = some s') :
    Inv b src₀ ending s' := by
  cases t with
  | worker => exact inv_step_worker h hs
  | consumer => exact inv_step_consumer h hs
  | resume => exact inv_step_resume h hs
  | close => exact inv_step_close h hs

theorem inv_run {sched : List Tid} (h : Inv b src₀ ending s) (hr : run s sched = some s') :
    Inv b src₀ ending s' := by
  induction sched generalizing s with
  | nil => simp [run] at hr; subst hr; exact h
  | cons t ts ih =>
    simp only [run] at hr
    split at hr
    · next s₁ hs => exact ih (inv_step h hs) hr
    · simp at hr

theorem inv_reachable (hb : 1 ≤ b) (h : Reachable b src₀ ending s) : Inv b src₀ ending s := by
  obtain ⟨sched, hr⟩ := h
  exact inv_run (inv_init hb) hr

end Step

/-! ## Consequences of the invariant -/

section Conseq
variable {b : Nat} {src₀ : List α} {ending : Option ε} {s s' : St α ε}

/-- while the generator is not suspended at a `yield` and the run is not over, one of the two
    threads can move -/
theorem inv_no_deadlock (h : Inv b src₀ ending s) (hnt : ¬ terminal s) (hy : s.c ≠ .cYield) :
    (∃ s', step s .worker = some s') ∨ (∃ s', step s .consumer = some s') := by
  obtain ⟨b', q, sh, ex, src, en, pu, de, cl, ra, w, c⟩ := s
  obtain ⟨hb, sb, se, qb, shut, join, after, okq, sent, dead, fifo, pre, len, exc, past, norm,
    rais, pull, pullS⟩ := h
  simp only [terminal] at *
  cases c with
  | cGet =>
    cases q with
    | cons y rest => right; cases y <;> simp [step]
    | nil =>
      left
      have hb' : 0 < b' := by omega
      cases w <;> try (simp [step, hb']; done)
      · cases src <;> cases en <;> simp [step]
      · simp_all
  | cHave x => right; simp [step]
  | cYield => simp at hy
  | cFin => right; simp [step]
  | cDrain => right; cases q <;> simp [step]
  | cJoin =>
    cases w <;> try (left; simp [step]; done)
    · left; cases src <;> cases en <;> simp [step]
    · left; simp at join; simp [step, join]; omega
    · left; simp at join; simp [step, join]; omega
    · right; simp [step]
  | cAfter => right; simp [step]
  | cDone => simp_all

theorem inv_worker_exited (h : Inv b src₀ ending s) (hc : s.c = .cAfter ∨ s.c = .cDone) :
    s.w = .wDone := by
  apply h.after
  rcases hc with hc | hc <;> simp [hc]

theorem inv_fifo (h : Inv b src₀ ending s) (hs : s.shutdown = false) :
    s.delivered ++ hand_c s ++ items s.q ++ hand_w s ++ s.src = src₀ := by
  simpa [hand_c, hand_w] using h.fifo hs

theorem inv_complete (h : Inv b src₀ ending s) (ht : terminal s) (hcl : s.closed = false) :
    s.delivered = src₀ ∧ s.raised = ending := by
  obtain ⟨hc, hw⟩ := ht
  have hn := h.norm hcl (by simp [hc])
  refine ⟨hn.2.1, ?_⟩
  rw [h.rais, hc, hcl]
  simpa using hn.2.2

theorem inv_closed (h : Inv b src₀ ending s) (ht : terminal s) (hcl : s.closed = true) :
    s.delivered <+: src₀ ∧ s.raised = none := by
  obtain ⟨hc, hw⟩ := ht
  refine ⟨h.pre, ?_⟩
  rw [h.rais, hc, hcl]
  rfl

theorem inv_pulled_bound (h : Inv b src₀ ending s) :
    s.pulled ≤ s.delivered.length + s.b + 2 := by
  have h1 := h.sb
  have h2 := h.qb
  have h3 := items_length_le s.q
  have h4 := handC_length_le s.c
  have h5 := handW_length_le s.w
  cases hs : s.shutdown with
  | false => have := h.pull hs; omega
  | true => have := h.pullS hs; omega

end Conseq

/-! ## Termination measures -/

/-- the worker holds an item -/
def hold : WPc α → Nat
  | .wChk1 _ => 1
  | .wPut _ => 1
  | _ => 0

/-- the worker thread has not finished -/
def alive : WPc α → Nat
  | .wDone => 0
  | _ => 1

/-- rank of the worker's program point -/
def rW : WPc α → Nat
  | .wDone => 0 | .wPutS => 1 | .wFin => 2 | .wNext => 3
  | .wChk2 => 4 | .wPut _ => 5 | .wChk1 _ => 6 | .w0 => 7

/-- rank of the consumer's program point -/
def rC : CPc α → Nat
  | .cDone => 0 | .cAfter => 1 | .cJoin => 2 | .cDrain => 3
  | .cFin => 4 | .cGet => 5 | .cYield => 6 | .cHave _ => 7

/-- rank of the worker's program point once `shutdown` is set -/
def rW2 : WPc α → Nat
  | .wDone => 0 | .wPutS => 1 | .wFin => 2 | .wChk2 => 3
  | .wPut _ => 4 | .wChk1 _ => 5 | .wNext => 6 | .w0 => 7

/-- number of entries that still have to pass through the queue, plus one for a live worker -/
def tokens (s : St α ε) : Nat := s.src.length + hold s.w + s.q.length + alive s.w

/-- decreases with every step of every thread and of the environment -/
def mu (s : St α ε) : Nat := 3 * tokens s + 4 * s.src.length + rW s.w + rC s.c

/-- does not mention the source; decreases with every step once `shutdown` is set -/
def mu2 (s : St α ε) : Nat := 3 * (s.q.length + rp s.w) + rW2 s.w + rC s.c

theorem mu_step {s s' : St α ε} {t : Tid} (hs : step s t = some s') : mu s' < mu s := by
  obtain ⟨b', q, sh, ex, src, en, pu, de, cl, ra, w, c⟩ := s
  cases t with
  | worker =>
    cases w <;> simp only [step] at hs <;> (try split at hs) <;> (try split at hs) <;>
      simp only [Option.some.injEq, reduceCtorEq] at hs <;> subst hs <;> cases sh <;>
      simp [mu, tokens, hold, alive, rW] <;> omega
  | consumer =>
    cases c <;> simp only [step] at hs <;> (try split at hs) <;>
      simp only [Option.some.injEq, reduceCtorEq] at hs <;> subst hs <;>
      simp [mu, tokens, rC] <;> omega
  | resume =>
    cases c <;> simp only [step, Option.some.injEq, reduceCtorEq] at hs
    subst hs; simp [mu, tokens, rC]
  | close =>
    cases c <;> simp only [step, Option.some.injEq, reduceCtorEq] at hs
    subst hs; simp [mu, tokens, rC]

theorem mu2_step {s s' : St α ε} {t : Tid} (hsh : s.shutdown = true) (hs : step s t = some s') :
    mu2 s' < mu2 s := by
  obtain ⟨b', q, sh, ex, src, en, pu, de, cl, ra, w, c⟩ := s
  simp only at hsh
  subst hsh
  cases t with
  | worker =>
    cases w <;> simp only [step, ↓reduceIte] at hs <;> (try split at hs) <;> (try split at hs) <;>
      simp only [Option.some.injEq, reduceCtorEq] at hs <;> subst hs <;>
      simp [mu2, rW2] <;> omega
  | consumer =>
    cases c <;> simp only [step] at hs <;> (try split at hs) <;>
      simp only [Option.some.injEq, reduceCtorEq] at hs <;> subst hs <;>
      simp [mu2, rC] <;> omega
  | resume =>
    cases c <;> simp only [step, Option.some.injEq, reduceCtorEq] at hs
    subst hs; simp [mu2, rC]
  | close =>
    cases c <;> simp only [step, Option.some.injEq, reduceCtorEq] at hs
    subst hs; simp [mu2, rC]

/-- the flag is never reset -/
theorem shutdown_step {s s' : St α ε} {t : Tid} (hsh : s.shutdown = true)
    (hs : step s t = some s') : s'.shutdown = true := by
  obtain ⟨b', q, sh, ex, src, en, pu, de, cl, ra, w, c⟩ := s
  simp only at hsh
  subst hsh
  cases t with
  | worker =>
    cases w <;> simp only [step] at hs <;> (try split at hs) <;> (try split at hs) <;>
      simp only [Option.some.injEq, reduceCtorEq] at hs <;> subst hs <;> rfl
  | consumer =>
    cases c <;> simp only [step] at hs <;> (try split at hs) <;>
      simp only [Option.some.injEq, reduceCtorEq] at hs <;> subst hs <;> rfl
  | resume =>
    cases c <;> simp only [step, Option.some.injEq, reduceCtorEq] at hs
    subst hs; rfl
  | close =>
    cases c <;> simp only [step, Option.some.injEq, reduceCtorEq] at hs
    subst hs; rfl

/-- every schedule that can be run from `s` has at most `mu s` steps (no fairness needed) -/
theorem run_length_le_mu {s s' : St α ε} {sched : List Tid} (hr : run s sched = some s') :
    sched.length + mu s' ≤ mu s := by
  induction sched generalizing s with
  | nil => simp [run] at hr; subst hr; simp
  | cons t ts ih =>
    simp only [run] at hr
    split at hr
    · next s₁ hs =>
      have h1 := ih hr
      have h2 := mu_step hs
      simp only [List.length_cons]; omega
    · simp at hr

/-- once `shutdown` is set, every schedule has at most `mu2 s` further steps, whatever the
    source still holds -/
theorem run_length_le_mu2 {s s' : St α ε} {sched : List Tid} (hsh : s.shutdown = true)
    (hr : run s sched = some s') : sched.length + mu2 s' ≤ mu2 s := by
  induction sched generalizing s with
  | nil => simp [run] at hr; subst hr; simp
  | cons t ts ih =>
    simp only [run] at hr
    split at hr
    · next s₁ hs =>
      have h1 := ih (shutdown_step hsh hs) hr
      have h2 := mu2_step hsh hs
      simp only [List.length_cons]; omega
    · simp at hr

end LazyDs.Stp

import LazyDs.Lemmas.RefWF
import LazyDs.Lemmas.RelItems
import Batteries.Data.List.Basic
/-
  IntersperseDataset and KeyZipDataset.

  Part 1: the order table `intersperseOrder lens` (a permutation of `orderEntries lens`, sorted,
          and *consistent*: the entries of one dataset occur in the order `j = 0, 1, 2, …`),
          and what `intersperseRun` yields along an order table.
  Part 2: refinement (`Rel`) of `intersperseDS` / `keyZipDS` and of their constructors.
  Part 3: well-formedness (`RefWF2`) of `Ref.intersperse` / `Ref.keyZip`.
-/
namespace LazyDs

open List (Forall₂)

/-! ## Part 1: the order table -/

/-- the entries of one dataset: `[⟨1, n, d, 0⟩, ⟨2, n, d, 1⟩, …, ⟨n, n, d, n-1⟩]` -/
def ordBlock (n d : Nat) : List OrdEntry :=
  (List.range n).map (fun j => (⟨j + 1, n, d, j⟩ : OrdEntry))

/-- `orderEntries` with the dataset numbering starting at `k` -/
def entriesFrom (k : Nat) (lens : List Nat) : List OrdEntry :=
  ((lens.zipIdx k).map (fun (n, d) => ordBlock n d)).flatten

theorem orderEntries_eq (lens : List Nat) : orderEntries lens = entriesFrom 0 lens := rfl

theorem entriesFrom_nil (k : Nat) : entriesFrom k [] = [] := rfl

theorem entriesFrom_cons (k n : Nat) (lens : List Nat) :
    entriesFrom k (n :: lens) = ordBlock n k ++ entriesFrom (k + 1) lens := by
  simp [entriesFrom, List.zipIdx_cons]

theorem length_ordBlock (n d : Nat) : (ordBlock n d).length = n := by simp [ordBlock]

theorem map_j_ordBlock (n d : Nat) : (ordBlock n d).map (·.j) = List.range n := by
  simp [ordBlock, List.map_map, Function.comp_def]

theorem mem_ordBlock {n d : Nat} {e : OrdEntry} :
    e ∈ ordBlock n d ↔ e.den = n ∧ e.d = d ∧ e.j < n ∧ e.num = e.j + 1 := by
  simp only [ordBlock, List.mem_map, List.mem_range]
  constructor
  · rintro ⟨j, hj, rfl⟩
    exact ⟨rfl, rfl, hj, rfl⟩
  · rintro ⟨h1, h2, h3, h4⟩
    refine ⟨e.j, h3, ?_⟩
    cases e
    simp_all

theorem length_entriesFrom (k : Nat) (lens : List Nat) : (entriesFrom k lens).length = lens.sum := by
  induction lens generalizing k with
  | nil => rfl
  | cons n lens ih => rw [entriesFrom_cons, List.length_append, length_ordBlock, ih, List.sum_cons]

theorem mem_entriesFrom {k : Nat} {lens : List Nat} {e : OrdEntry} :
    e ∈ entriesFrom k lens ↔
      k ≤ e.d ∧ lens[e.d - k]? = some e.den ∧ e.j < e.den ∧ e.num = e.j + 1 := by
  induction lens generalizing k with
  | nil => simp [entriesFrom_nil]
  | cons n lens ih =>
    rw [entriesFrom_cons, List.mem_append, mem_ordBlock, ih]
    constructor
    · rintro (⟨h1, h2, h3, h4⟩ | ⟨h1, h2, h3, h4⟩)
      · refine ⟨by omega, ?_, by omega, h4⟩
        have : e.d - k = 0 := by omega
        rw [this]; simp [h1]
      · refine ⟨by omega, ?_, h3, h4⟩
        have : e.d - k = (e.d - (k + 1)) + 1 := by omega
        rw [this, List.getElem?_cons_succ]; exact h2
    · rintro ⟨h1, h2, h3, h4⟩
      by_cases hk : e.d = k
      · left
        have : e.d - k = 0 := by omega
        rw [this] at h2
        simp only [List.getElem?_cons_zero, Option.some.injEq] at h2
        exact ⟨h2.symm, hk, by omega, h4⟩
      · right
        have : e.d - k = (e.d - (k + 1)) + 1 := by omega
        rw [this, List.getElem?_cons_succ] at h2
        exact ⟨by omega, h2, h3, h4⟩

/-- membership in the unsorted table -/
theorem mem_orderEntries {lens : List Nat} {e : OrdEntry} :
    e ∈ orderEntries lens ↔ lens[e.d]? = some e.den ∧ e.j < e.den ∧ e.num = e.j + 1 := by
  rw [orderEntries_eq, mem_entriesFrom]
  simp

theorem filter_ordBlock_self (n d : Nat) : (ordBlock n d).filter (fun e => e.d == d) = ordBlock n d := by
  rw [List.filter_eq_self]
  intro e he
  simp [(mem_ordBlock.1 he).2.1]

theorem filter_ordBlock_ne (n d d' : Nat) (h : d ≠ d') : (ordBlock n d).filter (fun e => e.d == d') = [] := by
  rw [List.filter_eq_nil_iff]
  intro e he
  simp [(mem_ordBlock.1 he).2.1, h]

theorem filter_entriesFrom_lt (k d : Nat) (lens : List Nat) (h : d < k) :
    (entriesFrom k lens).filter (fun e => e.d == d) = [] := by
  rw [List.filter_eq_nil_iff]
  intro e he
  have := (mem_entriesFrom.1 he).1
  simp only [beq_iff_eq]
  omega

theorem filter_entriesFrom (k d n : Nat) (lens : List Nat) (hk : k ≤ d) (hn : lens[d - k]? = some n) :
    (entriesFrom k lens).filter (fun e => e.d == d) = ordBlock n d := by
  induction lens generalizing k with
  | nil => simp at hn
  | cons m lens ih =>
    rw [entriesFrom_cons, List.filter_append]
    by_cases hd : d = k
    · subst hd
      simp only [Nat.sub_self, List.getElem?_cons_zero, Option.some.injEq] at hn
      subst hn
      rw [filter_ordBlock_self, filter_entriesFrom_lt _ _ _ (by omega), List.append_nil]
    · have : d - k = (d - (k + 1)) + 1 := by omega
      rw [this, List.getElem?_cons_succ] at hn
      rw [filter_ordBlock_ne _ _ _ (fun h => hd h.symm), ih (k + 1) (by omega) hn, List.nil_append]

/-- the entries of dataset `d` in the unsorted table -/
theorem filter_orderEntries (lens : List Nat) (d n : Nat) (hn : lens[d]? = some n) :
    (orderEntries lens).filter (fun e => e.d == d) = ordBlock n d :=
  filter_entriesFrom 0 d n lens (Nat.zero_le _) (by simpa using hn)

/-! ### the comparison of entries -/

theorem OrdEntry.le_iff (a b : OrdEntry) :
    a.le b = true ↔
      a.num * b.den < b.num * a.den ∨
      (a.num * b.den = b.num * a.den ∧ (a.d < b.d ∨ (a.d = b.d ∧ a.j ≤ b.j))) := by
  unfold OrdEntry.le
  generalize a.num * b.den = l
  generalize b.num * a.den = r
  simp only []
  by_cases h1 : l < r
  · rw [if_pos h1]; simp [h1]
  · rw [if_neg h1]
    by_cases h2 : l > r
    · rw [if_pos h2]
      constructor
      · intro h; cases h
      · intro h; omega
    · rw [if_neg h2]
      by_cases h3 : a.d < b.d
      · rw [if_pos h3]
        constructor
        · intro _; right; exact ⟨by omega, Or.inl h3⟩
        · intro _; rfl
      · rw [if_neg h3]
        by_cases h4 : a.d > b.d
        · rw [if_pos h4]
          constructor
          · intro h; cases h
          · intro h; omega
        · rw [if_neg h4, decide_eq_true_eq]
          constructor
          · intro h; right; exact ⟨by omega, Or.inr ⟨by omega, h⟩⟩
          · intro h; omega

/-- cross-multiplication compares positive fractions faithfully: `≤` composes -/
theorem frac_le_trans {an ad bn bd cn cd : Nat} (hb : 0 < bd)
    (h1 : an * bd ≤ bn * ad) (h2 : bn * cd ≤ cn * bd) : an * cd ≤ cn * ad := by
  have h1' : an * bd * cd ≤ bn * ad * cd := Nat.mul_le_mul_right cd h1
  have h2' : bn * cd * ad ≤ cn * bd * ad := Nat.mul_le_mul_right ad h2
  have e1 : an * cd * bd = an * bd * cd := Nat.mul_right_comm an cd bd
  have e2 : bn * ad * cd = bn * cd * ad := Nat.mul_right_comm bn ad cd
  have e3 : cn * bd * ad = cn * ad * bd := Nat.mul_right_comm cn bd ad
  have : an * cd * bd ≤ cn * ad * bd := by omega
  exact Nat.le_of_mul_le_mul_right this hb

theorem frac_lt_le_trans {an ad bn bd cn cd : Nat} (hc : 0 < cd)
    (h1 : an * bd < bn * ad) (h2 : bn * cd ≤ cn * bd) : an * cd < cn * ad := by
  have h1' : an * bd * cd < bn * ad * cd := Nat.mul_lt_mul_of_pos_right h1 hc
  have h2' : bn * cd * ad ≤ cn * bd * ad := Nat.mul_le_mul_right ad h2
  have e1 : an * cd * bd = an * bd * cd := Nat.mul_right_comm an cd bd
  have e2 : bn * ad * cd = bn * cd * ad := Nat.mul_right_comm bn ad cd
  have e3 : cn * bd * ad = cn * ad * bd := Nat.mul_right_comm cn bd ad
  have : an * cd * bd < cn * ad * bd := by omega
  exact Nat.lt_of_mul_lt_mul_right this

theorem frac_le_lt_trans {an ad bn bd cn cd : Nat} (ha : 0 < ad)
    (h1 : an * bd ≤ bn * ad) (h2 : bn * cd < cn * bd) : an * cd < cn * ad := by
  have h1' : an * bd * cd ≤ bn * ad * cd := Nat.mul_le_mul_right cd h1
  have h2' : bn * cd * ad < cn * bd * ad := Nat.mul_lt_mul_of_pos_right h2 ha
  have e1 : an * cd * bd = an * bd * cd := Nat.mul_right_comm an cd bd
  have e2 : bn * ad * cd = bn * cd * ad := Nat.mul_right_comm bn ad cd
  have e3 : cn * bd * ad = cn * ad * bd := Nat.mul_right_comm cn bd ad
  have : an * cd * bd < cn * ad * bd := by omega
  exact Nat.lt_of_mul_lt_mul_right this

/-- `OrdEntry.le` is transitive on entries with positive denominators -/
theorem OrdEntry.le_trans_pos {a b c : OrdEntry} (ha : 0 < a.den) (hb : 0 < b.den) (hc : 0 < c.den)
    (h1 : a.le b = true) (h2 : b.le c = true) : a.le c = true := by
  rw [OrdEntry.le_iff] at h1 h2 ⊢
  have A := @frac_le_trans a.num a.den b.num b.den c.num c.den hb
  have A' := @frac_le_trans c.num c.den b.num b.den a.num a.den hb
  have B := @frac_lt_le_trans a.num a.den b.num b.den c.num c.den hc
  have C := @frac_le_lt_trans a.num a.den b.num b.den c.num c.den ha
  have e1 : b.num * a.den = a.den * b.num := Nat.mul_comm _ _
  rcases h1 with h1 | ⟨h1, h1'⟩
  · rcases h2 with h2 | ⟨h2, _⟩
    · left; exact B h1 (by omega)
    · left; exact B h1 (by omega)
  · rcases h2 with h2 | ⟨h2, h2'⟩
    · left; exact C (by omega) h2
    · right
      refine ⟨?_, by omega⟩
      have x := A (by omega) (by omega)
      have y := A' (by omega) (by omega)
      omega

/-- `OrdEntry.le` is total (no side condition) -/
theorem OrdEntry.le_total (a b : OrdEntry) : (a.le b || b.le a) = true := by
  rw [Bool.or_eq_true, OrdEntry.le_iff, OrdEntry.le_iff]
  omega

/-- replace a zero denominator (never present in an order table) by one -/
def OrdEntry.fix (e : OrdEntry) : OrdEntry := if e.den = 0 then { e with den := 1 } else e

theorem OrdEntry.fix_pos (e : OrdEntry) : 0 < e.fix.den := by
  unfold OrdEntry.fix
  split
  · simp
  · omega

theorem OrdEntry.fix_of_pos {e : OrdEntry} (h : 0 < e.den) : e.fix = e := by
  unfold OrdEntry.fix
  rw [if_neg (by omega)]

theorem pos_of_mem_orderEntries {lens : List Nat} {e : OrdEntry} (h : e ∈ orderEntries lens) : 0 < e.den := by
  have := (mem_orderEntries.1 h).2.1
  omega

/-! ### `intersperseOrder`: permutation, length, entries, sortedness -/

theorem order_perm (lens : List Nat) : (intersperseOrder lens).Perm (orderEntries lens) :=
  List.mergeSort_perm _ _

theorem order_length (lens : List Nat) : (intersperseOrder lens).length = lens.sum := by
  rw [(order_perm lens).length_eq, orderEntries_eq, length_entriesFrom]

theorem mem_order {lens : List Nat} {e : OrdEntry} :
    e ∈ intersperseOrder lens ↔ lens[e.d]? = some e.den ∧ e.j < e.den ∧ e.num = e.j + 1 := by
  rw [(order_perm lens).mem_iff, mem_orderEntries]

/-- every entry of the table points into the parts -/
theorem order_entries (lens : List Nat) (e : OrdEntry) (he : e ∈ intersperseOrder lens) :
    ∃ h : e.d < lens.length, e.j < lens[e.d] ∧ e.den = lens[e.d] ∧ e.num = e.j + 1 := by
  obtain ⟨h1, h2, h3⟩ := mem_order.1 he
  obtain ⟨h, h1'⟩ := List.getElem?_eq_some_iff.1 h1
  exact ⟨h, by omega, h1'.symm, h3⟩

/-- the table is sorted by `OrdEntry.le` -/
theorem order_sorted (lens : List Nat) :
    (intersperseOrder lens).Pairwise (fun a b => OrdEntry.le a b = true) := by
  let le' : OrdEntry → OrdEntry → Bool := fun a b => OrdEntry.le a.fix b.fix
  have heq : intersperseOrder lens = (orderEntries lens).mergeSort le' := by
    have := List.map_mergeSort (r := OrdEntry.le) (s := le') (f := id) (l := orderEntries lens)
      (by
        intro a ha b hb
        simp only [le', id, OrdEntry.fix_of_pos (pos_of_mem_orderEntries ha),
          OrdEntry.fix_of_pos (pos_of_mem_orderEntries hb)])
    simpa [intersperseOrder] using this
  have hs : ((orderEntries lens).mergeSort le').Pairwise (fun a b => le' a b = true) :=
    List.pairwise_mergeSort
      (fun (a b c : OrdEntry) h1 h2 =>
        OrdEntry.le_trans_pos (OrdEntry.fix_pos a) (OrdEntry.fix_pos b) (OrdEntry.fix_pos c) h1 h2)
      (fun (a b : OrdEntry) => OrdEntry.le_total (OrdEntry.fix a) (OrdEntry.fix b)) _
  rw [heq]
  refine hs.imp_of_mem ?_
  intro a b ha hb h
  rw [List.mem_mergeSort] at ha hb
  simpa only [le', OrdEntry.fix_of_pos (pos_of_mem_orderEntries ha),
    OrdEntry.fix_of_pos (pos_of_mem_orderEntries hb)] using h

/-- within one dataset the table order is the example order -/
theorem le_same_block {n d : Nat} {a b : OrdEntry} (ha : a ∈ ordBlock n d) (hb : b ∈ ordBlock n d)
    (h : a.le b = true) : a.j ≤ b.j := by
  obtain ⟨a1, a2, a3, a4⟩ := mem_ordBlock.1 ha
  obtain ⟨b1, b2, b3, b4⟩ := mem_ordBlock.1 hb
  rw [OrdEntry.le_iff, a1, b1, a4, b4] at h
  rcases h with h | ⟨_, h⟩
  · have := Nat.lt_of_mul_lt_mul_right h
    omega
  · omega

/-- **consistency of the order table**: the entries of dataset `d`, in table order, are
    `⟨1, n, d, 0⟩, ⟨2, n, d, 1⟩, …, ⟨n, n, d, n-1⟩` -/
theorem order_block (lens : List Nat) (d n : Nat) (hn : lens[d]? = some n) :
    (intersperseOrder lens).filter (fun e => e.d == d) = ordBlock n d := by
  have hperm : ((intersperseOrder lens).filter (fun e => e.d == d)).Perm (ordBlock n d) := by
    rw [← filter_orderEntries lens d n hn]
    exact (order_perm lens).filter _
  have hsorted : ((intersperseOrder lens).filter (fun e => e.d == d)).Pairwise
      (fun a b => OrdEntry.le a b = true) := (order_sorted lens).filter _
  have hblock : (ordBlock n d).Pairwise (fun a b => OrdEntry.le a b = true) := by
    rcases Nat.eq_zero_or_pos n with h0 | h0
    · subst h0; simp [ordBlock]
    · simp only [ordBlock, List.pairwise_map]
      refine List.pairwise_lt_range.imp ?_
      intro i j hij
      rw [OrdEntry.le_iff]
      left
      show (i + 1) * n < (j + 1) * n
      exact Nat.mul_lt_mul_of_pos_right (by omega) h0
  refine List.Perm.eq_of_pairwise ?_ hsorted hblock hperm
  intro a b ha hb hab hba
  have ha' : a ∈ ordBlock n d := hperm.mem_iff.1 ha
  have h1 := le_same_block ha' hb hab
  have h2 := le_same_block hb ha' hba
  obtain ⟨a1, a2, a3, a4⟩ := mem_ordBlock.1 ha'
  obtain ⟨b1, b2, b3, b4⟩ := mem_ordBlock.1 hb
  cases a; cases b
  simp_all
  omega

theorem filter_decide_eq_beq (order : List OrdEntry) (d : Nat) :
    order.filter (fun e => decide (e.d = d)) = order.filter (fun e => e.d == d) := by
  apply List.filter_congr
  intro e _
  rw [Bool.eq_iff_iff]
  simp

theorem order_consistent (lens : List Nat) (d : Nat) (h : d < lens.length) :
    ((intersperseOrder lens).filter (·.d = d)).map (·.j) = List.range lens[d] := by
  rw [filter_decide_eq_beq, order_block lens d lens[d] (List.getElem?_eq_getElem h), map_j_ordBlock]

/-! ### consistency, as used by the iterator: position in the table ↦ position in the part -/

/-- number of entries of dataset `d` in a piece of the table -/
abbrev ordCount (pre : List OrdEntry) (d : Nat) : Nat := pre.countP (fun e => e.d == d)

/-- the entry at table position `t` carries as `j` the number of earlier entries of the same dataset:
    when the iterator reaches it, `next(iterators[e.d])` produces example `e.j` of part `e.d` -/
def OrderOK (order : List OrdEntry) : Prop :=
  ∀ t e, order[t]? = some e → ordCount (order.take t) e.d = e.j

theorem filter_take_index {α} (p : α → Bool) : ∀ (l : List α) (t : Nat) (e : α), l[t]? = some e → p e = true →
    (l.filter p)[(l.take t).countP p]? = some e
  | [], t, e, h, _ => by simp at h
  | x :: xs, 0, e, h, hp => by
    simp only [List.getElem?_cons_zero, Option.some.injEq] at h
    subst h
    simp [hp]
  | x :: xs, t + 1, e, h, hp => by
    simp only [List.getElem?_cons_succ] at h
    have ih := filter_take_index p xs t e h hp
    simp only [List.take_succ_cons, List.countP_cons, List.filter_cons]
    by_cases hx : p x = true
    · simp only [hx, if_true, List.getElem?_cons_succ]
      exact ih
    · simp only [hx, Bool.false_eq_true, if_false, Nat.add_zero]
      exact ih

/-- a table whose per-dataset sub-lists are blocks is consistent -/
theorem orderOK_of_blocks (order : List OrdEntry)
    (h : ∀ e ∈ order, order.filter (fun x => x.d == e.d) = ordBlock e.den e.d) : OrderOK order := by
  intro t e ht
  have hmem : e ∈ order := List.mem_of_getElem? ht
  have h1 := filter_take_index (fun x => x.d == e.d) order t e ht (by simp)
  rw [h e hmem] at h1
  simp only [ordBlock, List.getElem?_map, Option.map_eq_some_iff] at h1
  obtain ⟨i, hi, hie⟩ := h1
  obtain ⟨hlt, hi'⟩ := List.getElem?_eq_some_iff.1 hi
  rw [List.getElem_range] at hi'
  rw [← hie]
  exact hi'

theorem order_ok (lens : List Nat) : OrderOK (intersperseOrder lens) := by
  apply orderOK_of_blocks
  intro e he
  exact order_block lens e.d e.den (mem_order.1 he).1

/-! ### what `intersperseRun` yields -/

theorem isp_set_count {pos : List Nat} {e e' : OrdEntry} {p p' : Nat} (hp : pos[e.d]? = some p)
    (hp' : (pos.set e.d (p + 1))[e'.d]? = some p') (pre : List OrdEntry) :
    ∃ p'', pos[e'.d]? = some p'' ∧ p'' + ordCount (e :: pre) e'.d = p' + ordCount pre e'.d := by
  rw [List.getElem?_set] at hp'
  by_cases hd : e.d = e'.d
  · rw [if_pos hd] at hp'
    have hlt : e.d < pos.length := (List.getElem?_eq_some_iff.1 hp).1
    rw [if_pos hlt] at hp'
    injection hp' with hp'
    refine ⟨p, hd ▸ hp, ?_⟩
    simp only [ordCount, List.countP_cons, hd, beq_self_eq_true, if_true]
    omega
  · rw [if_neg hd] at hp'
    refine ⟨p', hp', ?_⟩
    have : (e.d == e'.d) = false := by simpa using hd
    simp only [ordCount, List.countP_cons, this, Bool.false_eq_true, if_false, Nat.add_zero]

/-- The complete description of a run of the interleaving iterator along ANY table, from ANY
    iterator state `pos`:
    * it yields at most one value per table entry, and ends normally iff it used the whole table;
    * the value yielded for table position `t` (entry `e`) is value number
      `pos[e.d] + #{earlier entries of dataset e.d}` of stream `e.d`;
    * if it stops early, that value did not exist. -/
theorem isp_run_spec {α} (ss : List (Stream α)) : ∀ (order : List OrdEntry) (pos : List Nat),
    (intersperseRun ss order pos).vals.length ≤ order.length ∧
    ((intersperseRun ss order pos).err = none ↔
      (intersperseRun ss order pos).vals.length = order.length) ∧
    (∀ t v, (intersperseRun ss order pos).vals[t]? = some v →
      ∃ e s p, order[t]? = some e ∧ ss[e.d]? = some s ∧ pos[e.d]? = some p ∧
        s.vals[p + ordCount (order.take t) e.d]? = some v) ∧
    (∀ e s p, order[(intersperseRun ss order pos).vals.length]? = some e →
      ss[e.d]? = some s → pos[e.d]? = some p →
      s.vals[p + ordCount (order.take (intersperseRun ss order pos).vals.length) e.d]? = none)
  | [], pos => by
    simp [intersperseRun, Stream.nil]
  | e :: rest, pos => by
    have hfail : ∀ er : Err, intersperseRun ss (e :: rest) pos = .fail er →
        (∀ s p, ss[e.d]? = some s → pos[e.d]? = some p → s.vals[p]? = none) →
        (intersperseRun ss (e :: rest) pos).vals.length ≤ (e :: rest).length ∧
        ((intersperseRun ss (e :: rest) pos).err = none ↔
          (intersperseRun ss (e :: rest) pos).vals.length = (e :: rest).length) ∧
        (∀ t v, (intersperseRun ss (e :: rest) pos).vals[t]? = some v →
          ∃ e' s p, (e :: rest)[t]? = some e' ∧ ss[e'.d]? = some s ∧ pos[e'.d]? = some p ∧
            s.vals[p + ordCount ((e :: rest).take t) e'.d]? = some v) ∧
        (∀ e' s p, (e :: rest)[(intersperseRun ss (e :: rest) pos).vals.length]? = some e' →
          ss[e'.d]? = some s → pos[e'.d]? = some p →
          s.vals[p + ordCount ((e :: rest).take (intersperseRun ss (e :: rest) pos).vals.length) e'.d]? = none) := by
      intro er hr hnone
      rw [hr]
      refine ⟨by simp [Stream.fail], by simp [Stream.fail], by simp [Stream.fail], ?_⟩
      intro e' s p he' hs hp
      simp only [Stream.fail, List.length_nil, List.getElem?_cons_zero, Option.some.injEq] at he'
      subst he'
      simpa [Stream.fail] using hnone s p hs hp
    cases hs : ss[e.d]? with
    | none =>
      apply hfail .indexError
      · simp only [intersperseRun, hs]
      · intro s p h; rw [hs] at h; cases h
    | some s =>
      cases hp : pos[e.d]? with
      | none =>
        apply hfail .indexError
        · simp only [intersperseRun, hs, hp]
        · intro s p _ h; rw [hp] at h; cases h
      | some p =>
        cases hv : s.vals[p]? with
        | none =>
          have hnone : ∀ s' p', ss[e.d]? = some s' → pos[e.d]? = some p' → s'.vals[p']? = none := by
            intro s' p' h1 h2
            rw [hs] at h1; rw [hp] at h2
            injection h1 with h1; injection h2 with h2
            subst h1; subst h2; exact hv
          cases he : s.err with
          | none =>
            apply hfail .runtimeError _ hnone
            simp only [intersperseRun, hs, hp, hv, he]
          | some er =>
            apply hfail er _ hnone
            simp only [intersperseRun, hs, hp, hv, he]
        | some v =>
          have hr : intersperseRun ss (e :: rest) pos
              = .cons v (intersperseRun ss rest (pos.set e.d (p + 1))) := by
            simp only [intersperseRun, hs, hp, hv]
          obtain ⟨ih1, ih2, ih3, ih4⟩ := isp_run_spec ss rest (pos.set e.d (p + 1))
          rw [hr]
          simp only [Stream.cons, List.length_cons]
          refine ⟨by omega, by rw [ih2]; omega, ?_, ?_⟩
          · intro t v' htv
            cases t with
            | zero =>
              simp only [List.getElem?_cons_zero, Option.some.injEq] at htv
              subst htv
              exact ⟨e, s, p, by simp, hs, hp, by simpa using hv⟩
            | succ t =>
              simp only [List.getElem?_cons_succ] at htv
              obtain ⟨e', s', p', h1, h2, h3, h4⟩ := ih3 t v' htv
              obtain ⟨p'', h5, h6⟩ := isp_set_count hp h3 (rest.take t)
              refine ⟨e', s', p'', by simpa using h1, h2, h5, ?_⟩
              rw [List.take_succ_cons, h6]
              exact h4
          · intro e' s' p' h1 h2 h3
            simp only [List.getElem?_cons_succ] at h1
            rw [List.take_succ_cons]
            -- the state of iterator `e'.d` after the first step
            have hlen : e'.d < (pos.set e.d (p + 1)).length := by
              rw [List.length_set]; exact (List.getElem?_eq_some_iff.1 h3).1
            obtain ⟨p1, hp1⟩ : ∃ p1, (pos.set e.d (p + 1))[e'.d]? = some p1 :=
              ⟨_, List.getElem?_eq_getElem hlen⟩
            obtain ⟨p'', h5, h6⟩ := isp_set_count hp hp1
              (rest.take (intersperseRun ss rest (pos.set e.d (p + 1))).vals.length)
            rw [h3] at h5
            injection h5 with h5
            subst h5
            rw [h6]
            exact ih4 e' s' p1 h1 h2 hp1

theorem isp_zeros_getElem? {α} (ss : List α) (i p : Nat) (h : (ss.map (fun _ => 0))[i]? = some p) : p = 0 := by
  simp only [List.getElem?_map, Option.map_eq_some_iff] at h
  obtain ⟨_, _, h⟩ := h
  exact h.symm

/-- a run never yields more values than the table has entries; it ends normally iff it used all of it -/
theorem intersperseRun_length {α} (ss : List (Stream α)) (order : List OrdEntry) (pos : List Nat) :
    (intersperseRun ss order pos).vals.length ≤ order.length ∧
    ((intersperseRun ss order pos).err = none ↔
      (intersperseRun ss order pos).vals.length = order.length) :=
  ⟨(isp_run_spec ss order pos).1, (isp_run_spec ss order pos).2.1⟩

/-- **prefix property**: along a consistent table, started fresh, the value yielded at table position
    `t` (entry `e`) is value number `e.j` of stream number `e.d`, whatever the streams are
    (shorter than announced, ending with an error, …) -/
theorem intersperseRun_prefix_of_zeros {α} (ss : List (Stream α)) (order : List OrdEntry) (hok : OrderOK order)
    (pos : List Nat) (hz : ∀ (i p : Nat), pos[i]? = some p → p = 0)
    (t : Nat) (v : α) (h : (intersperseRun ss order pos).vals[t]? = some v) :
    ∃ e s, order[t]? = some e ∧ ss[e.d]? = some s ∧ s.vals[e.j]? = some v := by
  obtain ⟨e, s, p, h1, h2, h3, h4⟩ := (isp_run_spec ss order pos).2.2.1 t v h
  have hp := hz _ _ h3
  subst hp
  rw [hok t e h1, Nat.zero_add] at h4
  exact ⟨e, s, h1, h2, h4⟩

theorem intersperseRun_prefix {α} (ss : List (Stream α)) (order : List OrdEntry) (hok : OrderOK order)
    (t : Nat) (v : α) (h : (intersperseRun ss order (ss.map fun _ => 0)).vals[t]? = some v) :
    ∃ e s, order[t]? = some e ∧ ss[e.d]? = some s ∧ s.vals[e.j]? = some v :=
  intersperseRun_prefix_of_zeros ss order hok _ (isp_zeros_getElem? ss) t v h

/-- the same with `getElem` -/
theorem intersperseRun_prefix' {α} (ss : List (Stream α)) (order : List OrdEntry) (hok : OrderOK order)
    (t : Nat) (h : t < (intersperseRun ss order (ss.map fun _ => 0)).vals.length) :
    ∃ (ho : t < order.length) (hd : order[t].d < ss.length) (hj : order[t].j < ss[order[t].d].vals.length),
      (intersperseRun ss order (ss.map fun _ => 0)).vals[t] = ss[order[t].d].vals[order[t].j] := by
  obtain ⟨e, s, h1, h2, h3⟩ := intersperseRun_prefix ss order hok t _ (List.getElem?_eq_getElem h)
  obtain ⟨ho, rfl⟩ := List.getElem?_eq_some_iff.1 h1
  obtain ⟨hd, rfl⟩ := List.getElem?_eq_some_iff.1 h2
  obtain ⟨hj, h3⟩ := List.getElem?_eq_some_iff.1 h3
  exact ⟨ho, hd, hj, h3.symm⟩

/-- **complete run**: if every stream has the values the table asks for, the run yields, for each
    table entry `e` in turn, value `e.j` of stream `e.d`, and ends normally -/
theorem intersperseRun_full {α} (ss : List (Stream α)) (order : List OrdEntry) (hok : OrderOK order)
    (hs : ∀ e ∈ order, ∃ s, ss[e.d]? = some s ∧ e.j < s.vals.length) :
    (intersperseRun ss order (ss.map fun _ => 0)).err = none ∧
    (intersperseRun ss order (ss.map fun _ => 0)).vals.map some
      = order.map (fun e => (ss[e.d]?).bind (fun s => s.vals[e.j]?)) := by
  obtain ⟨h1, h2, h3, h4⟩ := isp_run_spec ss order (ss.map fun _ => 0)
  have hlen : (intersperseRun ss order (ss.map fun _ => 0)).vals.length = order.length := by
    apply Nat.le_antisymm h1
    apply Nat.le_of_not_lt
    intro hlt
    have he := List.getElem?_eq_getElem hlt
    obtain ⟨s, hs1, hs2⟩ := hs _ (List.getElem_mem hlt)
    have hd : order[(intersperseRun ss order (ss.map fun _ => 0)).vals.length].d < ss.length :=
      (List.getElem?_eq_some_iff.1 hs1).1
    have hp : (ss.map fun _ => 0)[order[(intersperseRun ss order (ss.map fun _ => 0)).vals.length].d]?
        = some 0 := by
      simp [hd]
    have := h4 _ s 0 he hs1 hp
    rw [hok _ _ he, Nat.zero_add] at this
    rw [List.getElem?_eq_none_iff] at this
    omega
  refine ⟨h2.2 hlen, ?_⟩
  apply List.ext_getElem?
  intro t
  rw [List.getElem?_map, List.getElem?_map]
  cases hv : (intersperseRun ss order (ss.map fun _ => 0)).vals[t]? with
  | none =>
    have : order[t]? = none := by
      rw [List.getElem?_eq_none_iff] at hv ⊢
      omega
    simp [this]
  | some v =>
    obtain ⟨e, s, p, e1, e2, e3, e4⟩ := h3 t v hv
    have hp := isp_zeros_getElem? ss _ _ e3
    subst hp
    rw [hok t e e1, Nat.zero_add] at e4
    simp [e1, e2, e4]

/-- `intersperseRun_full` for the table built from the lengths: streams that have (at least) the
    announced numbers of values are interleaved completely -/
theorem intersperseRun_eq {α} (lens : List Nat) (ss : List (Stream α)) (hlen : ss.length = lens.length)
    (hs : ∀ (i : Nat) (h : i < ss.length), lens[i]'(hlen ▸ h) ≤ ss[i].vals.length) :
    (intersperseRun ss (intersperseOrder lens) (ss.map fun _ => 0)).err = none ∧
    (intersperseRun ss (intersperseOrder lens) (ss.map fun _ => 0)).vals.map some
      = (intersperseOrder lens).map (fun e => (ss[e.d]?).bind (fun s => s.vals[e.j]?)) := by
  apply intersperseRun_full ss _ (order_ok lens)
  intro e he
  obtain ⟨hd, hj, _, _⟩ := order_entries lens e he
  have hd' : e.d < ss.length := hlen ▸ hd
  exact ⟨ss[e.d], List.getElem?_eq_getElem hd', Nat.lt_of_lt_of_le hj (hs e.d hd')⟩

/-! ## Part 2: refinement -/

/-! ### facts about componentwise related lists (`Forall₂ Rel ds rs`) -/

theorem isp_forall₂_length {ds : List DS} {rs : List RefDS} (h : Forall₂ Rel ds rs) :
    ds.length = rs.length := by
  induction h with
  | nil => rfl
  | cons _ _ ih => simp [ih]

theorem isp_forall₂_all_indexable {ds : List DS} {rs : List RefDS} (h : Forall₂ Rel ds rs) :
    ds.all (·.indexable) = rs.all (·.indexable) := by
  induction h with
  | nil => rfl
  | cons hr _ ih => simp only [List.all_cons, hr.indexable, ih]

theorem isp_forall₂_map_iter {ds : List DS} {rs : List RefDS} (h : Forall₂ Rel ds rs) :
    ds.map (·.iter) = rs.map (·.stream) := by
  induction h with
  | nil => rfl
  | cons hr _ ih => simp only [List.map_cons, hr.iter, ih]

theorem isp_forall₂_map_iterK {ds : List DS} {rs : List RefDS} (h : Forall₂ Rel ds rs) :
    ds.map (·.iterK) = rs.map (·.kstream) := by
  induction h with
  | nil => rfl
  | cons hr _ ih => simp only [List.map_cons, hr.iterK, ih]

theorem isp_forall₂_zeros {ds : List DS} {rs : List RefDS} (h : Forall₂ Rel ds rs) :
    ds.map (fun _ => 0) = rs.map (fun _ => 0) := by
  induction h with
  | nil => rfl
  | cons _ _ ih => simp only [List.map_cons, ih]

theorem isp_forall₂_mapM_keys {ds : List DS} {rs : List RefDS} (h : Forall₂ Rel ds rs) :
    ds.mapM (·.keys) = rs.mapM (·.keys) := by
  induction h with
  | nil => rfl
  | cons hr _ ih => simp only [List.mapM_cons, hr.keys, ih]

theorem isp_forall₂_allLens {ds : List DS} {rs : List RefDS} (h : Forall₂ Rel ds rs) :
    allLens ds = Ref.allLens rs := by
  induction h with
  | nil => rfl
  | cons hr _ ih => simp only [allLens, Ref.allLens, hr.len, ih]

/-- the parts at the same position are related -/
theorem isp_forall₂_getElem? {ds : List DS} {rs : List RefDS} (h : Forall₂ Rel ds rs) (i : Nat) (r : RefDS)
    (hr : rs[i]? = some r) : ∃ d, ds[i]? = some d ∧ Rel d r := by
  induction h generalizing i with
  | nil => simp at hr
  | @cons d0 r0 _ _ h0 _ ih =>
    cases i with
    | zero =>
      simp only [List.getElem?_cons_zero, Option.some.injEq] at hr
      subst hr
      exact ⟨d0, rfl, h0⟩
    | succ i =>
      simp only [List.getElem?_cons_succ] at hr ⊢
      exact ih i hr

theorem isp_all_indexable_mem {rs : List RefDS} (h : rs.all (·.indexable) = true) :
    ∀ r ∈ rs, r.indexable = true := by
  simpa using h

theorem isp_mapM_cons_ok {α β} (f : α → Res β) (a : α) (l : List α) (out : List β)
    (h : (a :: l).mapM f = .ok out) : ∃ b bs, f a = .ok b ∧ l.mapM f = .ok bs ∧ out = b :: bs := by
  simp only [List.mapM_cons] at h
  cases hfa : f a with
  | error e => rw [hfa] at h; cases h
  | ok b =>
    rw [hfa] at h
    cases hl : l.mapM f with
    | error e => rw [hl] at h; cases h
    | ok bs =>
      rw [hl] at h
      cases h
      exact ⟨b, bs, rfl, rfl, rfl⟩

/-- `mapM_ok` with `getElem?` -/
theorem isp_mapM_ok_getElem? {α β} (f : α → Res β) (l : List α) (out : List β) (h : l.mapM f = .ok out) :
    out.length = l.length ∧ ∀ (t : Nat) (a : α), l[t]? = some a → ∃ b, out[t]? = some b ∧ f a = .ok b := by
  obtain ⟨h1, h2⟩ := mapM_ok f l out h
  refine ⟨h1, ?_⟩
  intro t a ha
  obtain ⟨ht, rfl⟩ := List.getElem?_eq_some_iff.1 ha
  have ht' : t < out.length := by omega
  exact ⟨out[t], List.getElem?_eq_getElem ht', h2 t ht ht'⟩

theorem pyIndex_nat_ok_iff {α} (l : List α) (n : Nat) (v : α) :
    pyIndex l (n : Int) = .ok v ↔ l[n]? = some v := by
  rw [pyIndex_nat]
  cases l[n]? with
  | none => simp
  | some w => simp

/-- one key of the interspersed key table: `keys[e.d][e.j]` -/
theorem isp_keyAt_ok_iff (kss : List (List String)) (e : OrdEntry) (k : String) :
    (do let kl ← pyIndex kss (e.d : Int); pyIndex kl (e.j : Int)) = (Except.ok k : Res String) ↔
      ∃ kl, kss[e.d]? = some kl ∧ kl[e.j]? = some k := by
  cases h : pyIndex kss (e.d : Int) with
  | error er =>
    simp only [error_bind]
    constructor
    · intro hc; cases hc
    · rintro ⟨kl, h1, _⟩
      rw [(pyIndex_nat_ok_iff kss e.d kl).2 h1] at h
      cases h
  | ok kl =>
    rw [ok_bind, pyIndex_nat_ok_iff]
    have h' := (pyIndex_nat_ok_iff kss e.d kl).1 h
    constructor
    · intro hk; exact ⟨kl, h', hk⟩
    · rintro ⟨kl', h1, h2⟩
      rw [h'] at h1
      injection h1 with h1
      subst h1
      exact h2

/-- when the interspersed key table exists: the parts' tables exist, the table lists `keys[e.d][e.j]`
    along the order, and it is duplicate-free -/
theorem isp_ref_keys_ok {rs : List RefDS} {order : List OrdEntry} {ks : List String}
    (h : (Ref.intersperse rs order).keys = .ok ks) :
    ∃ kss, rs.mapM (·.keys) = .ok kss ∧
      order.mapM (fun e => do let kl ← pyIndex kss (e.d : Int); pyIndex kl (e.j : Int)) = .ok ks ∧
      ks.Nodup := by
  simp only [Ref.intersperse] at h
  cases hm : rs.mapM (·.keys) with
  | error e => rw [hm] at h; cases h
  | ok kss =>
    rw [hm, ok_bind] at h
    cases ho : order.mapM (fun e => do let kl ← pyIndex kss (e.d : Int); pyIndex kl (e.j : Int)) with
    | error e => rw [ho] at h; cases h
    | ok ks' =>
      rw [ho, ok_bind] at h
      cases hd : hasDup ks' with
      | true => rw [hd] at h; cases h
      | false =>
        rw [hd] at h
        simp only [Bool.false_eq_true, if_false] at h
        injection h with h
        subst h
        exact ⟨kss, rfl, ho, (hasDup_eq_false_iff _).1 hd⟩

theorem isp_keys_eq {ds : List DS} {rs : List RefDS} (h : Forall₂ Rel ds rs) (order : List OrdEntry) :
    intersperseKeys ds order = (Ref.intersperse rs order).keys := by
  simp only [intersperseKeys, Ref.intersperse, isp_forall₂_mapM_keys h]

/-- `for dataset in input_datasets: if item in dataset.keys(): return dataset[item]` stops at part `i`
    when `i` is the first part whose key table lists `k` -/
theorem isp_firstWithKey {ds : List DS} {rs : List RefDS} (h : Forall₂ Rel ds rs)
    (kss : List (List String)) (hm : rs.mapM (·.keys) = .ok kss) (i : Nat) (k : String)
    (kl : List String) (hki : kss[i]? = some kl) (hmem : k ∈ kl)
    (hbefore : ∀ i', i' < i → ∀ kl', kss[i']? = some kl' → k ∉ kl') :
    ∃ d, ds[i]? = some d ∧ firstWithKey ds k = some (d.getKey k) := by
  induction h generalizing kss i with
  | nil =>
    simp only [List.mapM_nil] at hm
    cases hm
    simp at hki
  | @cons d r ds rs hr _ ih =>
    obtain ⟨b, bs, hb, hbs, rfl⟩ := isp_mapM_cons_ok _ _ _ _ hm
    simp only [firstWithKey, hr.keys, hb]
    cases i with
    | zero =>
      simp only [List.getElem?_cons_zero, Option.some.injEq] at hki
      subst hki
      have hc : b.contains k = true := by simpa using hmem
      simp only [hc, if_true]
      exact ⟨d, rfl, rfl⟩
    | succ i =>
      simp only [List.getElem?_cons_succ] at hki
      have hnot : k ∉ b := hbefore 0 (by omega) b rfl
      have hc : b.contains k = false := by
        cases hcc : b.contains k with
        | false => rfl
        | true => exact absurd (by simpa using hcc) hnot
      simp only [hc, Bool.false_eq_true, if_false, List.getElem?_cons_succ]
      exact ih bs hbs i hki (fun i' hi' kl' hkl' => hbefore (i' + 1) (by omega) kl' (by simpa using hkl'))

/-! ### `IntersperseDataset` refines the positional selection along the order table -/

/-- Besides the two range conditions on the table, `getKey` needs that the table *covers* the parts:
    every position of every part occurs in the table (see `rel_intersperse_counterexample`).
    `intersperseOrder lens` has all three properties (`rel_mkIntersperse`). -/
theorem rel_intersperse {ds : List DS} {rs : List RefDS} {order : List OrdEntry}
    (h : Forall₂ Rel ds rs)
    (hord : ∀ e ∈ order, e.d < rs.length ∧
      (∀ r, rs[e.d]? = some r → r.indexable = true → e.j < r.outs.length))
    (hcov : ∀ i r, rs[i]? = some r → r.indexable = true → ∀ j, j < r.outs.length →
      ∃ e ∈ order, e.d = i ∧ e.j = j) :
    Rel (intersperseDS ds order) (Ref.intersperse rs order) := by
  -- the part an entry points to, on both sides
  have hpart : ∀ e ∈ order, ∃ d r, ds[e.d]? = some d ∧ rs[e.d]? = some r ∧ Rel d r := by
    intro e he
    have hlt := (hord e he).1
    obtain ⟨d, hd, hrel⟩ := isp_forall₂_getElem? h e.d rs[e.d] (List.getElem?_eq_getElem hlt)
    exact ⟨d, _, hd, List.getElem?_eq_getElem hlt, hrel⟩
  refine
    { indexable := isp_forall₂_all_indexable h, len := rfl, keys := isp_keys_eq h order,
      iter := ?_, iterK := ?_, idx := ?_, noIdxErr := ?_, keysLen := ?_, getKey := ?_ }
  · simp only [intersperseDS, Ref.intersperse, isp_forall₂_map_iter h, isp_forall₂_zeros h]
  · simp only [intersperseDS, Ref.intersperse, isp_forall₂_map_iterK h, isp_forall₂_zeros h]
  · intro hix
    have hi := isp_all_indexable_mem hix
    refine ⟨by simp [Ref.intersperse], ?_⟩
    intro i
    simp only [intersperseDS, Ref.intersperse, outAt, pyIndex_map]
    cases hp : pyIndex order i with
    | error er => rfl
    | ok e =>
      have he : e ∈ order := pyIndex_ok_mem order i e hp
      obtain ⟨d, r, hd, hr, hrel⟩ := hpart e he
      have hpd : pyIndex ds (e.d : Int) = .ok d := (pyIndex_nat_ok_iff ds e.d d).2 hd
      simp only [ok_bind, hpd, Except.map, hr]
      exact (hrel.idx (hi r (List.mem_of_getElem? hr))).2 e.j
  · intro hix o ho
    have hi := isp_all_indexable_mem hix
    simp only [Ref.intersperse, List.mem_map] at ho
    obtain ⟨e, he, rfl⟩ := ho
    obtain ⟨d, r, hd, hr, hrel⟩ := hpart e he
    have hri := hi r (List.mem_of_getElem? hr)
    have hj := (hord e he).2 r hr hri
    simp only [hr]
    rw [outAt_lt r.outs e.j hj]
    exact hrel.noIdxErr hri _ (List.getElem_mem hj)
  · intro _ ks hk
    obtain ⟨kss, _, ho, _⟩ := isp_ref_keys_ok hk
    simp only [Ref.intersperse, List.length_map]
    exact (mapM_ok _ order ks ho).1
  · intro hix ks hk j hj
    have hi := isp_all_indexable_mem hix
    obtain ⟨kss, hm, ho, hnd⟩ := isp_ref_keys_ok hk
    obtain ⟨hlen, hget⟩ := mapM_ok _ order ks ho
    obtain ⟨hkl, hkget⟩ := isp_mapM_ok_getElem? _ rs kss hm
    have hjo : j < order.length := by omega
    have he : order[j] ∈ order := List.getElem_mem hjo
    obtain ⟨d, r, hd, hr, hrel⟩ := hpart _ he
    have hri := hi r (List.mem_of_getElem? hr)
    -- the key at position `j` is `keys[e.d][e.j]`
    obtain ⟨kl, hkl1, hkl2⟩ := (isp_keyAt_ok_iff kss order[j] ks[j]).1 (hget j hjo hj)
    obtain ⟨kl0, hkl0, hrk⟩ := hkget _ r hr
    rw [hkl1] at hkl0
    injection hkl0 with hkl0
    subst hkl0
    obtain ⟨hjl, hkj⟩ := List.getElem?_eq_some_iff.1 hkl2
    -- no earlier part lists that key
    have hbefore : ∀ i', i' < order[j].d → ∀ kl', kss[i']? = some kl' → ks[j] ∉ kl' := by
      intro i' hi' kl' hkl' hmem
      obtain ⟨j', hj', hkj'⟩ := List.getElem_of_mem hmem
      have hi'lt : i' < rs.length := by
        rw [← hkl]; exact (List.getElem?_eq_some_iff.1 hkl').1
      obtain ⟨kl'', hkl'', hrk'⟩ := hkget i' rs[i'] (List.getElem?_eq_getElem hi'lt)
      rw [hkl'] at hkl''
      injection hkl'' with hkl''
      subst hkl''
      obtain ⟨d', _, hrel'⟩ := isp_forall₂_getElem? h i' rs[i'] (List.getElem?_eq_getElem hi'lt)
      have hri' := hi rs[i'] (List.getElem_mem hi'lt)
      have hlen' : kl'.length = rs[i'].outs.length := hrel'.keysLen hri' kl' hrk'
      obtain ⟨e', he', hd', hj''⟩ := hcov i' rs[i'] (List.getElem?_eq_getElem hi'lt) hri' j' (by omega)
      obtain ⟨t', ht', hte'⟩ := List.getElem_of_mem he'
      have ht'k : t' < ks.length := by omega
      obtain ⟨kl2, hk21, hk22⟩ := (isp_keyAt_ok_iff kss order[t'] ks[t']).1 (hget t' ht' ht'k)
      rw [hte', hd', hkl'] at hk21
      injection hk21 with hk21
      subst hk21
      rw [hte', hj'', List.getElem?_eq_getElem hj'] at hk22
      injection hk22 with hk22
      have : ks[t'] = ks[j] := by rw [← hk22, hkj']
      have htj : t' = j := (List.getElem_inj hnd).1 this
      subst htj
      rw [hte'] at hi'
      omega
    obtain ⟨d2, hd2, hfw⟩ := isp_firstWithKey h kss hm order[j].d ks[j] kl hkl1
      (by rw [← hkj]; exact List.getElem_mem hjl) hbefore
    rw [hd] at hd2
    injection hd2 with hd2
    subst hd2
    have hkeys : intersperseKeys ds order = .ok ks := (isp_keys_eq h order).trans hk
    simp only [intersperseDS, hkeys, ok_bind, hfw]
    rw [← hkj, hrel.getKey hri kl hrk order[j].j hjl]
    simp only [Ref.intersperse]
    rw [outAt_lt _ j (by simpa using hjo)]
    simp only [List.getElem_map, hr]

/-- naming convention of this development for "the statement as first written is false
    (`rel_intersperse_counterexample`), this is the strongest true variant" -/
theorem rel_intersperse_partial {ds : List DS} {rs : List RefDS} {order : List OrdEntry}
    (h : Forall₂ Rel ds rs)
    (hord : ∀ e ∈ order, e.d < rs.length ∧
      (∀ r, rs[e.d]? = some r → r.indexable = true → e.j < r.outs.length))
    (hcov : ∀ i r, rs[i]? = some r → r.indexable = true → ∀ j, j < r.outs.length →
      ∃ e ∈ order, e.d = i ∧ e.j = j) :
    Rel (intersperseDS ds order) (Ref.intersperse rs order) :=
  rel_intersperse h hord hcov

/-! ### `IntersperseDataset.__init__` -/

theorem isp_ref_allLens {rs : List RefDS} {lens : List Nat} (h : Ref.allLens rs = .ok lens) :
    ∀ (i : Nat) (r : RefDS), rs[i]? = some r → ∃ n, lens[i]? = some n ∧ r.len = .ok n := by
  induction rs generalizing lens with
  | nil => intro i r hr; simp at hr
  | cons r0 rs ih =>
    simp only [Ref.allLens] at h
    cases h0 : r0.len with
    | error e => rw [h0] at h; cases h
    | ok a =>
      rw [h0] at h
      cases h1 : Ref.allLens rs with
      | error e => rw [h1] at h; cases h
      | ok as =>
        rw [h1] at h
        cases h
        intro i r hr
        cases i with
        | zero =>
          simp only [List.getElem?_cons_zero, Option.some.injEq] at hr
          subst hr
          exact ⟨a, rfl, h0⟩
        | succ i =>
          simp only [List.getElem?_cons_succ] at hr ⊢
          exact ih h1 i r hr

theorem isp_ref_allLens_length {rs : List RefDS} {lens : List Nat} (h : Ref.allLens rs = .ok lens) :
    lens.length = rs.length := by
  induction rs generalizing lens with
  | nil => simp only [Ref.allLens] at h; cases h; rfl
  | cons r0 rs ih =>
    simp only [Ref.allLens] at h
    cases h0 : r0.len with
    | error e => rw [h0] at h; cases h
    | ok a =>
      rw [h0] at h
      cases h1 : Ref.allLens rs with
      | error e => rw [h1] at h; cases h
      | ok as =>
        rw [h1] at h
        cases h
        simp [ih h1]

/-- the table built from the reported lengths satisfies the side conditions of `rel_intersperse` -/
theorem rel_intersperse_order {ds : List DS} {rs : List RefDS} {lens : List Nat}
    (h : Forall₂ Rel ds rs) (hl : Ref.allLens rs = .ok lens) :
    Rel (intersperseDS ds (intersperseOrder lens)) (Ref.intersperse rs (intersperseOrder lens)) := by
  have hlen := isp_ref_allLens_length hl
  have hlens := isp_ref_allLens hl
  -- an indexable part reports the number of its positions
  have hn : ∀ (i : Nat) (r : RefDS), rs[i]? = some r → r.indexable = true →
      lens[i]? = some r.outs.length := by
    intro i r hr hri
    obtain ⟨n, h1, h2⟩ := hlens i r hr
    obtain ⟨d, _, hrel⟩ := isp_forall₂_getElem? h i r hr
    rw [(hrel.idx hri).1] at h2
    injection h2 with h2
    rw [h1, h2]
  apply rel_intersperse h
  · intro e he
    obtain ⟨h1, h2, _⟩ := mem_order.1 he
    refine ⟨?_, ?_⟩
    · rw [← hlen]; exact (List.getElem?_eq_some_iff.1 h1).1
    · intro r hr hri
      rw [hn e.d r hr hri] at h1
      injection h1 with h1
      omega
  · intro i r hr hri j hj
    refine ⟨⟨j + 1, r.outs.length, i, j⟩, ?_, rfl, rfl⟩
    rw [mem_order]
    exact ⟨hn i r hr hri, hj, rfl⟩

theorem rel_mkIntersperse {ds : List DS} {rs : List RefDS} {d : DS} (h : Forall₂ Rel ds rs)
    (hm : mkIntersperse ds = .ok d) : ∃ r, Ref.mkIntersperse rs = .ok r ∧ Rel d r := by
  cases h with
  | nil => cases hm
  | @cons d0 r0 ds' rs' hr ht =>
    have h : Forall₂ Rel (d0 :: ds') (r0 :: rs') := .cons hr ht
    have hal := isp_forall₂_allLens h
    simp only [mkIntersperse, List.isEmpty_cons, Bool.false_eq_true, if_false] at hm
    simp only [Ref.mkIntersperse, List.isEmpty_cons, Bool.false_eq_true, if_false, ← hal]
    cases hl : allLens (d0 :: ds') with
    | error e => rw [hl] at hm; cases hm
    | ok lens =>
      rw [hl] at hm
      simp only [bind, Except.bind] at hm ⊢
      cases hz : lens.any (· == 0) with
      | true => rw [hz] at hm; cases hm
      | false =>
        rw [hz] at hm
        cases hm
        exact ⟨_, rfl, rel_intersperse_order h (hal ▸ hl)⟩

/-! ### why `rel_intersperse` needs the coverage hypothesis

  `IntersperseDataset.__getitem__(str)` asks the parts in turn (`firstWithKey`) and does not look at the
  order table.  With a table that leaves out a position whose key also occurs in a later, listed,
  position, the key table of the interspersed dataset is duplicate-free, yet the lookup answers from the
  part that is NOT in the table.  (`intersperseOrder` always lists every position, so the Python class
  is not affected.) -/

def ispCexDs : List DS := [dictSrc [("x", .int 1)], dictSrc [("x", .int 2)]]
def ispCexRs : List RefDS := [Ref.dictSrc [("x", .int 1)], Ref.dictSrc [("x", .int 2)]]
def ispCexOrder : List OrdEntry := [⟨1, 1, 1, 0⟩]

theorem rel_intersperse_counterexample :
    Forall₂ Rel ispCexDs ispCexRs ∧
    (∀ e ∈ ispCexOrder, e.d < ispCexRs.length ∧
      (∀ r, ispCexRs[e.d]? = some r → r.indexable = true → e.j < r.outs.length)) ∧
    (Ref.intersperse ispCexRs ispCexOrder).indexable = true ∧
    (Ref.intersperse ispCexRs ispCexOrder).keys = .ok ["x"] ∧
    (intersperseDS ispCexDs ispCexOrder).getKey "x" = .ok (.int 1) ∧
    outAt (Ref.intersperse ispCexRs ispCexOrder).outs 0 = .ok (.int 2) ∧
    ¬ Rel (intersperseDS ispCexDs ispCexOrder) (Ref.intersperse ispCexRs ispCexOrder) := by
  have hk : (Ref.intersperse ispCexRs ispCexOrder).keys = .ok ["x"] := rfl
  have hg : (intersperseDS ispCexDs ispCexOrder).getKey "x" = .ok (.int 1) := rfl
  have ho : outAt (Ref.intersperse ispCexRs ispCexOrder).outs 0 = .ok (.int 2) := rfl
  refine ⟨?_, ?_, rfl, hk, hg, ho, ?_⟩
  · exact .cons (rel_dictSrc _ (by simp)) (.cons (rel_dictSrc _ (by simp)) .nil)
  · intro e he
    simp only [ispCexOrder, List.mem_singleton] at he
    subst he
    refine ⟨by simp [ispCexRs], ?_⟩
    intro r hr _
    simp only [ispCexRs, List.getElem?_cons_succ, List.getElem?_cons_zero, Option.some.injEq] at hr
    subst hr
    simp [Ref.dictSrc]
  · intro hrel
    have := hrel.getKey rfl ["x"] hk 0 (by simp)
    simp only [List.getElem_cons_zero] at this
    rw [hg] at this
    have ho' : outAt (Ref.intersperse ispCexRs ispCexOrder).outs ((0 : Nat) : Int) = .ok (.int 2) := ho
    rw [ho'] at this
    cases this

/-! ### `KeyZipDataset` -/

/-- one row of the reference: the tuple of the parts' examples stored under `k` -/
def kzRow (rs : List RefDS) (k : String) : Res Val := do
  let row ← rs.mapM (fun r => Ref.lookup r k)
  .ok (.tup row)

def kzRowK (rs : List RefDS) (k : String) : Res (String × Val) := do
  let row ← rs.mapM (fun r => Ref.lookup r k)
  .ok (k, Val.tup row)

theorem kzRowK_eq (rs : List RefDS) (k : String) :
    kzRowK rs k = (kzRow rs k >>= fun v => .ok (k, v)) := by
  unfold kzRowK kzRow
  cases rs.mapM (fun r => Ref.lookup r k) <;> rfl

theorem kz_outs (r0 : RefDS) (rs' : List RefDS) (ks0 : List String) (hk : r0.keys = .ok ks0) :
    (Ref.keyZip (r0 :: rs')).outs = ks0.map (kzRow (r0 :: rs')) := by
  simp only [Ref.keyZip, List.head!, hk]
  rfl

theorem kz_stream (r0 : RefDS) (rs' : List RefDS) (ks0 : List String) (hk : r0.keys = .ok ks0) :
    (Ref.keyZip (r0 :: rs')).stream = .ofOuts (ks0.map (kzRow (r0 :: rs'))) := by
  simp only [Ref.keyZip, List.head!, hk]
  rfl

theorem kz_kstream (r0 : RefDS) (rs' : List RefDS) (ks0 : List String) (hk : r0.keys = .ok ks0) :
    (Ref.keyZip (r0 :: rs')).kstream = .ofOuts (ks0.map (kzRowK (r0 :: rs'))) := by
  simp only [Ref.keyZip, List.head!, hk]
  rfl

/-- looking up a listed key: the model's `getKey` is the reference's `lookup` -/
theorem kz_getKey_lookup {d : DS} {r : RefDS} (h : Rel d r) (hi : r.indexable = true)
    (ks : List String) (hk : r.keys = .ok ks) (k : String) (hmem : k ∈ ks) :
    d.getKey k = Ref.lookup r k := by
  unfold Ref.lookup
  rw [hk]
  simp only
  cases hf : ks.findIdx? (· == k) with
  | none =>
    rw [List.findIdx?_eq_none_iff] at hf
    have := hf k hmem
    simp at this
  | some j =>
    rw [List.findIdx?_eq_some_iff_getElem] at hf
    obtain ⟨hj, hp, _⟩ := hf
    have hkj : ks[j] = k := by simpa using hp
    have := h.getKey hi ks hk j hj
    rw [hkj] at this
    exact this

theorem kz_lookup_noIdxErr {d : DS} {r : RefDS} (h : Rel d r) (hi : r.indexable = true)
    (ks : List String) (hk : r.keys = .ok ks) (k : String) (hmem : k ∈ ks) :
    Ref.lookup r k ≠ .error .indexError := by
  unfold Ref.lookup
  rw [hk]
  simp only
  cases hf : ks.findIdx? (· == k) with
  | none =>
    rw [List.findIdx?_eq_none_iff] at hf
    have := hf k hmem
    simp at this
  | some j =>
    rw [List.findIdx?_eq_some_iff_getElem] at hf
    obtain ⟨hj, _, _⟩ := hf
    have hlen := h.keysLen hi ks hk
    simp only
    rw [outAt_lt r.outs j (by omega)]
    exact h.noIdxErr hi _ (List.getElem_mem _)

theorem kz_mapM_eq {ds : List DS} {rs : List RefDS} (h : Forall₂ Rel ds rs)
    (hi : ∀ r ∈ rs, r.indexable = true) (kss : List (List String)) (hm : rs.mapM (·.keys) = .ok kss)
    (k : String) (hk : ∀ kl ∈ kss, k ∈ kl) :
    ds.mapM (fun d => d.getKey k) = rs.mapM (fun r => Ref.lookup r k) := by
  induction h generalizing kss with
  | nil => rfl
  | @cons d r ds rs hr _ ih =>
    obtain ⟨b, bs, hb, hbs, rfl⟩ := isp_mapM_cons_ok _ _ _ _ hm
    simp only [List.mapM_cons]
    rw [kz_getKey_lookup hr (hi r (by simp)) b hb k (hk b (by simp)),
      ih (fun r' hr' => hi r' (by simp [hr'])) bs hbs (fun kl hkl => hk kl (by simp [hkl]))]

theorem sameKeySets_mem {kss : List (List String)} (h : sameKeySets kss = true) :
    ∀ kl ∈ kss, ∀ kl' ∈ kss, ∀ k ∈ kl', k ∈ kl := by
  intro kl hkl kl' hkl' k hk
  simp only [sameKeySets, List.all_eq_true, List.contains_iff_mem] at h
  exact h kl hkl k (List.mem_flatten.2 ⟨kl', hkl', hk⟩)

theorem outAt_map_of_mem {α} (l : List α) (f g : α → Res Val) (i : Int)
    (h : ∀ a, pyIndex l i = .ok a → f a = g a) :
    (do let a ← pyIndex l i; f a) = outAt (l.map g) i := by
  unfold outAt
  rw [pyIndex_map]
  cases hp : pyIndex l i with
  | error e => rfl
  | ok a => simp only [ok_bind, Except.map]; exact h a hp

/-- keyZip of a non-empty list of indexable parts with the same key sets -/
theorem rel_keyZip_cons {d0 : DS} {r0 : RefDS} {ds' : List DS} {rs' : List RefDS}
    (hr : Rel d0 r0) (ht : Forall₂ Rel ds' rs')
    (hi : ∀ r ∈ r0 :: rs', r.indexable = true)
    (hk : ∃ kss, (r0 :: rs').mapM (·.keys) = .ok kss ∧ sameKeySets kss = true) :
    Rel (keyZipDS (d0 :: ds')) (Ref.keyZip (r0 :: rs')) := by
  have h : Forall₂ Rel (d0 :: ds') (r0 :: rs') := .cons hr ht
  obtain ⟨kss, hm, hsame⟩ := hk
  obtain ⟨ks0, kss', hk0, hkss', rfl⟩ := isp_mapM_cons_ok _ _ _ _ hm
  have hi0 := hi r0 (by simp)
  have hdk0 : d0.keys = .ok ks0 := hr.keys.trans hk0
  -- every key of the first table is listed by every part
  have hall : ∀ k ∈ ks0, ∀ kl ∈ ks0 :: kss', k ∈ kl := by
    intro k hk kl hkl
    exact sameKeySets_mem hsame kl hkl ks0 (by simp) k hk
  -- the key step: one row of the model is one row of the reference
  have hrow : ∀ k ∈ ks0, tupleGet (d0 :: ds') (fun d => d.getKey k) = kzRow (r0 :: rs') k := by
    intro k hk
    simp only [tupleGet, kzRow, kz_mapM_eq h hi _ hm k (hall k hk)]
  have hrowK : ∀ k ∈ ks0,
      (do let v ← tupleGet (d0 :: ds') (fun d => d.getKey k); (Except.ok (k, v) : Res (String × Val)))
        = kzRowK (r0 :: rs') k := by
    intro k hk
    rw [kzRowK_eq, hrow k hk]
  have hlen0 : ks0.length = r0.outs.length := hr.keysLen hi0 ks0 hk0
  refine
    { indexable := isp_forall₂_all_indexable h, len := hr.len, keys := hr.keys,
      iter := ?_, iterK := ?_, idx := ?_, noIdxErr := ?_, keysLen := ?_, getKey := ?_ }
  · rw [kz_stream r0 rs' ks0 hk0]
    simp only [keyZipDS, List.head!, hdk0, keyZipOuts]
    congr 1
    exact List.map_congr_left hrow
  · rw [kz_kstream r0 rs' ks0 hk0]
    simp only [keyZipDS, List.head!, hdk0]
    congr 1
    exact List.map_congr_left hrowK
  · intro _
    rw [kz_outs r0 rs' ks0 hk0]
    refine ⟨?_, ?_⟩
    · simp only [List.length_map, hlen0]
      exact (hr.idx hi0).1
    · intro i
      simp only [keyZipDS, List.head!, hdk0, ok_bind]
      apply outAt_map_of_mem
      intro k hk
      exact hrow k (pyIndex_ok_mem ks0 i k hk)
  · intro _ o ho
    rw [kz_outs r0 rs' ks0 hk0] at ho
    simp only [List.mem_map] at ho
    obtain ⟨k, hk, rfl⟩ := ho
    intro hbad
    unfold kzRow at hbad
    cases hmm : (r0 :: rs').mapM (fun r => Ref.lookup r k) with
    | ok row => rw [hmm] at hbad; cases hbad
    | error e =>
      rw [hmm] at hbad
      have he : e = .indexError := by
        simp only [error_bind] at hbad
        injection hbad
      subst he
      -- some part's lookup is the IndexError
      have : ∀ (rs : List RefDS), rs.mapM (fun r => Ref.lookup r k) = .error .indexError →
          ∃ r ∈ rs, Ref.lookup r k = .error .indexError := by
        intro rs
        induction rs with
        | nil => intro hc; simp only [List.mapM_nil] at hc; cases hc
        | cons a l ih =>
          intro hc
          simp only [List.mapM_cons] at hc
          cases hfa : Ref.lookup a k with
          | error e' =>
            rw [hfa] at hc
            cases hc
            exact ⟨a, by simp, hfa⟩
          | ok b =>
            rw [hfa] at hc
            cases hl : l.mapM (fun r => Ref.lookup r k) with
            | error e' =>
              rw [hl] at hc
              cases hc
              obtain ⟨a', ha', hf'⟩ := ih hl
              exact ⟨a', by simp [ha'], hf'⟩
            | ok bs => rw [hl] at hc; cases hc
      obtain ⟨r, hrmem, hlook⟩ := this _ hmm
      obtain ⟨t, ht, hrt⟩ := List.getElem_of_mem hrmem
      obtain ⟨d, _, hrel⟩ := isp_forall₂_getElem? h t r (by rw [← hrt]; exact List.getElem?_eq_getElem ht)
      obtain ⟨_, hkget⟩ := isp_mapM_ok_getElem? _ _ _ hm
      obtain ⟨kl, hkl, hrk⟩ := hkget t r (by rw [← hrt]; exact List.getElem?_eq_getElem ht)
      exact kz_lookup_noIdxErr hrel (hi r hrmem) kl hrk k
        (hall k hk kl (List.mem_of_getElem? hkl)) hlook
  · intro _ ks hks
    have hks' : r0.keys = .ok ks := hks
    rw [hk0] at hks'
    injection hks' with hks'
    subst hks'
    rw [kz_outs r0 rs' ks0 hk0]
    simp
  · intro _ ks hks j hj
    have hks' : r0.keys = .ok ks := hks
    rw [hk0] at hks'
    injection hks' with hks'
    subst hks'
    rw [kz_outs r0 rs' ks0 hk0, outAt_lt _ j (by simpa using hj)]
    simp only [keyZipDS, List.getElem_map]
    exact hrow _ (List.getElem_mem hj)

theorem rel_keyZip {ds : List DS} {rs : List RefDS} (h : Forall₂ Rel ds rs) (h2 : 2 ≤ ds.length)
    (hi : ∀ r ∈ rs, r.indexable = true)
    (hk : ∃ kss, rs.mapM (·.keys) = .ok kss ∧ sameKeySets kss = true) :
    Rel (keyZipDS ds) (Ref.keyZip rs) := by
  cases h with
  | nil => simp at h2
  | cons hr ht => exact rel_keyZip_cons hr ht hi hk

/-- `KeyZipDataset.__init__`: at least two parts, all with key tables, with the same key sets -/
theorem rel_mkKeyZip {ds : List DS} {rs : List RefDS} {d : DS} (h : Forall₂ Rel ds rs)
    (hi : ∀ r ∈ rs, r.indexable = true) (hm : mkKeyZip ds = .ok d) :
    ∃ r, Ref.mkKeyZip rs = .ok r ∧ Rel d r := by
  unfold mkKeyZip at hm
  unfold Ref.mkKeyZip
  rw [isp_forall₂_mapM_keys h] at hm
  rw [← isp_forall₂_length h]
  by_cases hlt : ds.length < 2
  · simp [hlt, bind, Except.bind, throw, throwThe, MonadExceptOf.throw] at hm
  · simp only [hlt, if_false] at hm ⊢
    cases hkss : rs.mapM (·.keys) with
    | error e => rw [hkss] at hm; cases hm
    | ok kss =>
      rw [hkss] at hm
      simp only [bind, Except.bind] at hm ⊢
      cases hs : sameKeySets kss with
      | false => rw [hs] at hm; cases hm
      | true =>
        rw [hs] at hm
        cases hm
        exact ⟨_, rfl, rel_keyZip h (by omega) hi ⟨kss, hkss, hs⟩⟩

/-! ## Part 3: well-formedness of the references (C02 / C03 on the eager data) -/

/-! ### generic facts about `Stream.ofOuts` -/

theorem isp_ofOuts_spec {α} : ∀ (l : List (Res α)),
    (Stream.ofOuts l).vals.length ≤ l.length ∧
    (∀ (t : Nat) (v : α), (Stream.ofOuts l).vals[t]? = some v → l[t]? = some (.ok v)) ∧
    ((Stream.ofOuts l).err = none → (Stream.ofOuts l).vals.length = l.length)
  | [] => by simp [Stream.ofOuts]
  | .error e :: rest => by simp [Stream.ofOuts]
  | .ok a :: rest => by
    obtain ⟨h1, h2, h3⟩ := isp_ofOuts_spec rest
    simp only [Stream.ofOuts, List.length_cons]
    refine ⟨by omega, ?_, fun h => by rw [h3 h]⟩
    intro t v hv
    cases t with
    | zero =>
      simp only [List.getElem?_cons_zero, Option.some.injEq] at hv ⊢
      rw [hv]
    | succ t =>
      simp only [List.getElem?_cons_succ] at hv ⊢
      exact h2 t v hv

/-- the t-th value yielded by `ofOuts l` is the t-th outcome of `l` -/
theorem isp_ofOuts_pos {α} (l : List (Res α)) (t : Nat) (h : t < (Stream.ofOuts l).vals.length) :
    l[t]? = some (.ok (Stream.ofOuts l).vals[t]) :=
  (isp_ofOuts_spec l).2.1 t _ (List.getElem?_eq_getElem h)

/-- C02 (`RefWF.pos`) for every reference whose iteration is "evaluate the positions in turn" -/
theorem isp_wf_of_ofOuts (r : RefDS) (h : r.stream = .ofOuts r.outs) :
    r.stream.vals.length ≤ r.outs.length ∧
    (∀ (t : Nat) (h : t < r.stream.vals.length), r.outs[t]? = some (.ok r.stream.vals[t])) ∧
    (r.stream.err = none → r.stream.vals.length = r.outs.length) := by
  obtain ⟨ix, outs, stream, kstream, keys, len⟩ := r
  simp only at h
  subst h
  exact ⟨(isp_ofOuts_spec outs).1, fun t ht => isp_ofOuts_pos outs t ht, (isp_ofOuts_spec outs).2.2⟩

/-- evaluating `k ↦ (k, g k)` along a key list: same end, same values, keys in list order -/
theorem isp_ofOuts_keyed {α} (g : String → Res α) : ∀ (l : List String),
    (Stream.ofOuts (l.map (fun k => g k >>= fun v => (Except.ok (k, v) : Res (String × α))))).err
      = (Stream.ofOuts (l.map g)).err ∧
    (Stream.ofOuts (l.map (fun k => g k >>= fun v => (Except.ok (k, v) : Res (String × α))))).vals.map (·.2)
      = (Stream.ofOuts (l.map g)).vals ∧
    (Stream.ofOuts (l.map (fun k => g k >>= fun v => (Except.ok (k, v) : Res (String × α))))).vals.map (·.1)
      = l.take (Stream.ofOuts (l.map (fun k => g k >>= fun v => (Except.ok (k, v) : Res (String × α))))).vals.length
  | [] => by simp [Stream.ofOuts]
  | k :: l => by
    obtain ⟨h1, h2, h3⟩ := isp_ofOuts_keyed g l
    cases hg : g k with
    | error e => simp [Stream.ofOuts, hg, error_bind]
    | ok v =>
      simp only [List.map_cons, hg, ok_bind, Stream.ofOuts, List.length_cons, List.take_succ_cons]
      exact ⟨h1, by rw [h2], by rw [← h3]⟩

/-! ### generic facts about `intersperseRun` -/

/-- the interleaving commutes with mapping the yielded values -/
theorem isp_run_map {α β} (f : α → β) (ks : List (Stream α)) : ∀ (order : List OrdEntry) (pos : List Nat),
    intersperseRun (ks.map (fun k => (⟨k.vals.map f, k.err⟩ : Stream β))) order pos
      = ⟨(intersperseRun ks order pos).vals.map f, (intersperseRun ks order pos).err⟩
  | [], pos => by simp [intersperseRun, Stream.nil]
  | e :: rest, pos => by
    simp only [intersperseRun, List.getElem?_map]
    cases hk : ks[e.d]? with
    | none => simp [Stream.fail]
    | some k =>
      cases hp : pos[e.d]? with
      | none => simp [Stream.fail]
      | some p =>
        simp only [Option.map_some, List.getElem?_map]
        cases hv : k.vals[p]? with
        | none =>
          cases he : k.err <;> simp [Stream.fail]
        | some v =>
          simp only [Option.map_some, Stream.cons, isp_run_map f ks rest]
          simp

/-- if every stream of `ks`, mapped by `f`, is a prefix of the corresponding stream of `ss`
    (complete when it ends normally), the same holds for the interleavings -/
theorem isp_run_sim {α β} (f : α → β) (ks : List (Stream α)) (ss : List (Stream β))
    (hlen : ks.length = ss.length)
    (h : ∀ (i : Nat) (k : Stream α) (s : Stream β), ks[i]? = some k → ss[i]? = some s →
      k.vals.map f <+: s.vals ∧ (k.err = none → k.vals.map f = s.vals ∧ s.err = none)) :
    ∀ (order : List OrdEntry) (pos : List Nat),
      (intersperseRun ks order pos).vals.map f <+: (intersperseRun ss order pos).vals ∧
      ((intersperseRun ks order pos).err = none →
        (intersperseRun ks order pos).vals.map f = (intersperseRun ss order pos).vals ∧
        (intersperseRun ss order pos).err = none)
  | [], pos => by simp [intersperseRun, Stream.nil]
  | e :: rest, pos => by
    have hfail : ∀ er, intersperseRun ks (e :: rest) pos = .fail er →
        (intersperseRun ks (e :: rest) pos).vals.map f <+: (intersperseRun ss (e :: rest) pos).vals ∧
        ((intersperseRun ks (e :: rest) pos).err = none →
          (intersperseRun ks (e :: rest) pos).vals.map f = (intersperseRun ss (e :: rest) pos).vals ∧
          (intersperseRun ss (e :: rest) pos).err = none) := by
      intro er hr
      rw [hr]
      simp [Stream.fail]
    cases hk : ks[e.d]? with
    | none =>
      apply hfail .indexError
      simp only [intersperseRun, hk]
    | some k =>
      have hd : e.d < ss.length := hlen ▸ (List.getElem?_eq_some_iff.1 hk).1
      have hs : ss[e.d]? = some ss[e.d] := List.getElem?_eq_getElem hd
      cases hp : pos[e.d]? with
      | none =>
        apply hfail .indexError
        simp only [intersperseRun, hk, hp]
      | some p =>
        cases hv : k.vals[p]? with
        | none =>
          cases he : k.err with
          | none =>
            apply hfail .runtimeError
            simp only [intersperseRun, hk, hp, hv, he]
          | some er =>
            apply hfail er
            simp only [intersperseRun, hk, hp, hv, he]
        | some v =>
          obtain ⟨⟨tl, htl⟩, _⟩ := h e.d k ss[e.d] hk hs
          have hv' : ss[e.d].vals[p]? = some (f v) := by
            have hp' : p < k.vals.length := (List.getElem?_eq_some_iff.1 hv).1
            rw [← htl, List.getElem?_append_left (by simpa using hp'), List.getElem?_map, hv]
            rfl
          obtain ⟨ih1, ih2⟩ := isp_run_sim f ks ss hlen h rest (pos.set e.d (p + 1))
          simp only [intersperseRun, hk, hs, hp, hv, hv', Stream.cons, List.map_cons,
            List.cons_prefix_cons, true_and, List.cons.injEq]
          exact ⟨ih1, ih2⟩

theorem isp_zeros_map {α β} (l : List α) (f : α → β) :
    (l.map f).map (fun _ => 0) = l.map (fun _ => 0) := by
  simp [List.map_map, Function.comp_def]

theorem isp_outAt_of_getElem? (l : List (Res Val)) (j : Nat) (o : Res Val) (h : l[j]? = some o) :
    outAt l (j : Int) = o := by
  obtain ⟨hj, rfl⟩ := List.getElem?_eq_some_iff.1 h
  exact outAt_lt l j hj

/-! ### `Ref.intersperse` -/

/-- C02/C03 for the interspersed reference along any consistent table.  Nothing is assumed about the
    parts beyond their own well-formedness: not that they are indexable, not that the table was built
    from their lengths (values past the end of a part simply end the iteration with an error). -/
theorem wf2_intersperse_of_ok {rs : List RefDS} {order : List OrdEntry}
    (hwf : ∀ r ∈ rs, RefWF2 r) (hok : OrderOK order) : RefWF2 (Ref.intersperse rs order) := by
  have hz := isp_zeros_getElem? rs
  have houts : (Ref.intersperse rs order).outs.length = order.length := by simp [Ref.intersperse]
  have hlenS : (Ref.intersperse rs order).stream.vals.length ≤ order.length ∧
      ((Ref.intersperse rs order).stream.err = none ↔
        (Ref.intersperse rs order).stream.vals.length = order.length) :=
    intersperseRun_length (rs.map (fun r : RefDS => r.stream)) order (rs.map fun _ => 0)
  refine { pos := ?_, len := ?_, pairs := ?_, keyed := ?_, lenOuts := ?_, keysLen := ?_ }
  · intro hix
    have hi := isp_all_indexable_mem hix
    refine ⟨by rw [houts]; exact hlenS.1, ?_, fun h => by rw [houts]; exact hlenS.2.1 h⟩
    intro t ht
    have hv : (intersperseRun (rs.map (·.stream)) order (rs.map fun _ => 0)).vals[t]?
        = some (Ref.intersperse rs order).stream.vals[t] := List.getElem?_eq_getElem ht
    obtain ⟨e, s, h1, h2, h3⟩ := intersperseRun_prefix_of_zeros _ order hok _ hz t _ hv
    simp only [List.getElem?_map, Option.map_eq_some_iff] at h2
    obtain ⟨r, hr, rfl⟩ := h2
    have hrmem : r ∈ rs := List.mem_of_getElem? hr
    obtain ⟨_, hpos, _⟩ := (hwf r hrmem).pos (hi r hrmem)
    obtain ⟨hj, h3'⟩ := List.getElem?_eq_some_iff.1 h3
    have := hpos order[t].j (by
      obtain ⟨_, he⟩ := List.getElem?_eq_some_iff.1 h1
      rw [he]; exact hj)
    obtain ⟨ho, he⟩ := List.getElem?_eq_some_iff.1 h1
    subst he
    simp only [Ref.intersperse, List.getElem?_map, List.getElem?_eq_getElem ho, Option.map_some, hr]
    rw [isp_outAt_of_getElem? _ _ _ this, h3']
    rfl
  · intro n hn herr
    simp only [Ref.intersperse] at hn
    injection hn with hn
    rw [← hn]
    exact hlenS.2.1 herr
  · have hsim := isp_run_sim (fun kv : String × Val => kv.2) (rs.map (·.kstream)) (rs.map (·.stream))
      (by simp) (by
        intro i k s hk hs
        simp only [List.getElem?_map, Option.map_eq_some_iff] at hk hs
        obtain ⟨r, hr, rfl⟩ := hk
        obtain ⟨r', hr', rfl⟩ := hs
        rw [hr] at hr'
        injection hr' with hr'
        subst hr'
        exact (hwf r (List.mem_of_getElem? hr)).pairs) order (rs.map fun _ => 0)
    exact hsim
  · intro ks hks hix
    have hi := isp_all_indexable_mem hix
    obtain ⟨kss, hm, ho, _⟩ := isp_ref_keys_ok hks
    obtain ⟨_, hkget⟩ := isp_mapM_ok_getElem? _ rs kss hm
    obtain ⟨_, hoget⟩ := isp_mapM_ok_getElem? _ order ks ho
    -- every part's iteration is its keyed iteration with the keys dropped
    have hmap : rs.map (·.stream)
        = (rs.map (·.kstream)).map (fun k => (⟨k.vals.map (·.2), k.err⟩ : Stream Val)) := by
      rw [List.map_map]
      apply List.map_congr_left
      intro r hr
      obtain ⟨t, ht, hrt⟩ := List.getElem_of_mem hr
      obtain ⟨kl, _, hrk⟩ := hkget t r (by rw [← hrt]; exact List.getElem?_eq_getElem ht)
      obtain ⟨h1, h2, _⟩ := (hwf r hr).keyed kl hrk (hi r hr)
      simp only [Function.comp]
      rw [h1, h2]
    have hrun := isp_run_map (fun kv : String × Val => kv.2) (rs.map (·.kstream)) order (rs.map fun _ => 0)
    rw [← hmap] at hrun
    have hS' : (Ref.intersperse rs order).stream
        = intersperseRun (rs.map (·.stream)) order (rs.map fun _ => 0) := rfl
    have hK' : (Ref.intersperse rs order).kstream
        = intersperseRun (rs.map (·.kstream)) order (rs.map fun _ => 0) := rfl
    rw [← hS', ← hK'] at hrun
    refine ⟨by rw [hrun], by rw [hrun], ?_⟩
    apply List.ext_getElem?
    intro t
    rw [List.getElem?_map, List.getElem?_take]
    by_cases ht : t < (Ref.intersperse rs order).kstream.vals.length
    · rw [if_pos ht]
      have hv : (intersperseRun (rs.map (·.kstream)) order (rs.map fun _ => 0)).vals[t]?
          = some (Ref.intersperse rs order).kstream.vals[t] := List.getElem?_eq_getElem ht
      rw [List.getElem?_eq_getElem ht]
      obtain ⟨e, s, h1, h2, h3⟩ := intersperseRun_prefix_of_zeros _ order hok _ hz t _ hv
      simp only [List.getElem?_map, Option.map_eq_some_iff] at h2
      obtain ⟨r, hr, rfl⟩ := h2
      have hrmem : r ∈ rs := List.mem_of_getElem? hr
      obtain ⟨kl, hkl, hrk⟩ := hkget e.d r hr
      obtain ⟨_, _, hfst⟩ := (hwf r hrmem).keyed kl hrk (hi r hrmem)
      obtain ⟨b, hb, hbe⟩ := hoget t e h1
      obtain ⟨kl', hkl', hkb⟩ := (isp_keyAt_ok_iff kss e b).1 hbe
      rw [hkl] at hkl'
      injection hkl' with hkl'
      subst hkl'
      -- the key paired with value `e.j` of the part is `kl[e.j]`
      have : (r.kstream.vals.map (·.1))[e.j]? = (kl.take r.kstream.vals.length)[e.j]? := by rw [hfst]
      rw [List.getElem?_map, h3, List.getElem?_take,
        if_pos (List.getElem?_eq_some_iff.1 h3).1, hkb] at this
      rw [hb, Option.map_some]
      exact this
    · rw [if_neg ht]
      have : (Ref.intersperse rs order).kstream.vals[t]? = none := by
        rw [List.getElem?_eq_none_iff]; omega
      rw [this]; rfl
  · intro _
    simp [Ref.intersperse]
  · intro _ ks hk
    obtain ⟨kss, _, ho, _⟩ := isp_ref_keys_ok hk
    rw [houts]
    exact (mapM_ok _ order ks ho).1

/-- C02/C03 for the reference of `IntersperseDataset`: the table built from ANY list of lengths is
    consistent, so only the parts' well-formedness is needed -/
theorem wf2_intersperse {rs : List RefDS} (hwf : ∀ r ∈ rs, RefWF2 r) (lens : List Nat) :
    RefWF2 (Ref.intersperse rs (intersperseOrder lens)) :=
  wf2_intersperse_of_ok hwf (order_ok lens)

/-- the `RefWF` form asked for -/
theorem wf_intersperse {rs : List RefDS} (hwf : ∀ r ∈ rs, RefWF2 r) (lens : List Nat) :
    RefWF (Ref.intersperse rs (intersperseOrder lens)) :=
  (wf2_intersperse hwf lens).toRefWF

theorem wf2_mkIntersperse {rs : List RefDS} {r : RefDS} (hwf : ∀ r ∈ rs, RefWF2 r)
    (hm : Ref.mkIntersperse rs = .ok r) : RefWF2 r := by
  unfold Ref.mkIntersperse at hm
  by_cases he : rs.isEmpty = true
  · simp [he, bind, Except.bind, throw, throwThe, MonadExceptOf.throw] at hm
  · simp only [he] at hm
    cases hl : Ref.allLens rs with
    | error e => rw [hl] at hm; cases hm
    | ok lens =>
      rw [hl] at hm
      simp only [bind, Except.bind] at hm
      cases hz : lens.any (· == 0) with
      | true => rw [hz] at hm; cases hm
      | false =>
        rw [hz] at hm
        cases hm
        exact wf2_intersperse hwf lens

/-! ### `Ref.keyZip` -/

theorem wf2_keyZip_cons {r0 : RefDS} {rs' : List RefDS} (hwf0 : RefWF2 r0) (hi0 : r0.indexable = true)
    (ks0 : List String) (hk0 : r0.keys = .ok ks0) : RefWF2 (Ref.keyZip (r0 :: rs')) := by
  have ho := kz_outs r0 rs' ks0 hk0
  have hs := kz_stream r0 rs' ks0 hk0
  have hk := kz_kstream r0 rs' ks0 hk0
  have hso : (Ref.keyZip (r0 :: rs')).stream = .ofOuts (Ref.keyZip (r0 :: rs')).outs := by rw [hs, ho]
  have hlen0 : ks0.length = r0.outs.length := hwf0.keysLen hi0 ks0 hk0
  have hol : (Ref.keyZip (r0 :: rs')).outs.length = r0.outs.length := by rw [ho, List.length_map, hlen0]
  have hfun : kzRowK (r0 :: rs')
      = fun k => kzRow (r0 :: rs') k >>= fun v => (Except.ok (k, v) : Res (String × Val)) := by
    funext k; exact kzRowK_eq _ k
  obtain ⟨e1, e2, e3⟩ := isp_ofOuts_keyed (kzRow (r0 :: rs')) ks0
  rw [← hfun, ← hk] at e1 e2 e3
  rw [← hs] at e1 e2
  refine { pos := ?_, len := ?_, pairs := ?_, keyed := ?_, lenOuts := ?_, keysLen := ?_ }
  · intro _
    exact isp_wf_of_ofOuts _ hso
  · intro n hn herr
    have hn' : r0.len = .ok n := hn
    rw [hwf0.lenOuts hi0] at hn'
    injection hn' with hn'
    rw [(isp_wf_of_ofOuts _ hso).2.2 herr, hol, hn']
  · refine ⟨by rw [e2]; exact List.prefix_refl _, ?_⟩
    intro herr
    exact ⟨e2, by rw [← e1]; exact herr⟩
  · intro ks hks _
    have hks' : r0.keys = .ok ks := hks
    rw [hk0] at hks'
    injection hks' with hks'
    subst hks'
    exact ⟨e1, e2, e3⟩
  · intro _
    show r0.len = _
    rw [hol]
    exact hwf0.lenOuts hi0
  · intro _ ks hks
    have hks' : r0.keys = .ok ks := hks
    rw [hk0] at hks'
    injection hks' with hks'
    subst hks'
    rw [hol, hlen0]

/-- C02/C03 for the reference of `KeyZipDataset`: a non-empty list of parts whose first part is
    indexable, well-formed and has a key table (the other parts enter only through `Ref.lookup`) -/
theorem wf2_keyZip {rs : List RefDS} (hwf : ∀ r ∈ rs, RefWF2 r) (hne : rs ≠ [])
    (hi : ∀ r ∈ rs, r.indexable = true) (hk : ∃ kss, rs.mapM (·.keys) = .ok kss) :
    RefWF2 (Ref.keyZip rs) := by
  cases rs with
  | nil => exact absurd rfl hne
  | cons r0 rs' =>
    obtain ⟨kss, hm⟩ := hk
    obtain ⟨ks0, _, hk0, _, _⟩ := isp_mapM_cons_ok _ _ _ _ hm
    exact wf2_keyZip_cons (hwf r0 (by simp)) (hi r0 (by simp)) ks0 hk0

theorem wf_keyZip {rs : List RefDS} (hwf : ∀ r ∈ rs, RefWF2 r) (hne : rs ≠ [])
    (hi : ∀ r ∈ rs, r.indexable = true) (hk : ∃ kss, rs.mapM (·.keys) = .ok kss) :
    RefWF (Ref.keyZip rs) :=
  (wf2_keyZip hwf hne hi hk).toRefWF

theorem wf2_mkKeyZip {rs : List RefDS} {r : RefDS} (hwf : ∀ r ∈ rs, RefWF2 r)
    (hi : ∀ r ∈ rs, r.indexable = true) (hm : Ref.mkKeyZip rs = .ok r) : RefWF2 r := by
  unfold Ref.mkKeyZip at hm
  by_cases hlt : rs.length < 2
  · simp [hlt, bind, Except.bind, throw, throwThe, MonadExceptOf.throw] at hm
  · simp only [hlt, if_false] at hm
    cases hkss : rs.mapM (·.keys) with
    | error e => rw [hkss] at hm; cases hm
    | ok kss =>
      rw [hkss] at hm
      simp only [bind, Except.bind] at hm
      cases hs : sameKeySets kss with
      | false => rw [hs] at hm; cases hm
      | true =>
        rw [hs] at hm
        cases hm
        exact wf2_keyZip hwf (by intro h; rw [h] at hlt; simp at hlt) hi ⟨kss, hkss⟩

end LazyDs

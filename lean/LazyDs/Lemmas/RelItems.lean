import LazyDs.Lemmas.Rel
/-
  Refinement lemmas (`Rel`) for the stages that re-index their input:
  ItemsDataset, CacheDataset, CatchExceptionDataset, PrefetchDataset (sequential meaning),
  ParMapDataset and the eager cache (`from_dataset`).
-/
namespace LazyDs

/-! ### small facts about `Except`, `irange`, `keyIndex`, `hasDup` -/

theorem ok_bind {α β} (a : α) (f : α → Res β) : ((Except.ok a : Res α) >>= f) = f a := rfl

theorem error_bind {α β} (e : Err) (f : α → Res β) : ((Except.error e : Res α) >>= f) = .error e := rfl

theorem irange_map {β} (n : Nat) (f : Int → β) :
    (irange n).map f = (List.range n).map (fun (j : Nat) => f (j : Int)) := by
  simp only [irange, List.map_map]
  rfl

theorem range_map_outAt (l : List (Res Val)) :
    (List.range l.length).map (fun (j : Nat) => outAt l (j : Int)) = l := by
  apply List.ext_getElem
  · simp
  · intro i _ h2
    simp only [List.getElem_map, List.getElem_range]
    exact outAt_lt l i h2

theorem map_eq_range_map {α β} (f : α → β) (g : Nat → β) (l : List α)
    (hfg : ∀ (j : Nat) (h : j < l.length), f l[j] = g j) :
    l.map f = (List.range l.length).map g := by
  apply List.ext_getElem
  · simp
  · intro i h1 _
    simp only [List.getElem_map, List.getElem_range]
    exact hfg i (by simpa using h1)

/-- `ks.index(ks[j])` is the first position that holds the same key -/
theorem keyIndex_getElem (ks : List String) (j : Nat) (h : j < ks.length) :
    ∃ (j0 : Nat) (h0 : j0 < ks.length), j0 ≤ j ∧ ks[j0] = ks[j] ∧ keyIndex ks ks[j] = .ok j0 := by
  unfold keyIndex
  cases hf : ks.findIdx? (· == ks[j]) with
  | none =>
    rw [List.findIdx?_eq_none_iff] at hf
    have := hf ks[j] (List.getElem_mem h)
    simp at this
  | some j0 =>
    rw [List.findIdx?_eq_some_iff_getElem] at hf
    obtain ⟨h0, hp, hmin⟩ := hf
    refine ⟨j0, h0, ?_, ?_, rfl⟩
    · apply Nat.le_of_not_lt
      intro hlt
      have := hmin j hlt
      simp at this
    · simpa using hp

theorem hasDup_eq_false_iff (ks : List String) : hasDup ks = false ↔ ks.Nodup := by
  induction ks with
  | nil => simp [hasDup]
  | cons k ks ih =>
    simp only [hasDup, Bool.or_eq_false_iff, List.nodup_cons, ih]
    constructor
    · rintro ⟨h1, h2⟩
      refine ⟨?_, h2⟩
      intro hm
      rw [List.contains_iff_mem.mpr hm] at h1
      cases h1
    · rintro ⟨h1, h2⟩
      refine ⟨?_, h2⟩
      cases hc : ks.contains k with
      | false => rfl
      | true => exact absurd (List.contains_iff_mem.mp hc) h1

/-! ### positions `0..n-1` of an indexable dataset are its outcome list -/

theorem irange_map_getInt {d : DS} {r : RefDS} (h : Rel d r) (hi : r.indexable = true) :
    (irange r.outs.length).map d.getInt = r.outs := by
  obtain ⟨_, hg⟩ := h.idx hi
  rw [irange_map]
  have : (fun (j : Nat) => d.getInt (j : Int)) = fun (j : Nat) => outAt r.outs (j : Int) := by
    funext j; exact hg j
  rw [this, range_map_outAt]

/-- the cache/items pattern `input[keys.index(keys[j])]` gives the example at position `j` -/
theorem getInt_keyIndex {d : DS} {r : RefDS} (h : Rel d r) (hi : r.indexable = true)
    (ks : List String) (hk : r.keys = .ok ks) (j : Nat) (hj : j < ks.length) :
    ∃ j0 : Nat, keyIndex ks ks[j] = .ok j0 ∧ d.getInt (j0 : Int) = outAt r.outs (j : Int) := by
  obtain ⟨j0, h0, _, heq, hki⟩ := keyIndex_getElem ks j hj
  refine ⟨j0, hki, ?_⟩
  rw [(h.idx hi).2 j0, ← h.getKey hi ks hk j0 h0, heq, h.getKey hi ks hk j hj]

/-! ### ItemsDataset -/

/-- `(keys[i], outs[i])` as one outcome, with Python indexing on both tables -/
def itemAt (ks : List String) (outs : List (Res Val)) (i : Int) : Res Val := do
  let k ← pyIndex ks i
  let v ← outAt outs i
  .ok (pairVal (k, v))

theorem itemAt_ge (ks : List String) (outs : List (Res Val)) (i : Int) (h : (ks.length : Int) ≤ i) :
    itemAt ks outs i = .error .indexError := by
  unfold itemAt; rw [pyIndex_ge ks i h]; rfl

theorem itemAt_lt_neg (ks : List String) (outs : List (Res Val)) (i : Int) (h : i < -(ks.length : Int)) :
    itemAt ks outs i = .error .indexError := by
  unfold itemAt; rw [pyIndex_lt_neg ks i h]; rfl

theorem itemAt_wrap (ks : List String) (outs : List (Res Val)) (n : Nat) (hk : ks.length = n)
    (ho : outs.length = n) (i : Int) (h0 : 0 ≤ i) (h1 : i < n) :
    itemAt ks outs (i - n) = itemAt ks outs i := by
  unfold itemAt
  have a := pyIndex_wrap ks i h0 (by omega)
  have b := outAt_wrap outs i h0 (by omega)
  rw [hk] at a; rw [ho] at b
  rw [a, b]

theorem itemAt_lt (ks : List String) (outs : List (Res Val)) (j : Nat) (hk : j < ks.length) (ho : j < outs.length) :
    itemAt ks outs (j : Int) = (outs[j] >>= fun v => .ok (pairVal (ks[j], v))) := by
  unfold itemAt; rw [pyIndex_lt ks j hk, outAt_lt outs j ho]; rfl

/-- Python indexing of the item table is `itemAt` -/
theorem outAt_itemAt (ks : List String) (outs : List (Res Val)) (n : Nat) (hk : ks.length = n)
    (ho : outs.length = n) (i : Int) :
    outAt ((List.range n).map (fun (j : Nat) => itemAt ks outs (j : Int))) i = itemAt ks outs i := by
  have hlen : ((List.range n).map (fun (j : Nat) => itemAt ks outs (j : Int))).length = n := by simp
  have hnat : ∀ (j : Nat), j < n →
      outAt ((List.range n).map (fun (j : Nat) => itemAt ks outs (j : Int))) (j : Int) = itemAt ks outs (j : Int) := by
    intro j hj
    rw [outAt_lt _ j (by omega)]
    simp only [List.getElem_map, List.getElem_range]
  by_cases a : (n : Int) ≤ i
  · rw [outAt_ge _ i (by omega), itemAt_ge ks outs i (by omega)]
  · by_cases b : i < -(n : Int)
    · rw [outAt_lt_neg _ i (by omega), itemAt_lt_neg ks outs i (by omega)]
    · by_cases c : 0 ≤ i
      · obtain ⟨j, rfl⟩ := Int.eq_ofNat_of_zero_le c
        exact hnat j (by omega)
      · have p0 : 0 ≤ i + n := by omega
        have p1 : i + n < n := by omega
        obtain ⟨j, hj⟩ := Int.eq_ofNat_of_zero_le p0
        have e : i = (j : Int) - n := by omega
        have hjn : j < n := by omega
        have w := outAt_wrap ((List.range n).map (fun (j : Nat) => itemAt ks outs (j : Int))) (j : Int)
          (by omega) (by omega)
        rw [hlen] at w
        rw [e, w, hnat j hjn, itemAt_wrap ks outs n hk ho (j : Int) (by omega) (by omega)]

theorem items_outs (r : RefDS) (ks : List String) (hks : r.keys = .ok ks) :
    (Ref.items r).outs = (List.range r.outs.length).map (fun (j : Nat) => itemAt ks r.outs (j : Int)) := by
  simp only [Ref.items, hks]
  rfl

/-- The side condition: an indexable input has a key table.  Without it `items()[i]` raises what
    `keys()` raises for EVERY `i` (see `items_getInt_without_keys_counterexample`), which is not list
    indexing of any outcome list (out of range must be `IndexError`). -/
theorem rel_items {d : DS} {r : RefDS} (h : Rel d r)
    (hk : r.indexable = true → ∃ ks, r.keys = .ok ks) : Rel (itemsDS d) (Ref.items r) := by
  refine
    { indexable := h.indexable, len := h.len, keys := h.keys, iter := ?_, iterK := ?_, idx := ?_,
      noIdxErr := ?_, keysLen := ?_, getKey := ?_ }
  · simp only [itemsDS, Ref.items, Ref.mapErr, h.iterK]
  · simp only [itemsDS, Ref.items, Ref.mapErr, h.iterK]
  · intro hi
    have hi' : r.indexable = true := hi
    obtain ⟨ks, hks⟩ := hk hi'
    obtain ⟨hl, hg⟩ := h.idx hi'
    have hkl := h.keysLen hi' ks hks
    refine ⟨?_, ?_⟩
    · rw [items_outs r ks hks]
      simp only [List.length_map, List.length_range]
      exact hl
    · intro i
      rw [items_outs r ks hks, outAt_itemAt ks r.outs _ hkl rfl i]
      simp only [itemsDS]
      rw [h.keys, hks, hg i]
      rfl
  · intro hi o ho
    have hi' : r.indexable = true := hi
    obtain ⟨ks, hks⟩ := hk hi'
    have hkl := h.keysLen hi' ks hks
    rw [items_outs r ks hks] at ho
    simp only [List.mem_map, List.mem_range] at ho
    obtain ⟨j, hj, rfl⟩ := ho
    rw [itemAt_lt ks r.outs j (by omega) hj]
    have hne := h.noIdxErr hi' r.outs[j] (List.getElem_mem hj)
    cases ho : r.outs[j] with
    | ok v => intro hc; cases hc
    | error e =>
      rw [ho] at hne
      exact hne
  · intro hi ks hks
    have hi' : r.indexable = true := hi
    have hks' : r.keys = .ok ks := hks
    rw [items_outs r ks hks']
    simp only [List.length_map, List.length_range]
    exact h.keysLen hi' ks hks'
  · intro hi ks hks j hj
    have hi' : r.indexable = true := hi
    have hks' : r.keys = .ok ks := hks
    have hkl := h.keysLen hi' ks hks'
    obtain ⟨j0, hki, hget⟩ := getInt_keyIndex h hi' ks hks' j hj
    rw [items_outs r ks hks', outAt_itemAt ks r.outs _ hkl rfl]
    simp only [itemsDS]
    rw [h.keys, hks', ok_bind, hki, ok_bind, hget]
    unfold itemAt
    rw [pyIndex_lt ks j hj]
    rfl

/-! ### CacheDataset -/

theorem rel_cache {d : DS} {r : RefDS} (h : Rel d r) (hi : r.indexable = true) :
    Rel (cacheDS d) (Ref.cache r) := by
  obtain ⟨hl, hg⟩ := h.idx hi
  refine
    { indexable := h.indexable, len := h.len, keys := h.keys, iter := ?_, iterK := ?_, idx := ?_,
      noIdxErr := h.noIdxErr, keysLen := h.keysLen, getKey := ?_ }
  · simp only [cacheDS, Ref.cache, h.len, hl, irange_map_getInt h hi]
  · simp only [cacheDS, Ref.cache, h.len, h.keys, hl]
    cases r.keys with
    | error e => rfl
    | ok ks =>
      simp only
      rw [irange_map]
      congr 1
      apply List.map_congr_left
      intro j _
      rw [hg j]
  · intro _
    refine ⟨hl, ?_⟩
    intro i
    simp only [cacheDS, Ref.cache]
    by_cases hneg : i < 0
    · simp only [hneg, if_true]
      rw [h.len, hl, ok_bind]
      by_cases hj : i + (r.outs.length : Int) < 0
      · simp only [hj, if_true]
        rw [outAt_lt_neg r.outs i (by omega)]
      · simp only [hj, if_false]
        rw [hg]
        have w := outAt_wrap r.outs (i + (r.outs.length : Int)) (by omega) (by omega)
        rw [← w]
        congr 1
        omega
    · simp only [hneg, if_false]
      exact hg i
  · intro _ ks hks j hj
    have hks' : r.keys = .ok ks := hks
    obtain ⟨j0, hki, hget⟩ := getInt_keyIndex h hi ks hks' j hj
    simp only [cacheDS, Ref.cache]
    rw [h.keys, hks', ok_bind, hki, ok_bind, hget]

theorem rel_mkCache {d d' : DS} {r : RefDS} (h : Rel d r) (hd : mkCache d = .ok d') :
    ∃ r', Ref.mkCache r = .ok r' ∧ Rel d' r' := by
  unfold mkCache at hd
  by_cases hi : d.indexable = true
  · rw [if_pos hi] at hd
    injection hd with hd
    subst hd
    have hi' : r.indexable = true := by rw [← h.indexable]; exact hi
    exact ⟨Ref.cache r, by simp [Ref.mkCache, hi'], rel_cache h hi'⟩
  · rw [if_neg hi] at hd
    cases hd

/-! ### CatchExceptionDataset -/

theorem rel_catch (E : List Err) {d : DS} {r : RefDS} (h : Rel d r) (hi : r.indexable = true) :
    Rel (catchDS E d) (Ref.catch_ E r) := by
  obtain ⟨hl, hg⟩ := h.idx hi
  refine
    { indexable := rfl, len := rfl, keys := rfl, iter := ?_, iterK := ?_, idx := ?_,
      noIdxErr := ?_, keysLen := ?_, getKey := ?_ }
  · simp only [catchDS, Ref.catch_, h.len, hl, irange_map_getInt h hi]
  · simp only [catchDS, Ref.catch_, h.keys]
    cases hks : r.keys with
    | error e => rfl
    | ok ks =>
      simp only
      congr 1
      apply map_eq_range_map
      intro j hj
      rw [h.getKey hi ks hks j hj, pyIndex_lt ks j hj]
      rfl
  · intro hc; cases hc
  · intro hc; cases hc
  · intro hc; cases hc
  · intro hc; cases hc

/-! ### PrefetchDataset (sequential meaning) -/

theorem rel_prefetch (w : Nat) (t : Bool) (ce : Option (List Err)) {d : DS} {r : RefDS} (h : Rel d r)
    (hi : (ce.isSome ∨ ¬(w = 1 ∧ t = true)) → r.indexable = true) :
    Rel (prefetchDS w t ce d) (Ref.prefetch w t ce r) := by
  refine
    { indexable := rfl, len := ?_, keys := rfl, iter := ?_, iterK := ?_, idx := ?_,
      noIdxErr := ?_, keysLen := ?_, getKey := ?_ }
  · cases ce <;> simp only [prefetchDS, Ref.prefetch, h.len]
  · simp only [prefetchDS, Ref.prefetch]
    by_cases hs : (w == 1 && t) = true
    · simp only [hs, if_true]
      cases ce with
      | none => exact h.iter
      | some E => exact (rel_catch E h (hi (Or.inl rfl))).iter
    · simp only [hs]
      have hi' : r.indexable = true := by
        apply hi
        right
        intro ⟨h1, h2⟩
        apply hs
        simp [h1, h2]
      obtain ⟨hl, _⟩ := h.idx hi'
      simp only [h.len, hl, irange_map_getInt h hi']
      rfl
  · simp only [prefetchDS, Ref.prefetch]
    by_cases hs : (w == 1 && t) = true
    · simp only [hs, if_true]
      cases ce with
      | none => exact h.iterK
      | some E => exact (rel_catch E h (hi (Or.inl rfl))).iterK
    · simp only [hs]
      rfl
  · intro hc; cases hc
  · intro hc; cases hc
  · intro hc; cases hc
  · intro hc; cases hc

/-- the argument checks of `PrefetchDataset.__init__` only look at `len` -/
theorem mkPrefetch_ok (w b : Nat) (t : Bool) (ce : Option (List Err)) (d d' : DS) (r : RefDS)
    (hlen : d.len = r.len) (hd : mkPrefetch w b t ce d = .ok d') :
    d' = prefetchDS w t ce d ∧ Ref.mkPrefetch w b t ce r = .ok (Ref.prefetch w t ce r) := by
  unfold mkPrefetch at hd
  unfold Ref.mkPrefetch
  rw [hlen] at hd
  by_cases hs : (w == 1 && t) = true <;> by_cases h1 : w < 1 <;> by_cases h2 : b < w <;>
    cases hr : r.len <;>
    simp [hs, h1, h2, hr, bind, Except.bind, throw, throwThe, MonadExceptOf.throw] at hd ⊢ <;>
    exact hd.symm

theorem rel_mkPrefetch (w b : Nat) (t : Bool) (ce : Option (List Err)) {d d' : DS} {r : RefDS} (h : Rel d r)
    (hi : (ce.isSome ∨ ¬(w = 1 ∧ t = true)) → r.indexable = true)
    (hd : mkPrefetch w b t ce d = .ok d') :
    ∃ r', Ref.mkPrefetch w b t ce r = .ok r' ∧ Rel d' r' := by
  obtain ⟨rfl, hr⟩ := mkPrefetch_ok w b t ce d d' r h.len hd
  exact ⟨_, hr, rel_prefetch w t ce h hi⟩

/-! ### ParMapDataset, eager cache -/

theorem rel_parMap (f : Val → Res Val) (b : Nat) (hf : ∀ v, f v ≠ .error .indexError) {d : DS} {r : RefDS}
    (h : Rel d r) : Rel (parMapDS f b d) (Ref.parMap f b r) := by
  have hm := rel_map f hf h
  exact
    { indexable := hm.indexable, len := hm.len, keys := hm.keys,
      iter := by simp only [parMapDS, Ref.parMap, h.iter],
      iterK := by simp only [parMapDS, Ref.parMap, h.iterK],
      idx := hm.idx, noIdxErr := hm.noIdxErr, keysLen := hm.keysLen, getKey := hm.getKey }

/-- `cache(lazy=False)`: the materialised copy is a list source, or a dict source when `items()` is
    defined and the keys are unique (`hasDup = false`, hence `Nodup`, which `rel_dictSrc` needs) -/
theorem rel_mkCacheEager {d d' : DS} {r : RefDS} (h : Rel d r) (hd : mkCacheEager d = .ok d') :
    ∃ r', Ref.mkCacheEager r true = .ok r' ∧ Rel d' r' := by
  unfold mkCacheEager at hd
  unfold Ref.mkCacheEager
  rw [h.iterK, h.iter] at hd
  by_cases hg : (d.indexable || d.ordered) = true
  · simp only [hg, Bool.not_true, Bool.false_eq_true, if_false, Bool.or_true] at hd ⊢
    simp only [bind, Except.bind] at hd ⊢
    cases he : r.kstream.err with
    | some e =>
      simp only [he] at hd ⊢
      by_cases hee : (e == Err.itemsNotDefinedInternal) = true
      · simp only [hee, if_true] at hd ⊢
        cases hv : streamToRes r.stream with
        | error e' => simp only [hv] at hd; cases hd
        | ok vs =>
          simp only [hv] at hd ⊢
          injection hd with hd
          subst hd
          exact ⟨_, rfl, rel_listSrc vs⟩
      · simp only [hee] at hd
        cases hd
    | none =>
      simp only [he] at hd ⊢
      by_cases hdup : hasDup (r.kstream.vals.map (·.1)) = true
      · simp only [hdup, if_true] at hd ⊢
        injection hd with hd
        subst hd
        exact ⟨_, rfl, rel_listSrc _⟩
      · simp only [hdup] at hd ⊢
        injection hd with hd
        subst hd
        have hn : hasDup (r.kstream.vals.map (·.1)) = false := by simpa using hdup
        exact ⟨_, rfl, rel_dictSrc _ ((hasDup_eq_false_iff _).mp hn)⟩
  · simp [hg, bind, Except.bind, throw, throwThe, MonadExceptOf.throw] at hd

/-! ### why `rel_items` needs a key table on indexable inputs (known defect)

  `ItemsDataset.__getitem__` evaluates `self.input.keys()` before anything else, so on an input that is
  indexable and iterates fine but whose `keys()` raises (here: a concatenation with a duplicate key,
  `AssertionError`), every `items()[i]` raises that exception: in range instead of the pair, and out
  of range instead of `IndexError`.  Iterating `items()` never calls `keys()` and yields both pairs. -/

def dupConcat : DS := concatDS [dictSrc [("d", .int 1)], dictSrc [("d", .int 2)]]

theorem items_getInt_without_keys_counterexample :
    dupConcat.keys = .error .assertionError ∧
    (itemsDS dupConcat).indexable = true ∧
    (itemsDS dupConcat).len = .ok 2 ∧
    dupConcat.getInt 0 = .ok (.int 1) ∧
    (itemsDS dupConcat).iter = ⟨[pairVal ("d", .int 1), pairVal ("d", .int 2)], none⟩ ∧
    (itemsDS dupConcat).getInt 0 = .error .assertionError ∧
    (itemsDS dupConcat).getInt 2 = .error .assertionError :=
  ⟨rfl, rfl, rfl, rfl, rfl, rfl, rfl⟩

end LazyDs

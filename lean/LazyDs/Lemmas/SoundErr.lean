import LazyDs.Lemmas.Sound
/-
  The CONVERSE of `build_ref` for construction-time errors: the lazy pipeline refuses to be
  constructed exactly when the eager reference refuses, and (outside one documented corner) with
  the same exception class.

  `Rel` only speaks about datasets that were built; two facts about built datasets that it does not
  track are needed here and are proved first as an invariant of `build` (`BInv`):

  * `ordered = true` (the model never builds an unordered dataset; `mkCacheEager` asks for it), and
  * `sliceGuard` is `.ok ()` unless the dataset is literally a `filterDS` (the only stage whose
    `__getitem__` asserts before `SliceDataset.__init__` runs).

  The corner: `ds.filter(f)[spec]` and `ds.filter(f).sort(key)` hit the `assert` of
  `FilterDataset.__getitem__` (`AssertionError`) in the model, whereas the reference only knows
  that the input is not indexable (`RuntimeError`).  `build_err_ref_gen` proves that this is the ONLY
  way the two error classes can differ, `build_err_ref_partial` excludes it through `AdmErr`, and
  `build_err_ref_counterexample` shows that the excluded case really differs.
-/
namespace LazyDs

/-! ### what `build` guarantees besides `Rel` -/

structure BInv (d : DS) : Prop where
  ordered : d.ordered = true
  guard : d.sliceGuard = .ok () ∨ ∃ f d0, d = filterDS f d0

theorem BInv.guard_of_indexable {d : DS} (h : BInv d) (hi : d.indexable = true) : d.sliceGuard = .ok () := by
  rcases h.guard with hg | ⟨f, d0, rfl⟩
  · exact hg
  · cases hi

theorem BInv.guard_of_len {d : DS} {n : Nat} (h : BInv d) (hl : d.len = .ok n) : d.sliceGuard = .ok () := by
  rcases h.guard with hg | ⟨f, d0, rfl⟩
  · exact hg
  · cases hl

theorem BInv.guard_of_keys {d : DS} {ks : List String} (h : BInv d) (hk : d.keys = .ok ks) :
    d.sliceGuard = .ok () := by
  rcases h.guard with hg | ⟨f, d0, rfl⟩
  · exact hg
  · cases hk

theorem all_ordered {ds : List DS} (h : ∀ d ∈ ds, BInv d) : ds.all (·.ordered) = true := by
  simp only [List.all_eq_true]
  intro d hd
  exact (h d hd).ordered

/-- the same error at another result type -/
theorem err_cast {α β} {e' e : Err} (h : (Except.error e' : Res α) = .error e) :
    (Except.error e' : Res β) = .error e := by
  injection h with h; rw [h]

/-! ### `mkSlice` -/

/-- with the guard of `Dataset.__getitem__` passed, `SliceDataset.__init__` fails in the model exactly
    as in the reference -/
theorem relerr_mkSlice {d : DS} {r : RefDS} {e : Err} (spec : SliceSpec) (h : Rel d r)
    (hg : d.sliceGuard = .ok ()) (hd : mkSlice spec d = .error e) : Ref.mkSlice spec r = .error e := by
  unfold mkSlice at hd
  unfold Ref.mkSlice
  rw [← h.indexable, ← h.len, ← h.keys]
  simp only [hg, bind, Except.bind] at hd ⊢
  cases hi : d.indexable with
  | false =>
    simp only [hi, Bool.not_false, if_true, throw, throwThe, MonadExceptOf.throw] at hd ⊢
    exact err_cast hd
  | true =>
    simp only [hi, Bool.not_true, Bool.false_eq_true, if_false] at hd ⊢
    cases hl : d.len with
    | error e' => simp only [hl] at hd ⊢; exact err_cast hd
    | ok n =>
      simp only [hl] at hd ⊢
      cases hs : resolveSlice n d.keys spec with
      | error e' => simp only [hs] at hd ⊢; exact err_cast hd
      | ok sel => simp [hs] at hd

/-- on a `filterDS` the model raises the `AssertionError` of `FilterDataset.__getitem__`, the reference
    the `RuntimeError` of a non-indexable input -/
theorem mkSlice_filterDS (spec : SliceSpec) (f : Val → Res Bool) (d0 : DS) :
    mkSlice spec (filterDS f d0) = .error .assertionError := rfl

theorem ref_mkSlice_of_not_indexable (spec : SliceSpec) {r : RefDS} (hi : r.indexable = false) :
    Ref.mkSlice spec r = .error .runtimeError := by
  unfold Ref.mkSlice
  simp [hi, bind, Except.bind, throw, throwThe, MonadExceptOf.throw]

/-- the general form: equal errors, or the guard corner -/
theorem relerr_mkSlice_gen {d : DS} {r : RefDS} {e : Err} (spec : SliceSpec) (h : Rel d r) (hinv : BInv d)
    (hd : mkSlice spec d = .error e) :
    Ref.mkSlice spec r = .error e ∨
      (d.sliceGuard ≠ .ok () ∧ e = .assertionError ∧ Ref.mkSlice spec r = .error .runtimeError) := by
  rcases hinv.guard with hg | ⟨f, d0, rfl⟩
  · exact .inl (relerr_mkSlice spec h hg hd)
  · right
    rw [mkSlice_filterDS] at hd
    injection hd with hd
    refine ⟨(by intro hc; cases hc), hd.symm, ?_⟩
    exact ref_mkSlice_of_not_indexable spec (by rw [← h.indexable]; rfl)

theorem mkSlice_ok {d d' : DS} (spec : SliceSpec) (hd : mkSlice spec d = .ok d') : ∃ sel, d' = sliceDS sel d := by
  unfold mkSlice at hd
  simp only [bind, Except.bind] at hd
  cases hg : d.sliceGuard with
  | error e => simp [hg] at hd
  | ok u =>
    simp only [hg] at hd
    cases hi : d.indexable with
    | false => simp [hi, throw, throwThe, MonadExceptOf.throw] at hd
    | true =>
      simp only [hi, Bool.not_true, Bool.false_eq_true, if_false] at hd
      cases hl : d.len with
      | error e => simp [hl] at hd
      | ok n =>
        simp only [hl] at hd
        cases hs : resolveSlice n d.keys spec with
        | error e => simp [hs] at hd
        | ok sel =>
          simp only [hs] at hd
          injection hd with hd
          exact ⟨sel, hd.symm⟩

theorem inv_sliceDS {d : DS} (sel : List Nat) (h : BInv d) : BInv (sliceDS sel d) := ⟨h.ordered, .inl rfl⟩

theorem inv_mkSlice {d d' : DS} (spec : SliceSpec) (h : BInv d) (hd : mkSlice spec d = .ok d') : BInv d' := by
  obtain ⟨sel, rfl⟩ := mkSlice_ok spec hd
  exact inv_sliceDS sel h

/-! ### the eager operations built on `mkSlice` -/

theorem relerr_mkFilterEager {d : DS} {r : RefDS} {e : Err} (f : Val → Res Bool) (h : Rel d r) (hinv : BInv d)
    (hd : mkFilterEager f d = .error e) : Ref.mkFilterEager f r = .error e := by
  unfold mkFilterEager at hd
  unfold Ref.mkFilterEager
  rw [← h.indexable, ← h.iter, ← h.len]
  cases hi : d.indexable with
  | false =>
    simp only [hi, Bool.not_false, if_true, throw, throwThe, MonadExceptOf.throw, bind, Except.bind] at hd ⊢
    exact err_cast hd
  | true =>
    simp only [hi, Bool.not_true, Bool.false_eq_true, if_false, bind, Except.bind] at hd ⊢
    cases hx : filterIdx f d.iter.vals 0 with
    | error e' => simp only [hx] at hd ⊢; exact err_cast hd
    | ok idx =>
      simp only [hx] at hd ⊢
      cases hv : streamToRes d.iter with
      | error e' => simp only [hv] at hd ⊢; exact err_cast hd
      | ok vs =>
        simp only [hv] at hd ⊢
        cases hl : d.len with
        | error e' => simp only [hl] at hd ⊢; exact err_cast hd
        | ok n =>
          simp only [hl] at hd ⊢
          exact relerr_mkSlice _ h (hinv.guard_of_indexable hi) hd

theorem mkFilterEager_ok {d d' : DS} (f : Val → Res Bool) (hd : mkFilterEager f d = .ok d') :
    ∃ spec, mkSlice spec d = .ok d' := by
  unfold mkFilterEager at hd
  cases hi : d.indexable with
  | false => simp [hi, throw, throwThe, MonadExceptOf.throw, bind, Except.bind] at hd
  | true =>
    simp only [hi, Bool.not_true, Bool.false_eq_true, if_false, bind, Except.bind] at hd
    cases hx : filterIdx f d.iter.vals 0 with
    | error e' => simp [hx] at hd
    | ok idx =>
      simp only [hx] at hd
      cases hv : streamToRes d.iter with
      | error e' => simp [hv] at hd
      | ok vs =>
        simp only [hv] at hd
        cases hl : d.len with
        | error e' => simp [hl] at hd
        | ok n =>
          simp only [hl] at hd
          exact ⟨_, hd⟩

theorem relerr_mkShuffleOnce {d : DS} {r : RefDS} {e : Err} (perm : List Nat) (h : Rel d r) (hinv : BInv d)
    (hd : mkShuffleOnce perm d = .error e) : Ref.mkShuffleOnce perm r = .error e := by
  unfold mkShuffleOnce at hd
  unfold Ref.mkShuffleOnce
  rw [← h.len]
  cases hl : d.len with
  | error e' => simp only [hl, bind, Except.bind] at hd ⊢; exact err_cast hd
  | ok n =>
    simp only [hl, bind, Except.bind] at hd ⊢
    exact relerr_mkSlice _ h (hinv.guard_of_len hl) hd

theorem mkShuffleOnce_ok {d d' : DS} (perm : List Nat) (hd : mkShuffleOnce perm d = .ok d') :
    ∃ spec, mkSlice spec d = .ok d' := by
  unfold mkShuffleOnce at hd
  cases hl : d.len with
  | error e' => simp [hl, bind, Except.bind] at hd
  | ok n =>
    simp only [hl, bind, Except.bind] at hd
    exact ⟨_, hd⟩

/-- `sort`: without a key function the key table is asked first (a `filterDS` has none: same
    `RuntimeError` on both sides); with a key function the examples are evaluated first and then
    `self[order]` hits the guard corner of `mkSlice` -/
theorem relerr_mkSort_gen {d : DS} {r : RefDS} {e : Err} (keyFn : Option (Val → Res Val)) (rev : Bool)
    (h : Rel d r) (hinv : BInv d) (hd : mkSort keyFn rev d = .error e) :
    Ref.mkSort keyFn rev r = .error e ∨
      (keyFn.isSome = true ∧ d.sliceGuard ≠ .ok () ∧ e = .assertionError ∧
        Ref.mkSort keyFn rev r = .error .runtimeError) := by
  unfold mkSort at hd
  unfold Ref.mkSort
  cases keyFn with
  | none =>
    left
    simp only at hd ⊢
    rw [← h.keys]
    cases hk : d.keys with
    | error e' =>
      simp only [hk] at hd ⊢
      by_cases hn : (e' == Err.notImplemented) = true
      · simp only [hn, if_true] at hd ⊢; exact err_cast hd
      · simp only [hn] at hd ⊢; exact err_cast hd
    | ok ks =>
      simp only [hk] at hd ⊢
      exact relerr_mkSlice _ h (hinv.guard_of_keys hk) hd
  | some f =>
    simp only [bind, Except.bind] at hd ⊢
    rw [← h.iter]
    cases hm : d.iter.vals.mapM f with
    | error e' => simp only [hm] at hd ⊢; exact .inl (err_cast hd)
    | ok kv =>
      simp only [hm] at hd ⊢
      cases hv : streamToRes d.iter with
      | error e' => simp only [hv] at hd ⊢; exact .inl (err_cast hd)
      | ok vs =>
        simp only [hv] at hd ⊢
        have key : ∀ spec, mkSlice spec d = .error e →
            Ref.mkSlice spec r = .error e ∨
              ((some f).isSome = true ∧ d.sliceGuard ≠ .ok () ∧ e = .assertionError ∧
                Ref.mkSlice spec r = .error .runtimeError) := by
          intro spec hs
          rcases relerr_mkSlice_gen spec h hinv hs with h1 | ⟨h1, h2, h3⟩
          · exact .inl h1
          · exact .inr ⟨rfl, h1, h2, h3⟩
        cases ha : asInts kv with
        | some is =>
          simp only [ha] at hd ⊢
          exact key _ hd
        | none =>
          simp only [ha] at hd ⊢
          cases hb : asStrs kv with
          | some ss =>
            simp only [hb] at hd ⊢
            exact key _ hd
          | none =>
            simp only [hb] at hd ⊢
            split at hd
            · rename_i hle
              simp only [hle, if_true]
              exact key _ hd
            · rename_i hle
              simp only [hle, if_false]
              exact .inl (err_cast hd)

theorem mkSort_ok {d d' : DS} (keyFn : Option (Val → Res Val)) (rev : Bool) (hd : mkSort keyFn rev d = .ok d') :
    ∃ spec, mkSlice spec d = .ok d' := by
  unfold mkSort at hd
  cases keyFn with
  | none =>
    simp only at hd
    cases hk : d.keys with
    | error e =>
      simp only [hk] at hd
      split at hd <;> cases hd
    | ok ks =>
      simp only [hk] at hd
      exact ⟨_, hd⟩
  | some f =>
    simp only [bind, Except.bind] at hd
    cases hm : d.iter.vals.mapM f with
    | error e => simp [hm] at hd
    | ok kv =>
      simp only [hm] at hd
      cases hv : streamToRes d.iter with
      | error e => simp [hv] at hd
      | ok vs =>
        simp only [hv] at hd
        cases ha : asInts kv with
        | some is => simp only [ha] at hd; exact ⟨_, hd⟩
        | none =>
          simp only [ha] at hd
          cases hb : asStrs kv with
          | some ss => simp only [hb] at hd; exact ⟨_, hd⟩
          | none =>
            simp only [hb] at hd
            split at hd
            · exact ⟨_, hd⟩
            · cases hd

/-- lifting "same error" through `List.mapM`: the first failing element fails identically, the ones
    before it succeed on both sides -/
theorem mapM_relerr {α} (f : α → Res DS) (g : α → Res RefDS)
    (hok : ∀ a d, f a = .ok d → ∃ r, g a = .ok r)
    (herr : ∀ a e, f a = .error e → g a = .error e) :
    ∀ (l : List α) (e : Err), l.mapM f = .error e → l.mapM g = .error e
  | [], e, h => by simp only [List.mapM_nil] at h; cases h
  | a :: l, e, h => by
    simp only [List.mapM_cons] at h ⊢
    cases hfa : f a with
    | error e' =>
      rw [hfa] at h
      rw [herr a e' hfa]
      exact err_cast h
    | ok d =>
      rw [hfa] at h
      obtain ⟨r, hr⟩ := hok a d hfa
      rw [hr]
      cases hl : l.mapM f with
      | error e' =>
        rw [hl] at h
        rw [mapM_relerr f g hok herr l e' hl]
        exact err_cast h
      | ok ds => rw [hl] at h; cases h

theorem relerr_mkSplit {d : DS} {r : RefDS} {e : Err} (k : Int) (h : Rel d r) (hinv : BInv d)
    (hd : mkSplit k d = .error e) : Ref.mkSplit k r = .error e := by
  unfold mkSplit at hd
  unfold Ref.mkSplit
  rw [← h.len]
  by_cases hk : k < 1
  · simp only [hk, if_true, throw, throwThe, MonadExceptOf.throw, bind, Except.bind] at hd ⊢
    exact err_cast hd
  · simp only [hk, if_false, bind, Except.bind] at hd ⊢
    cases hl : d.len with
    | error e' => simp only [hl] at hd ⊢; exact err_cast hd
    | ok n =>
      simp only [hl] at hd ⊢
      by_cases hkn : k > (n : Int)
      · simp only [hkn, if_true, throw, throwThe, MonadExceptOf.throw] at hd ⊢
        exact err_cast hd
      · simp only [hkn, if_false] at hd ⊢
        have hg := hinv.guard_of_len hl
        exact mapM_relerr _ _
          (fun i d' hd' => by obtain ⟨r', hr', _⟩ := rel_mkSlice _ h hd'; exact ⟨r', hr'⟩)
          (fun i e' hd' => relerr_mkSlice _ h hg hd') _ e hd

theorem forall₂_pyIndex_err {ds : List DS} {rs : List RefDS} (h : List.Forall₂ Rel ds rs) (i : Int) (e : Err)
    (hd : pyIndex ds i = .error e) : pyIndex rs i = .error e := by
  cases hr : pyIndex rs i with
  | error e' => rw [pyIndex_error _ _ _ hd, pyIndex_error _ _ _ hr]
  | ok r =>
    exfalso
    have hlen : ds.length = rs.length := forall₂_length h
    rw [pyIndex_eq] at hd hr
    rw [hlen] at hd
    generalize (if i < 0 then i + (rs.length : Int) else i) = j at hd hr
    unfold pyCore at hd hr
    by_cases hj : j < 0
    · simp [hj] at hr
    · simp only [hj, if_false] at hd hr
      have h1 : j.toNat < rs.length := by
        cases hx : rs[j.toNat]? with
        | none => simp [hx] at hr
        | some v => exact (List.getElem?_eq_some_iff.mp hx).1
      have h2 : ds[j.toNat]? = some (ds[j.toNat]'(by omega)) := List.getElem?_eq_getElem (by omega)
      simp [h2] at hd

theorem relerr_mkShard {d : DS} {r : RefDS} {e : Err} (k i : Int) (h : Rel d r) (hinv : BInv d)
    (hd : mkShard k i d = .error e) : Ref.mkShard k i r = .error e := by
  unfold mkShard at hd
  unfold Ref.mkShard
  cases hs : mkSplit k d with
  | error e' =>
    simp only [hs, bind, Except.bind] at hd
    simp only [relerr_mkSplit k h hinv hs, bind, Except.bind]
    exact err_cast hd
  | ok parts =>
    simp only [hs, bind, Except.bind] at hd
    obtain ⟨rs, hrs, hall⟩ := rel_mkSplit k h parts hs
    simp only [hrs, bind, Except.bind]
    exact forall₂_pyIndex_err hall i e hd

theorem mkSplit_ok_mem {d : DS} (k : Int) (parts : List DS) (hd : mkSplit k d = .ok parts) :
    ∀ d' ∈ parts, ∃ spec, mkSlice spec d = .ok d' := by
  unfold mkSplit at hd
  by_cases hk : k < 1
  · simp [hk, throw, throwThe, MonadExceptOf.throw, bind, Except.bind] at hd
  · simp only [hk, if_false, bind, Except.bind] at hd
    cases hl : d.len with
    | error e => simp [hl] at hd
    | ok n =>
      simp only [hl] at hd
      by_cases hkn : k > (n : Int)
      · simp [hkn, throw, throwThe, MonadExceptOf.throw] at hd
      · simp only [hkn, if_false] at hd
        obtain ⟨hlen, hget⟩ := mapM_ok _ _ parts hd
        intro d' hd'
        obtain ⟨t, ht, rfl⟩ := List.getElem_of_mem hd'
        exact ⟨_, hget t (by omega) ht⟩

theorem mkShard_ok {d d' : DS} (k i : Int) (hd : mkShard k i d = .ok d') : ∃ spec, mkSlice spec d = .ok d' := by
  unfold mkShard at hd
  cases hs : mkSplit k d with
  | error e => simp [hs, bind, Except.bind] at hd
  | ok parts =>
    simp only [hs, bind, Except.bind] at hd
    exact mkSplit_ok_mem k parts hs d' (pyIndex_ok_mem _ _ _ hd)

/-! ### n-ary stages -/

theorem relerr_mkConcat {ds : List DS} {rs : List RefDS} {e : Err} (h : List.Forall₂ Rel ds rs)
    (hd : mkConcat ds = .error e) : Ref.mkConcat rs = .error e := by
  cases h with
  | nil => exact err_cast hd
  | cons hr ht =>
    cases ht with
    | nil => simp only [mkConcat] at hd; cases hd
    | cons hr1 ht' => simp only [mkConcat] at hd; cases hd

theorem relerr_mkIntersperse {ds : List DS} {rs : List RefDS} {e : Err} (h : List.Forall₂ Rel ds rs)
    (hd : mkIntersperse ds = .error e) : Ref.mkIntersperse rs = .error e := by
  have hal := isp_forall₂_allLens h
  unfold mkIntersperse at hd
  unfold Ref.mkIntersperse
  rw [← hal]
  cases h with
  | nil =>
    simp only [List.isEmpty_nil, if_true, throw, throwThe, MonadExceptOf.throw, bind, Except.bind] at hd ⊢
    exact err_cast hd
  | @cons d0 r0 ds' rs' hr ht =>
    simp only [List.isEmpty_cons, Bool.false_eq_true, if_false, bind, Except.bind] at hd ⊢
    cases hl : allLens (d0 :: ds') with
    | error e' => simp only [hl] at hd ⊢; exact err_cast hd
    | ok lens =>
      simp only [hl] at hd ⊢
      cases hz : lens.any (· == 0) with
      | true =>
        simp only [hz, if_true, throw, throwThe, MonadExceptOf.throw] at hd ⊢
        exact err_cast hd
      | false => simp [hz] at hd

theorem relerr_mkZip {ds : List DS} {rs : List RefDS} {e : Err} (h : List.Forall₂ Rel ds rs)
    (hd : mkZip ds = .error e) : Ref.mkZip rs = .error e := by
  have hal := allLens_eq h
  unfold mkZip at hd
  unfold Ref.mkZip
  rw [← hal]
  cases h with
  | nil =>
    simp only [List.isEmpty_nil, if_true, throw, throwThe, MonadExceptOf.throw, bind, Except.bind] at hd ⊢
    exact err_cast hd
  | @cons d0 r0 ds' rs' hr ht =>
    simp only [List.isEmpty_cons, Bool.false_eq_true, if_false, bind, Except.bind] at hd ⊢
    cases hl : allLens (d0 :: ds') with
    | error e' => simp only [hl] at hd ⊢; exact err_cast hd
    | ok lens =>
      simp only [hl] at hd ⊢
      cases hz : allEq lens with
      | false =>
        simp only [hz, Bool.not_false, if_true, throw, throwThe, MonadExceptOf.throw] at hd ⊢
        exact err_cast hd
      | true => simp [hz] at hd

theorem relerr_mkKeyZip {ds : List DS} {rs : List RefDS} {e : Err} (h : List.Forall₂ Rel ds rs)
    (hd : mkKeyZip ds = .error e) : Ref.mkKeyZip rs = .error e := by
  unfold mkKeyZip at hd
  unfold Ref.mkKeyZip
  rw [isp_forall₂_mapM_keys h] at hd
  rw [← isp_forall₂_length h]
  by_cases hlt : ds.length < 2
  · simp only [hlt, if_true, throw, throwThe, MonadExceptOf.throw, bind, Except.bind] at hd ⊢
    exact err_cast hd
  · simp only [hlt, if_false, bind, Except.bind] at hd ⊢
    cases hkss : rs.mapM (·.keys) with
    | error e' => simp only [hkss] at hd ⊢; exact err_cast hd
    | ok kss =>
      simp only [hkss] at hd ⊢
      cases hs : sameKeySets kss with
      | false =>
        simp only [hs, Bool.not_false, if_true, throw, throwThe, MonadExceptOf.throw] at hd ⊢
        exact err_cast hd
      | true => simp [hs] at hd

/-! ### unary stages with their own argument checks -/

theorem relerr_mkTile {d : DS} {r : RefDS} {e : Err} {n : Nat} (hd : mkTile n d = .error e) :
    Ref.mkTile n r = .error e := by
  match n, hd with
  | 0, hd => exact err_cast hd
  | 1, hd => simp only [mkTile] at hd; cases hd
  | n + 2, hd => simp only [mkTile] at hd; cases hd

theorem relerr_mkCache {d : DS} {r : RefDS} {e : Err} (h : Rel d r) (hd : mkCache d = .error e) :
    Ref.mkCache r = .error e := by
  unfold mkCache at hd
  unfold Ref.mkCache
  rw [← h.indexable]
  cases hi : d.indexable with
  | true => simp [hi] at hd
  | false =>
    simp only [hi, Bool.false_eq_true, if_false] at hd ⊢
    exact err_cast hd

/-- eager cache: the reference is told `ordered = true`, which is what every built dataset has -/
theorem relerr_mkCacheEager {d : DS} {r : RefDS} {e : Err} (h : Rel d r) (hinv : BInv d)
    (hd : mkCacheEager d = .error e) : Ref.mkCacheEager r true = .error e := by
  unfold mkCacheEager at hd
  unfold Ref.mkCacheEager
  rw [h.iterK, h.iter] at hd
  simp only [hinv.ordered, Bool.or_true, Bool.not_true, Bool.false_eq_true, if_false, bind, Except.bind] at hd ⊢
  cases he : r.kstream.err with
  | some e0 =>
    simp only [he] at hd ⊢
    by_cases hee : (e0 == Err.itemsNotDefinedInternal) = true
    · simp only [hee, if_true] at hd ⊢
      cases hv : streamToRes r.stream with
      | error e' => simp only [hv] at hd ⊢; exact err_cast hd
      | ok vs => simp [hv] at hd
    · simp only [hee] at hd ⊢
      exact err_cast hd
  | none =>
    simp only [he] at hd
    split at hd <;> cases hd

theorem relerr_mkPrefetch (w b : Nat) (t : Bool) (ce : Option (List Err)) {d : DS} {r : RefDS} {e : Err}
    (h : Rel d r) (hd : mkPrefetch w b t ce d = .error e) : Ref.mkPrefetch w b t ce r = .error e := by
  unfold mkPrefetch at hd
  unfold Ref.mkPrefetch
  rw [h.len] at hd
  by_cases hs : (w == 1 && t) = true <;> by_cases h1 : w < 1 <;> by_cases h2 : b < w <;>
    cases hr : r.len <;>
    simp [hs, h1, h2, hr, bind, Except.bind, throw, throwThe, MonadExceptOf.throw] at hd ⊢ <;>
    exact hd

/-! ### `BInv` is an invariant of `build` -/

theorem inv_mkConcat {ds : List DS} {d : DS} (h : ∀ d ∈ ds, BInv d) (hd : mkConcat ds = .ok d) : BInv d := by
  match ds, h, hd with
  | [], _, hd => cases hd
  | [d0], h, hd =>
    simp only [mkConcat] at hd; cases hd
    exact h _ (List.mem_singleton.mpr rfl)
  | d0 :: d1 :: rest, h, hd =>
    simp only [mkConcat] at hd; cases hd
    exact ⟨all_ordered h, .inl rfl⟩

theorem inv_mkTile {d d' : DS} {n : Nat} (h : BInv d) (hd : mkTile n d = .ok d') : BInv d' := by
  match n, hd with
  | 0, hd => cases hd
  | 1, hd => simp only [mkTile] at hd; cases hd; exact h
  | n + 2, hd =>
    simp only [mkTile] at hd; cases hd
    exact ⟨all_ordered (fun d0 hd0 => by rw [List.eq_of_mem_replicate hd0]; exact h), .inl rfl⟩

theorem inv_mkIntersperse {ds : List DS} {d : DS} (h : ∀ d ∈ ds, BInv d) (hd : mkIntersperse ds = .ok d) :
    BInv d := by
  unfold mkIntersperse at hd
  simp only [bind, Except.bind] at hd
  split at hd
  · cases hd
  · split at hd
    · cases hd
    · split at hd
      · cases hd
      · cases hd
        exact ⟨all_ordered h, .inl rfl⟩

theorem inv_mkZip {ds : List DS} {d : DS} (h : ∀ d ∈ ds, BInv d) (hd : mkZip ds = .ok d) : BInv d := by
  unfold mkZip at hd
  simp only [bind, Except.bind] at hd
  split at hd
  · cases hd
  · split at hd
    · cases hd
    · split at hd
      · cases hd
      · cases hd
        exact ⟨all_ordered h, .inl rfl⟩

theorem inv_mkKeyZip {ds : List DS} {d : DS} (hd : mkKeyZip ds = .ok d) : BInv d := by
  unfold mkKeyZip at hd
  simp only [bind, Except.bind] at hd
  split at hd
  · cases hd
  · split at hd
    · cases hd
    · split at hd
      · cases hd
      · cases hd
        exact ⟨rfl, .inl rfl⟩

theorem inv_mkCache {d d' : DS} (h : BInv d) (hd : mkCache d = .ok d') : BInv d' := by
  unfold mkCache at hd
  split at hd
  · cases hd; exact ⟨h.ordered, .inl rfl⟩
  · cases hd

theorem inv_mkCacheEager {d d' : DS} (hd : mkCacheEager d = .ok d') : BInv d' := by
  unfold mkCacheEager at hd
  simp only [bind, Except.bind] at hd
  split at hd
  · cases hd
  · split at hd
    · split at hd
      · split at hd
        · cases hd
        · cases hd; exact ⟨rfl, .inl rfl⟩
      · cases hd
    · split at hd
      · cases hd; exact ⟨rfl, .inl rfl⟩
      · cases hd; exact ⟨rfl, .inl rfl⟩

theorem mkPrefetch_ok' (w b : Nat) (t : Bool) (ce : Option (List Err)) {d d' : DS}
    (hd : mkPrefetch w b t ce d = .ok d') : d' = prefetchDS w t ce d := by
  unfold mkPrefetch at hd
  by_cases hs : (w == 1 && t) = true <;> by_cases h1 : w < 1 <;> by_cases h2 : b < w <;>
    cases hr : d.len <;>
    simp [hs, h1, h2, hr, bind, Except.bind, throw, throwThe, MonadExceptOf.throw] at hd <;>
    exact hd.symm

theorem inv_mkPrefetch (w b : Nat) (t : Bool) (ce : Option (List Err)) {d d' : DS} (h : BInv d)
    (hd : mkPrefetch w b t ce d = .ok d') : BInv d' := by
  rw [mkPrefetch_ok' w b t ce hd]
  exact ⟨h.ordered, .inl rfl⟩

mutual
theorem build_inv (ρ : Env) : (p : Pipeline) → ∀ d, build ρ p = .ok d → BInv d
  | .listSrc xs, d, h => by simp only [build] at h; cases h; exact ⟨rfl, .inl rfl⟩
  | .dictSrc kvs, d, h => by simp only [build] at h; cases h; exact ⟨rfl, .inl rfl⟩
  | .map f p, d, h => by
    simp only [build, bind, Except.bind] at h
    cases hb : build ρ p with
    | error e => simp [hb] at h
    | ok d0 => simp only [hb] at h; cases h; exact ⟨(build_inv ρ p d0 hb).ordered, .inl rfl⟩
  | .parMap f w b p, d, h => by
    simp only [build, bind, Except.bind] at h
    cases hb : build ρ p with
    | error e => simp [hb] at h
    | ok d0 =>
      simp only [hb] at h
      split at h
      · cases h; exact ⟨(build_inv ρ p d0 hb).ordered, .inl rfl⟩
      · cases h; exact ⟨(build_inv ρ p d0 hb).ordered, .inl rfl⟩
  | .filterLazy f p, d, h => by
    simp only [build, bind, Except.bind] at h
    cases hb : build ρ p with
    | error e => simp [hb] at h
    | ok d0 => simp only [hb] at h; cases h; exact ⟨(build_inv ρ p d0 hb).ordered, .inr ⟨_, _, rfl⟩⟩
  | .filterEager f p, d, h => by
    simp only [build, bind, Except.bind] at h
    cases hb : build ρ p with
    | error e => simp [hb] at h
    | ok d0 =>
      simp only [hb] at h
      obtain ⟨spec, hs⟩ := mkFilterEager_ok _ h
      exact inv_mkSlice spec (build_inv ρ p d0 hb) hs
  | .slice s p, d, h => by
    simp only [build, bind, Except.bind] at h
    cases hb : build ρ p with
    | error e => simp [hb] at h
    | ok d0 => simp only [hb] at h; exact inv_mkSlice s (build_inv ρ p d0 hb) h
  | .concat ps, d, h => by
    simp only [build, bind, Except.bind] at h
    cases hb : buildAll ρ ps with
    | error e => simp [hb] at h
    | ok ds => simp only [hb] at h; exact inv_mkConcat (buildAll_inv ρ ps ds hb) h
  | .intersperse ps, d, h => by
    simp only [build, bind, Except.bind] at h
    cases hb : buildAll ρ ps with
    | error e => simp [hb] at h
    | ok ds =>
      simp only [hb] at h
      have hall := buildAll_inv ρ ps ds hb
      match ds, h, hall with
      | [], h, _ => cases h
      | [d1], h, hall => cases h; exact hall _ (List.mem_singleton.mpr rfl)
      | d1 :: d2 :: rest, h, hall => exact inv_mkIntersperse hall h
  | .zip ps, d, h => by
    simp only [build, bind, Except.bind] at h
    cases hb : buildAll ρ ps with
    | error e => simp [hb] at h
    | ok ds =>
      simp only [hb] at h
      split at h
      · cases h
      · exact inv_mkZip (buildAll_inv ρ ps ds hb) h
  | .keyZip ps, d, h => by
    simp only [build, bind, Except.bind] at h
    cases hb : buildAll ρ ps with
    | error e => simp [hb] at h
    | ok ds =>
      simp only [hb] at h
      split at h
      · cases h
      · exact inv_mkKeyZip h
  | .batch n dl p, d, h => by
    simp only [build, bind, Except.bind] at h
    cases hb : build ρ p with
    | error e => simp [hb] at h
    | ok d0 => simp only [hb] at h; cases h; exact ⟨(build_inv ρ p d0 hb).ordered, .inl rfl⟩
  | .unbatch p, d, h => by
    simp only [build, bind, Except.bind] at h
    cases hb : build ρ p with
    | error e => simp [hb] at h
    | ok d0 => simp only [hb] at h; cases h; exact ⟨(build_inv ρ p d0 hb).ordered, .inl rfl⟩
  | .items p, d, h => by
    simp only [build, bind, Except.bind] at h
    cases hb : build ρ p with
    | error e => simp [hb] at h
    | ok d0 => simp only [hb] at h; cases h; exact ⟨(build_inv ρ p d0 hb).ordered, .inl rfl⟩
  | .tile n p, d, h => by
    simp only [build, bind, Except.bind] at h
    cases hb : build ρ p with
    | error e => simp [hb] at h
    | ok d0 => simp only [hb] at h; exact inv_mkTile (build_inv ρ p d0 hb) h
  | .shuffleOnce perm p, d, h => by
    simp only [build, bind, Except.bind] at h
    cases hb : build ρ p with
    | error e => simp [hb] at h
    | ok d0 =>
      simp only [hb] at h
      obtain ⟨spec, hs⟩ := mkShuffleOnce_ok perm h
      exact inv_mkSlice spec (build_inv ρ p d0 hb) hs
  | .sort key rev p, d, h => by
    simp only [build, bind, Except.bind] at h
    cases hb : build ρ p with
    | error e => simp [hb] at h
    | ok d0 =>
      simp only [hb] at h
      obtain ⟨spec, hs⟩ := mkSort_ok _ rev h
      exact inv_mkSlice spec (build_inv ρ p d0 hb) hs
  | .shard k i p, d, h => by
    simp only [build, bind, Except.bind] at h
    cases hb : build ρ p with
    | error e => simp [hb] at h
    | ok d0 =>
      simp only [hb] at h
      obtain ⟨spec, hs⟩ := mkShard_ok k i h
      exact inv_mkSlice spec (build_inv ρ p d0 hb) hs
  | .cache p, d, h => by
    simp only [build, bind, Except.bind] at h
    cases hb : build ρ p with
    | error e => simp [hb] at h
    | ok d0 => simp only [hb] at h; exact inv_mkCache (build_inv ρ p d0 hb) h
  | .cacheEager p, d, h => by
    simp only [build, bind, Except.bind] at h
    cases hb : build ρ p with
    | error e => simp [hb] at h
    | ok d0 => simp only [hb] at h; exact inv_mkCacheEager h
  | .catch E p, d, h => by
    simp only [build, bind, Except.bind] at h
    cases hb : build ρ p with
    | error e => simp [hb] at h
    | ok d0 => simp only [hb] at h; cases h; exact ⟨(build_inv ρ p d0 hb).ordered, .inl rfl⟩
  | .copy _ p, d, h => by
    simp only [build] at h
    exact build_inv ρ p d h
  | .prefetch w b t ce p, d, h => by
    simp only [build, bind, Except.bind] at h
    cases hb : build ρ p with
    | error e => simp [hb] at h
    | ok d0 => simp only [hb] at h; exact inv_mkPrefetch w b t ce (build_inv ρ p d0 hb) h
  | .cycle p, d, h => by
    simp only [build, bind, Except.bind] at h
    cases hb : build ρ p with
    | error e => simp [hb] at h
    | ok d0 => simp only [hb] at h; cases h; exact ⟨(build_inv ρ p d0 hb).ordered, .inl rfl⟩
theorem buildAll_inv (ρ : Env) : (ps : Pipelines) → ∀ ds, buildAll ρ ps = .ok ds → ∀ d ∈ ds, BInv d
  | .nil, ds, h => by
    simp only [buildAll] at h; cases h
    intro d hd; cases hd
  | .cons p ps, ds, h => by
    simp only [buildAll, bind, Except.bind] at h
    cases hb : build ρ p with
    | error e => simp [hb] at h
    | ok d0 =>
      simp only [hb] at h
      cases hbs : buildAll ρ ps with
      | error e => simp [hbs] at h
      | ok ds0 =>
        simp only [hbs] at h; cases h
        intro d hd
        cases hd with
        | head => exact build_inv ρ p d0 hb
        | tail _ hd => exact buildAll_inv ρ ps ds0 hbs d hd
end

/-! ### the pipelines on which the error classes agree

`AdmErr` excludes the one corner where they do not: a `[...]` selection or a `sort(key_fn)` applied
directly to a dataset whose `__getitem__` asserts before `SliceDataset.__init__` runs (in the model:
`sliceGuard ≠ .ok ()`; by `build_inv` that is exactly a lazy `filter`, possibly seen through the
transparent stages `copy`, `tile 1`, and one-part `concatenate` / `intersperse`).  For `sort` the condition is
sufficient, not necessary (a failing key function is reported identically on both sides);
`build_err_ref_gen` is the exact statement. -/

mutual
def AdmErr (ρ : Env) : Pipeline → Prop
  | .listSrc _ => True
  | .dictSrc _ => True
  | .map _ p => AdmErr ρ p
  | .parMap _ _ _ p => AdmErr ρ p
  | .filterLazy _ p => AdmErr ρ p
  | .filterEager _ p => AdmErr ρ p
  | .slice _ p => AdmErr ρ p ∧ ∀ d, build ρ p = .ok d → d.sliceGuard = .ok ()
  | .concat ps => AdmErrAll ρ ps
  | .intersperse ps => AdmErrAll ρ ps
  | .zip ps => AdmErrAll ρ ps
  | .keyZip ps => AdmErrAll ρ ps
  | .batch _ _ p => AdmErr ρ p
  | .unbatch p => AdmErr ρ p
  | .items p => AdmErr ρ p
  | .tile _ p => AdmErr ρ p
  | .shuffleOnce _ p => AdmErr ρ p
  | .sort key _ p => AdmErr ρ p ∧ (key.isSome = true → ∀ d, build ρ p = .ok d → d.sliceGuard = .ok ())
  | .shard _ _ p => AdmErr ρ p
  | .cache p => AdmErr ρ p
  | .cacheEager p => AdmErr ρ p
  | .catch _ p => AdmErr ρ p
  | .copy _ p => AdmErr ρ p
  | .prefetch _ _ _ _ p => AdmErr ρ p
  | .cycle p => AdmErr ρ p
def AdmErrAll (ρ : Env) : Pipelines → Prop
  | .nil => True
  | .cons p ps => AdmErr ρ p ∧ AdmErrAll ρ ps
end

/-- an error (or the guard corner) of a sub-pipeline propagates through the rest of the constructor -/
theorem gen_bind {α β} {A B : Prop} (hBA : B → A) {x : Res α} {e : Err} (k : α → Res β)
    (h : x = .error e ∨ (¬A ∧ e = .assertionError ∧ x = .error .runtimeError)) :
    (x >>= k) = .error e ∨ (¬B ∧ e = .assertionError ∧ (x >>= k) = .error .runtimeError) := by
  rcases h with h | ⟨h1, h2, h3⟩
  · left; rw [h]; rfl
  · right; exact ⟨fun hb => h1 (hBA hb), h2, by rw [h3]; rfl⟩

/-! ### the converse of `build_ref` for construction-time errors -/

mutual
/-- If the lazy pipeline refuses to be constructed with `e`, the eager reference refuses with `e` too;
    the only exception is the guard corner (`¬ AdmErr`), where the model raises `AssertionError` and the
    reference `RuntimeError`. -/
theorem build_err_ref_gen (ρ : Env) (hρ : EnvOK ρ) :
    (p : Pipeline) → Adm ρ p → ∀ e, build ρ p = .error e →
      ref ρ p = .error e ∨ (¬ AdmErr ρ p ∧ e = .assertionError ∧ ref ρ p = .error .runtimeError)
  | .listSrc xs, _, e, h => by simp only [build] at h; cases h
  | .dictSrc kvs, _, e, h => by simp only [build] at h; cases h
  | .map f p, ha, e, h => by
    simp only [build, bind, Except.bind] at h
    cases hb : build ρ p with
    | error e0 =>
      simp only [hb] at h
      injection h with h; subst h
      simp only [ref]
      exact gen_bind (fun h => h) _ (build_err_ref_gen ρ hρ p ha e0 hb)
    | ok d0 =>
      simp only [hb] at h
      cases h
  | .parMap f w b p, ha, e, h => by
    simp only [build, bind, Except.bind] at h
    cases hb : build ρ p with
    | error e0 =>
      simp only [hb] at h
      injection h with h; subst h
      simp only [ref]
      exact gen_bind (fun h => h) _ (build_err_ref_gen ρ hρ p ha e0 hb)
    | ok d0 =>
      simp only [hb] at h
      split at h <;> cases h
  | .filterLazy f p, ha, e, h => by
    simp only [build, bind, Except.bind] at h
    cases hb : build ρ p with
    | error e0 =>
      simp only [hb] at h
      injection h with h; subst h
      simp only [ref]
      exact gen_bind (fun h => h) _ (build_err_ref_gen ρ hρ p ha e0 hb)
    | ok d0 =>
      simp only [hb] at h
      cases h
  | .filterEager f p, ha, e, h => by
    simp only [build, bind, Except.bind] at h
    cases hb : build ρ p with
    | error e0 =>
      simp only [hb] at h
      injection h with h; subst h
      simp only [ref]
      exact gen_bind (fun h => h) _ (build_err_ref_gen ρ hρ p ha e0 hb)
    | ok d0 =>
      simp only [hb] at h
      obtain ⟨r0, hr0, hrel⟩ := build_ref ρ hρ p ha d0 hb
      left
      simp only [ref, bind, Except.bind, hr0]
      exact relerr_mkFilterEager _ hrel (build_inv ρ p d0 hb) h
  | .slice s p, ha, e, h => by
    simp only [build, bind, Except.bind] at h
    cases hb : build ρ p with
    | error e0 =>
      simp only [hb] at h
      injection h with h; subst h
      simp only [ref]
      exact gen_bind (fun h => h.1) _ (build_err_ref_gen ρ hρ p ha e0 hb)
    | ok d0 =>
      simp only [hb] at h
      obtain ⟨r0, hr0, hrel⟩ := build_ref ρ hρ p ha d0 hb
      simp only [ref, bind, Except.bind, hr0]
      rcases relerr_mkSlice_gen s hrel (build_inv ρ p d0 hb) h with h1 | ⟨hg, he, h1⟩
      · exact .inl h1
      · exact .inr ⟨fun hae => hg (hae.2 d0 hb), he, h1⟩
  | .concat ps, ha, e, h => by
    simp only [build, bind, Except.bind] at h
    cases hb : buildAll ρ ps with
    | error e0 =>
      simp only [hb] at h
      injection h with h; subst h
      simp only [ref]
      exact gen_bind (fun h => h) _ (buildAll_err_ref_gen ρ hρ ps ha e0 hb)
    | ok ds =>
      simp only [hb] at h
      obtain ⟨rs, hrs, hall⟩ := buildAll_ref ρ hρ ps ha ds hb
      left
      simp only [ref, bind, Except.bind, hrs]
      exact relerr_mkConcat hall h
  | .intersperse ps, ha, e, h => by
    simp only [build, bind, Except.bind] at h
    cases hb : buildAll ρ ps with
    | error e0 =>
      simp only [hb] at h
      injection h with h; subst h
      simp only [ref]
      exact gen_bind (fun h => h) _ (buildAll_err_ref_gen ρ hρ ps ha e0 hb)
    | ok ds =>
      simp only [hb] at h
      obtain ⟨rs, hrs, hall⟩ := buildAll_ref ρ hρ ps ha ds hb
      left
      simp only [ref, bind, Except.bind, hrs]
      cases hall with
      | nil => exact err_cast h
      | cons h1 htl =>
        cases htl with
        | nil => cases h
        | cons h2 htl2 => exact relerr_mkIntersperse (List.Forall₂.cons h1 (List.Forall₂.cons h2 htl2)) h
  | .zip ps, ha, e, h => by
    simp only [build, bind, Except.bind] at h
    cases hb : buildAll ρ ps with
    | error e0 =>
      simp only [hb] at h
      injection h with h; subst h
      simp only [ref]
      exact gen_bind (fun h => h) _ (buildAll_err_ref_gen ρ hρ ps ha e0 hb)
    | ok ds =>
      simp only [hb] at h
      obtain ⟨rs, hrs, hall⟩ := buildAll_ref ρ hρ ps ha ds hb
      left
      simp only [ref, bind, Except.bind, hrs]
      cases hall with
      | nil => exact err_cast h
      | cons h1 htl =>
        simp only [List.isEmpty_cons, Bool.false_eq_true, if_false] at h ⊢
        exact relerr_mkZip (List.Forall₂.cons h1 htl) h
  | .keyZip ps, ha, e, h => by
    simp only [build, bind, Except.bind] at h
    cases hb : buildAll ρ ps with
    | error e0 =>
      simp only [hb] at h
      injection h with h; subst h
      simp only [ref]
      exact gen_bind (fun h => h) _ (buildAll_err_ref_gen ρ hρ ps ha.1 e0 hb)
    | ok ds =>
      simp only [hb] at h
      obtain ⟨rs, hrs, hall⟩ := buildAll_ref ρ hρ ps ha.1 ds hb
      left
      simp only [ref, bind, Except.bind, hrs]
      cases hall with
      | nil => exact err_cast h
      | cons h1 htl =>
        simp only [List.isEmpty_cons, Bool.false_eq_true, if_false] at h ⊢
        exact relerr_mkKeyZip (List.Forall₂.cons h1 htl) h
  | .batch n dl p, ha, e, h => by
    simp only [build, bind, Except.bind] at h
    cases hb : build ρ p with
    | error e0 =>
      simp only [hb] at h
      injection h with h; subst h
      simp only [ref]
      exact gen_bind (fun h => h) _ (build_err_ref_gen ρ hρ p ha.1 e0 hb)
    | ok d0 =>
      simp only [hb] at h
      cases h
  | .unbatch p, ha, e, h => by
    simp only [build, bind, Except.bind] at h
    cases hb : build ρ p with
    | error e0 =>
      simp only [hb] at h
      injection h with h; subst h
      simp only [ref]
      exact gen_bind (fun h => h) _ (build_err_ref_gen ρ hρ p ha e0 hb)
    | ok d0 =>
      simp only [hb] at h
      cases h
  | .items p, ha, e, h => by
    simp only [build, bind, Except.bind] at h
    cases hb : build ρ p with
    | error e0 =>
      simp only [hb] at h
      injection h with h; subst h
      simp only [ref]
      exact gen_bind (fun h => h) _ (build_err_ref_gen ρ hρ p ha.1 e0 hb)
    | ok d0 =>
      simp only [hb] at h
      cases h
  | .tile n p, ha, e, h => by
    simp only [build, bind, Except.bind] at h
    cases hb : build ρ p with
    | error e0 =>
      simp only [hb] at h
      injection h with h; subst h
      simp only [ref]
      exact gen_bind (fun h => h) _ (build_err_ref_gen ρ hρ p ha e0 hb)
    | ok d0 =>
      simp only [hb] at h
      obtain ⟨r0, hr0, hrel⟩ := build_ref ρ hρ p ha d0 hb
      left
      simp only [ref, bind, Except.bind, hr0]
      exact relerr_mkTile h
  | .shuffleOnce perm p, ha, e, h => by
    simp only [build, bind, Except.bind] at h
    cases hb : build ρ p with
    | error e0 =>
      simp only [hb] at h
      injection h with h; subst h
      simp only [ref]
      exact gen_bind (fun h => h) _ (build_err_ref_gen ρ hρ p ha e0 hb)
    | ok d0 =>
      simp only [hb] at h
      obtain ⟨r0, hr0, hrel⟩ := build_ref ρ hρ p ha d0 hb
      left
      simp only [ref, bind, Except.bind, hr0]
      exact relerr_mkShuffleOnce perm hrel (build_inv ρ p d0 hb) h
  | .sort key rev p, ha, e, h => by
    simp only [build, bind, Except.bind] at h
    cases hb : build ρ p with
    | error e0 =>
      simp only [hb] at h
      injection h with h; subst h
      simp only [ref]
      exact gen_bind (fun h => h.1) _ (build_err_ref_gen ρ hρ p ha e0 hb)
    | ok d0 =>
      simp only [hb] at h
      obtain ⟨r0, hr0, hrel⟩ := build_ref ρ hρ p ha d0 hb
      simp only [ref, bind, Except.bind, hr0]
      rcases relerr_mkSort_gen _ rev hrel (build_inv ρ p d0 hb) h with h1 | ⟨hk, hg, he, h1⟩
      · exact .inl h1
      · refine .inr ⟨fun hae => hg (hae.2 ?_ d0 hb), he, h1⟩
        simpa using hk
  | .shard k i p, ha, e, h => by
    simp only [build, bind, Except.bind] at h
    cases hb : build ρ p with
    | error e0 =>
      simp only [hb] at h
      injection h with h; subst h
      simp only [ref]
      exact gen_bind (fun h => h) _ (build_err_ref_gen ρ hρ p ha e0 hb)
    | ok d0 =>
      simp only [hb] at h
      obtain ⟨r0, hr0, hrel⟩ := build_ref ρ hρ p ha d0 hb
      left
      simp only [ref, bind, Except.bind, hr0]
      exact relerr_mkShard k i hrel (build_inv ρ p d0 hb) h
  | .cache p, ha, e, h => by
    simp only [build, bind, Except.bind] at h
    cases hb : build ρ p with
    | error e0 =>
      simp only [hb] at h
      injection h with h; subst h
      simp only [ref]
      exact gen_bind (fun h => h) _ (build_err_ref_gen ρ hρ p ha e0 hb)
    | ok d0 =>
      simp only [hb] at h
      obtain ⟨r0, hr0, hrel⟩ := build_ref ρ hρ p ha d0 hb
      left
      simp only [ref, bind, Except.bind, hr0]
      exact relerr_mkCache hrel h
  | .cacheEager p, ha, e, h => by
    simp only [build, bind, Except.bind] at h
    cases hb : build ρ p with
    | error e0 =>
      simp only [hb] at h
      injection h with h; subst h
      simp only [ref]
      exact gen_bind (fun h => h) _ (build_err_ref_gen ρ hρ p ha e0 hb)
    | ok d0 =>
      simp only [hb] at h
      obtain ⟨r0, hr0, hrel⟩ := build_ref ρ hρ p ha d0 hb
      left
      simp only [ref, bind, Except.bind, hr0]
      exact relerr_mkCacheEager hrel (build_inv ρ p d0 hb) h
  | .catch E p, ha, e, h => by
    simp only [build, bind, Except.bind] at h
    cases hb : build ρ p with
    | error e0 =>
      simp only [hb] at h
      injection h with h; subst h
      simp only [ref]
      exact gen_bind (fun h => h) _ (build_err_ref_gen ρ hρ p ha.1 e0 hb)
    | ok d0 =>
      simp only [hb] at h
      cases h
  | .copy _ p, ha, e, h => by
    simp only [build] at h
    simp only [ref]
    exact build_err_ref_gen ρ hρ p ha e h
  | .prefetch w b t ce p, ha, e, h => by
    simp only [build, bind, Except.bind] at h
    cases hb : build ρ p with
    | error e0 =>
      simp only [hb] at h
      injection h with h; subst h
      simp only [ref]
      exact gen_bind (fun h => h) _ (build_err_ref_gen ρ hρ p ha.1 e0 hb)
    | ok d0 =>
      simp only [hb] at h
      obtain ⟨r0, hr0, hrel⟩ := build_ref ρ hρ p ha.1 d0 hb
      left
      simp only [ref, bind, Except.bind, hr0]
      exact relerr_mkPrefetch w b t ce hrel h
  | .cycle p, ha, e, h => by cases ha
theorem buildAll_err_ref_gen (ρ : Env) (hρ : EnvOK ρ) :
    (ps : Pipelines) → AdmAll ρ ps → ∀ e, buildAll ρ ps = .error e →
      refAll ρ ps = .error e ∨ (¬ AdmErrAll ρ ps ∧ e = .assertionError ∧ refAll ρ ps = .error .runtimeError)
  | .nil, _, e, h => by simp only [buildAll] at h; cases h
  | .cons p ps, ha, e, h => by
    simp only [buildAll, bind, Except.bind] at h
    cases hb : build ρ p with
    | error e0 =>
      simp only [hb] at h
      injection h with h; subst h
      simp only [refAll]
      exact gen_bind (fun h => h.1) _ (build_err_ref_gen ρ hρ p ha.1 e0 hb)
    | ok d0 =>
      simp only [hb] at h
      obtain ⟨r0, hr0, _⟩ := build_ref ρ hρ p ha.1 d0 hb
      cases hbs : buildAll ρ ps with
      | ok ds0 => simp [hbs] at h
      | error e1 =>
        simp only [hbs] at h
        injection h with h; subst h
        simp only [refAll, hr0, ok_bind]
        exact gen_bind (fun h => h.2) _ (buildAll_err_ref_gen ρ hρ ps ha.2 e1 hbs)
end

/-! ### corollaries -/

/-- On `AdmErr` pipelines the lazy pipeline refuses with exactly the exception of the eager reference.
    (`_partial`: the extra hypothesis `AdmErr` excludes `filter(...)[spec]` / `filter(...).sort(key)`,
    see `build_err_ref_counterexample`.) -/
theorem build_err_ref_partial (ρ : Env) (hρ : EnvOK ρ) (p : Pipeline) (ha : Adm ρ p) (hae : AdmErr ρ p)
    (e : Err) (h : build ρ p = .error e) : ref ρ p = .error e := by
  rcases build_err_ref_gen ρ hρ p ha e h with h1 | ⟨h1, _, _⟩
  · exact h1
  · exact absurd hae h1

theorem buildAll_err_ref_partial (ρ : Env) (hρ : EnvOK ρ) (ps : Pipelines) (ha : AdmAll ρ ps)
    (hae : AdmErrAll ρ ps) (e : Err) (h : buildAll ρ ps = .error e) : refAll ρ ps = .error e := by
  rcases buildAll_err_ref_gen ρ hρ ps ha e h with h1 | ⟨h1, _, _⟩
  · exact h1
  · exact absurd hae h1

/-- Without `AdmErr`: every construction error other than `AssertionError` is reproduced exactly. -/
theorem build_err_ref_of_ne_assertion (ρ : Env) (hρ : EnvOK ρ) (p : Pipeline) (ha : Adm ρ p)
    (e : Err) (h : build ρ p = .error e) (hne : e ≠ .assertionError) : ref ρ p = .error e := by
  rcases build_err_ref_gen ρ hρ p ha e h with h1 | ⟨_, h2, _⟩
  · exact h1
  · exact absurd h2 hne

/-- Without `AdmErr`: whenever the lazy pipeline refuses, the reference refuses as well. -/
theorem build_err_ref_err (ρ : Env) (hρ : EnvOK ρ) (p : Pipeline) (ha : Adm ρ p)
    (e : Err) (h : build ρ p = .error e) : ∃ e', ref ρ p = .error e' := by
  rcases build_err_ref_gen ρ hρ p ha e h with h1 | ⟨_, _, h3⟩
  · exact ⟨_, h1⟩
  · exact ⟨_, h3⟩

/-! ### the excluded corner really differs (for EVERY interpretation `ρ` of the user functions) -/

/-- `ds.filter(f)[[]]`: the model (like the Python code) raises the `AssertionError` of
    `FilterDataset.__getitem__`, the reference the `RuntimeError` of a non-indexable input.  The pipeline
    is admissible, so `build_err_ref_partial` is false without `AdmErr`. -/
theorem build_err_ref_counterexample (ρ : Env) :
    let p : Pipeline := .slice (.idx []) (.filterLazy (.always true) (.listSrc [.int 1]))
    Adm ρ p ∧ ¬ AdmErr ρ p ∧ build ρ p = .error .assertionError ∧ ref ρ p = .error .runtimeError := by
  refine ⟨trivial, ?_, rfl, rfl⟩
  intro h
  have := h.2 _ rfl
  cases this

/-- `ds.filter(f).sort(key)` on an input whose examples all have a key: same difference. -/
theorem build_err_ref_counterexample_sort (ρ : Env) :
    let p : Pipeline := .sort (some .identity) false (.filterLazy (.always true) (.listSrc []))
    Adm ρ p ∧ ¬ AdmErr ρ p ∧ build ρ p = .error .assertionError ∧ ref ρ p = .error .runtimeError := by
  refine ⟨trivial, ?_, rfl, rfl⟩
  intro h
  have := h.2 rfl _ rfl
  cases this

end LazyDs

/-
  Lemmas for `LazyDs.Conc.Lpm`: reachability, the inductive invariant `Inv`, a termination
  measure, one-step monotonicity of future states, deadlock freedom.
  CORE LEAN ONLY.
-/
import LazyDs.Conc.Lpm

namespace LazyDs.Lpm

variable {α β ε : Type}

/-! ## Reachability -/

/-- `s` is reachable from the initial state by some schedule (any interleaving, any
    completion order). -/
def Reachable (w b : Nat) (ek : ExitKind) (tk : TermKind) (f : α → Except ε β)
    (src₀ : List α) (ending : Option ε) (s : St α β ε) : Prop :=
  ∃ sched, run (init w b ek tk f src₀ ending) sched = some s

theorem run_append {s : St α β ε} {l₁ l₂ : List Tid} :
    run s (l₁ ++ l₂) = (run s l₁).bind (fun s' => run s' l₂) := by
  induction l₁ generalizing s with
  | nil => simp [run]
  | cons t ts ih =>
    simp only [List.cons_append, run]
    cases step s t with
    | none => simp
    | some s' => simpa using ih

/-! ## `setF`, the kill map, counting -/

@[simp] theorem length_setF (futs : List (α × FState β ε)) (i : Nat) (st : FState β ε) :
    (setF futs i st).length = futs.length := by
  unfold setF; split <;> simp

theorem getElem?_setF {futs : List (α × FState β ε)} {i : Nat} {x : α} {old st : FState β ε}
    (h : futs[i]? = some (x, old)) (j : Nat) :
    (setF futs i st)[j]? = if j = i then some (x, st) else futs[j]? := by
  have hi : i < futs.length := by
    cases hlt : decide (i < futs.length) <;> simp_all
  unfold setF; rw [h]; simp only [List.getElem?_set]
  by_cases hji : j = i
  · subst hji; simp [hi]
  · have : ¬ i = j := fun e => hji e.symm
    simp [hji, this]

/-- what `killAll` / `terminatePool` do to the table of futures -/
def kill (p : α × FState β ε) : α × FState β ε := if isActive p.2 then (p.1, .cancelled) else p

theorem getElem?_kill {futs : List (α × FState β ε)} {j : Nat} {x : α} {st : FState β ε}
    (h : (futs.map kill)[j]? = some (x, st)) :
    isActive st = false ∧
      (futs[j]? = some (x, st) ∨ (st = .cancelled ∧ ∃ old, futs[j]? = some (x, old) ∧ isActive old = true)) := by
  simp only [List.getElem?_map, Option.map_eq_some_iff] at h
  obtain ⟨⟨y, old⟩, hj, hk⟩ := h
  unfold kill at hk
  by_cases ha : isActive old = true
  · simp [ha] at hk
    obtain ⟨rfl, rfl⟩ := hk
    exact ⟨rfl, Or.inr ⟨rfl, old, hj, ha⟩⟩
  · simp [ha] at hk
    obtain ⟨rfl, rfl⟩ := hk
    exact ⟨by simpa using ha, Or.inl hj⟩

def nPending (futs : List (α × FState β ε)) : Nat := futs.countP (fun p => isPending p.2)
def nRunning (futs : List (α × FState β ε)) : Nat := futs.countP (fun p => isRunning p.2)

theorem numRunning_eq (s : St α β ε) : numRunning s = nRunning s.futs := by
  simp [numRunning, nRunning, List.countP_eq_length_filter]

theorem countP_setF {futs : List (α × FState β ε)} {i : Nat} {x : α} {old st : FState β ε}
    (p : α × FState β ε → Bool) (h : futs[i]? = some (x, old)) :
    (setF futs i st).countP p + (if p (x, old) then 1 else 0)
      = futs.countP p + (if p (x, st) then 1 else 0) := by
  have hi : i < futs.length := by
    cases hlt : decide (i < futs.length) <;> simp_all
  have hget : futs[i] = (x, old) := by
    have := List.getElem?_eq_getElem hi
    rw [this] at h; exact Option.some.inj h
  have hle : (if p futs[i] = true then 1 else 0) ≤ futs.countP p := by
    by_cases hp : p futs[i] = true
    · simp only [hp, if_true]
      exact List.countP_pos_iff.mpr ⟨_, List.getElem_mem hi, hp⟩
    · simp [hp]
  unfold setF; rw [h]; simp only
  rw [List.countP_set hi, hget] at *
  omega

theorem nPending_kill (futs : List (α × FState β ε)) : nPending (futs.map kill) = 0 := by
  simp only [nPending, List.countP_eq_zero, List.mem_map]
  rintro _ ⟨⟨x, st⟩, _, rfl⟩
  cases st <;> simp [kill, isActive, isPending]

theorem nRunning_kill (futs : List (α × FState β ε)) : nRunning (futs.map kill) = 0 := by
  simp only [nRunning, List.countP_eq_zero, List.mem_map]
  rintro _ ⟨⟨x, st⟩, _, rfl⟩
  cases st <;> simp [kill, isActive, isRunning]

theorem firstPending_some {futs : List (α × FState β ε)} {i : Nat} (h : firstPending futs = some i) :
    ∃ x, futs[i]? = some (x, .pending) := by
  unfold firstPending at h
  rw [List.findIdx?_eq_some_iff_getElem] at h
  obtain ⟨hi, hp, _⟩ := h
  rw [List.getElem?_eq_getElem hi]
  rcases hfi : futs[i] with ⟨x, st⟩
  rw [hfi] at hp
  cases st <;> simp [isPending] at hp
  exact ⟨x, rfl⟩

theorem headDone_some {s : St α β ε} {r : Except ε β} {rest : List Nat}
    (h : headDone s = some (r, rest)) :
    ∃ i x, s.q = i :: rest ∧ s.futs[i]? = some (x, .done r) := by
  unfold headDone at h
  split at h
  · simp at h
  · rename_i i rest' hq
    split at h
    · rename_i x r' hf
      simp at h
      obtain ⟨rfl, rfl⟩ := h
      exact ⟨i, x, hq, hf⟩
    · simp at h

/-! ## Termination measure -/

/-- rank of the consumer's program point -/
def rank : CPc α β ε → Nat
  | .done _ _ => 0 | .exitWait _ _ => 1 | .cancel => 2 | .drain => 3 | .pull => 4 | .submit _ => 4
  | .yielded _ => 5 | .waitHead _ => 5

/-- 1 when the consumer holds a pulled, not yet submitted element -/
def held : CPc α β ε → Nat
  | .waitHead _ => 1 | .yielded (some _) => 1 | .submit _ => 1 | _ => 0

/-- weighted sum: remaining source items 8, held item 6, pending future 2, running future 1,
    queue entry 3, plus the program-point rank -/
def mu (s : St α β ε) : Nat :=
  8 * s.src.length + 6 * held s.c + 2 * nPending s.futs + nRunning s.futs + 3 * s.q.length + rank s.c

/-! ## The consumer's transitions, one constructor per branch of `step s .consumer` -/

inductive CStep (s : St α β ε) : St α β ε → Prop where
  | pullWait (x : α) (rest : List α) (hc : s.c = .pull) (hs : s.src = x :: rest)
      (hb : s.q.length ≥ s.buffer) :
      CStep s { s with src := rest, pulled := s.pulled + 1, c := .waitHead x }
  | pullSubmit (x : α) (rest : List α) (hc : s.c = .pull) (hs : s.src = x :: rest)
      (hb : ¬ s.q.length ≥ s.buffer) :
      CStep s { s with src := rest, pulled := s.pulled + 1, c := .submit x }
  | pullEnd (hc : s.c = .pull) (hs : s.src = []) (he : s.ending = none) :
      CStep s { s with c := .drain }
  | pullRaise (e : ε) (hc : s.c = .pull) (hs : s.src = []) (he : s.ending = some e) :
      CStep s { s with c := .exitWait (some e) false }
  | waitOk (x : α) (i : Nat) (rest : List Nat) (y : α) (v : β) (hc : s.c = .waitHead x)
      (hq : s.q = i :: rest) (hf : s.futs[i]? = some (y, .done (.ok v))) :
      CStep s { s with q := rest, delivered := s.delivered ++ [v], c := .yielded (some x) }
  | waitErr (x : α) (i : Nat) (rest : List Nat) (y : α) (e : ε) (hc : s.c = .waitHead x)
      (hq : s.q = i :: rest) (hf : s.futs[i]? = some (y, .done (.error e))) :
      CStep s { s with q := rest, c := .exitWait (some e) false }
  | submit (x : α) (hc : s.c = .submit x) :
      CStep s { s with futs := s.futs ++ [(x, .pending)], q := s.q ++ [s.futs.length], c := .pull }
  | drainEmpty (hc : s.c = .drain) (hq : s.q = []) :
      CStep s { s with c := .exitWait none false }
  | drainOk (i : Nat) (rest : List Nat) (y : α) (v : β) (hc : s.c = .drain)
      (hq : s.q = i :: rest) (hf : s.futs[i]? = some (y, .done (.ok v))) :
      CStep s { s with q := rest, delivered := s.delivered ++ [v], c := .yielded none }
  | drainErr (i : Nat) (rest : List Nat) (y : α) (e : ε) (hc : s.c = .drain)
      (hq : s.q = i :: rest) (hf : s.futs[i]? = some (y, .done (.error e))) :
      CStep s { s with q := rest, c := .exitWait (some e) false }
  | cancelEmpty (hc : s.c = .cancel) (ht : s.termKind = .cancelQueued) (hq : s.q = []) :
      CStep s { s with c := .exitWait none true }
  | cancelPending (i : Nat) (rest : List Nat) (y : α) (hc : s.c = .cancel)
      (ht : s.termKind = .cancelQueued) (hq : s.q = i :: rest) (hf : s.futs[i]? = some (y, .pending)) :
      CStep s { s with q := rest, futs := setF s.futs i .cancelled }
  | cancelSkip (i : Nat) (rest : List Nat) (hc : s.c = .cancel)
      (ht : s.termKind = .cancelQueued) (hq : s.q = i :: rest)
      (hf : ∀ y, s.futs[i]? ≠ some (y, .pending)) :
      CStep s { s with q := rest }
  | cancelNothing (hc : s.c = .cancel) (ht : s.termKind = .nothing) :
      CStep s { s with c := .exitWait none true }
  | cancelTerminate (hc : s.c = .cancel) (ht : s.termKind = .terminatePool) :
      CStep s { s with futs := s.futs.map kill, c := .exitWait none true }
  | exitWaitAll (r : Option ε) (closed : Bool) (hc : s.c = .exitWait r closed)
      (hk : s.exitKind = .waitAll) (hall : s.futs.all (fun p => !isActive p.2) = true) :
      CStep s { s with c := .done r closed }
  | exitKill (r : Option ε) (closed : Bool) (hc : s.c = .exitWait r closed)
      (hk : s.exitKind = .killAll) :
      CStep s { s with futs := s.futs.map kill, c := .done r closed }
  | exitLeave (r : Option ε) (closed : Bool) (hc : s.c = .exitWait r closed)
      (hk : s.exitKind = .leaveRunning) :
      CStep s { s with c := .done r closed }

theorem step_consumer {s s' : St α β ε} (h : step s .consumer = some s') : CStep s s' := by
  simp only [step] at h
  split at h
  · -- pull
    split at h
    · split at h <;> (injection h with h; subst h)
      · exact .pullWait _ _ ‹_› ‹_› ‹_›
      · exact .pullSubmit _ _ ‹_› ‹_› ‹_›
    · split at h <;> (injection h with h; subst h)
      · exact .pullEnd ‹_› ‹_› ‹_›
      · exact .pullRaise _ ‹_› ‹_› ‹_›
  · -- waitHead
    split at h
    · obtain ⟨i, y, hq, hf⟩ := headDone_some ‹_›
      injection h with h; subst h; exact .waitOk _ i _ y _ ‹_› hq hf
    · obtain ⟨i, y, hq, hf⟩ := headDone_some ‹_›
      injection h with h; subst h; exact .waitErr _ i _ y _ ‹_› hq hf
    · cases h
  · cases h
  · injection h with h; subst h; exact .submit _ ‹_›
  · -- drain
    split at h
    · injection h with h; subst h; exact .drainEmpty ‹_› ‹_›
    · split at h
      · obtain ⟨i, y, hq, hf⟩ := headDone_some ‹_›
        injection h with h; subst h; exact .drainOk i _ y _ ‹_› hq hf
      · obtain ⟨i, y, hq, hf⟩ := headDone_some ‹_›
        injection h with h; subst h; exact .drainErr i _ y _ ‹_› hq hf
      · cases h
  · -- cancel
    split at h
    · split at h
      · injection h with h; subst h; exact .cancelEmpty ‹_› ‹_› ‹_›
      · split at h <;> (injection h with h; subst h)
        · exact .cancelPending _ _ _ ‹_› ‹_› ‹_› ‹_›
        · refine .cancelSkip _ _ ‹_› ‹_› ‹_› ?_
          intro y hy
          rename_i hne
          exact hne y hy
    · injection h with h; subst h; exact .cancelNothing ‹_› ‹_›
    · injection h with h; subst h; exact .cancelTerminate ‹_› ‹_›
  · -- exitWait
    split at h
    · split at h
      · injection h with h; subst h; exact .exitWaitAll _ _ ‹_› ‹_› ‹_›
      · cases h
    · injection h with h; subst h; exact .exitKill _ _ ‹_› ‹_›
    · injection h with h; subst h; exact .exitLeave _ _ ‹_› ‹_›
  · cases h

theorem step_resume {s s' : St α β ε} (h : step s .resume = some s') :
    (∃ x, s.c = .yielded (some x) ∧ s' = { s with c := .submit x }) ∨
    (s.c = .yielded none ∧ s' = { s with c := .drain }) := by
  simp only [step] at h
  split at h
  · injection h with h; exact .inl ⟨_, ‹_›, h.symm⟩
  · injection h with h; exact .inr ⟨‹_›, h.symm⟩
  · cases h

theorem step_close {s s' : St α β ε} (h : step s .close = some s') :
    ∃ x, s.c = .yielded x ∧ s' = { s with c := .cancel } := by
  simp only [step] at h
  split at h
  · injection h with h; exact ⟨_, ‹_›, h.symm⟩
  · cases h

theorem step_start {s s' : St α β ε} (h : step s .start = some s') :
    ∃ i x, numRunning s < s.workers ∧ firstPending s.futs = some i ∧ s.futs[i]? = some (x, .pending) ∧
      s' = { s with futs := setF s.futs i .running, started := s.started + 1 } := by
  simp only [step] at h
  split at h
  · split at h
    · injection h with h
      obtain ⟨x, hx⟩ := firstPending_some ‹_›
      exact ⟨_, x, ‹_›, ‹_›, hx, h.symm⟩
    · cases h
  · cases h

theorem step_finish {s s' : St α β ε} {i : Nat} (h : step s (.finish i) = some s') :
    ∃ x, s.futs[i]? = some (x, .running) ∧ s' = { s with futs := setF s.futs i (.done (s.f x)) } := by
  simp only [step] at h
  split at h
  · injection h with h; exact ⟨_, ‹_›, h.symm⟩
  · cases h

theorem nPending_append (futs : List (α × FState β ε)) (x : α) :
    nPending (futs ++ [(x, .pending)]) = nPending futs + 1 := by
  simp [nPending, List.countP_append, isPending]

theorem nRunning_append (futs : List (α × FState β ε)) (x : α) :
    nRunning (futs ++ [(x, .pending)]) = nRunning futs := by
  simp [nRunning, List.countP_append, isRunning]

theorem nPending_setF {futs : List (α × FState β ε)} {i : Nat} {x : α} {old : FState β ε}
    (st : FState β ε) (h : futs[i]? = some (x, old)) :
    nPending (setF futs i st) + (if isPending old then 1 else 0)
      = nPending futs + (if isPending st then 1 else 0) :=
  countP_setF (fun p => isPending p.2) h

theorem nRunning_setF {futs : List (α × FState β ε)} {i : Nat} {x : α} {old : FState β ε}
    (st : FState β ε) (h : futs[i]? = some (x, old)) :
    nRunning (setF futs i st) + (if isRunning old then 1 else 0)
      = nRunning futs + (if isRunning st then 1 else 0) :=
  countP_setF (fun p => isRunning p.2) h

/-- every step of every thread strictly decreases `mu` (no invariant needed) -/
theorem mu_step {s s' : St α β ε} {t : Tid} (h : step s t = some s') : mu s' < mu s := by
  cases t with
  | consumer =>
    have hs := step_consumer h
    cases hs
    case cancelPending i rest y hc ht hq hf =>
      have h1 := nPending_setF .cancelled hf
      have h2 := nRunning_setF .cancelled hf
      simp [isPending, isRunning] at h1 h2
      simp only [mu, hc, hq, rank, held, List.length_cons]
      omega
    all_goals simp only [mu, *, rank, held, List.length_cons, List.length_append, List.length_nil,
      nPending_append, nRunning_append, nPending_kill, nRunning_kill]
    all_goals omega
  | resume =>
    rcases step_resume h with ⟨x, hc, rfl⟩ | ⟨hc, rfl⟩ <;> simp only [mu, hc, rank, held] <;> omega
  | close =>
    obtain ⟨x, hc, rfl⟩ := step_close h
    simp only [mu, hc, rank]
    cases x <;> simp only [held] <;> omega
  | start =>
    obtain ⟨i, x, _, _, hf, rfl⟩ := step_start h
    have h1 := nPending_setF .running hf
    have h2 := nRunning_setF .running hf
    simp [isPending, isRunning] at h1 h2
    simp only [mu]
    omega
  | finish i =>
    obtain ⟨x, hf, rfl⟩ := step_finish h
    have h1 := nPending_setF (.done (s.f x)) hf
    have h2 := nRunning_setF (.done (s.f x)) hf
    simp [isPending, isRunning] at h1 h2
    simp only [mu]
    omega

/-- hence every schedule that can be executed from `s` has at most `mu s` steps -/
theorem run_length_le_mu {s s' : St α β ε} {sched : List Tid} (h : run s sched = some s') :
    sched.length + mu s' ≤ mu s := by
  induction sched generalizing s with
  | nil => simp [run] at h; subst h; simp
  | cons t ts ih =>
    simp only [run] at h
    split at h
    · rename_i s₁ hs
      have := ih h
      have := mu_step hs
      simp only [List.length_cons]; omega
    · cases h

/-! ## One-step evolution of a single future -/

/-- how one future can change in one step -/
def FTrans (s : St α β ε) (t : Tid) (i : Nat) (x : α) (st st' : FState β ε) : Prop :=
  st' = st ∨
  (t = .start ∧ st = .pending ∧ st' = .running) ∨
  (t = .finish i ∧ st = .running ∧ st' = .done (s.f x)) ∨
  (t = .consumer ∧ s.c = .cancel ∧ s.termKind = .cancelQueued ∧ st = .pending ∧ st' = .cancelled) ∨
  (t = .consumer ∧ ((s.termKind = .terminatePool ∧ s.c = .cancel) ∨ (s.exitKind = .killAll ∧ ∃ r cl, s.c = .exitWait r cl)) ∧
     isActive st = true ∧ st' = .cancelled)

theorem getElem?_map_kill {futs : List (α × FState β ε)} {i : Nat} {x : α} {st : FState β ε}
    (h : futs[i]? = some (x, st)) :
    (futs.map kill)[i]? = some (x, if isActive st then .cancelled else st) := by
  simp only [List.getElem?_map, h, Option.map_some, kill]
  split <;> rfl

theorem futs_step {s s' : St α β ε} {t : Tid} {i : Nat} {x : α} {st : FState β ε}
    (h : step s t = some s') (hi : s.futs[i]? = some (x, st)) :
    ∃ st', s'.futs[i]? = some (x, st') ∧ FTrans s t i x st st' := by
  cases t with
  | consumer =>
    have hs := step_consumer h
    cases hs
    case submit y hc =>
      refine ⟨st, ?_, .inl rfl⟩
      have hlt : i < s.futs.length := by
        cases hlt : decide (i < s.futs.length) <;> simp_all
      simp [List.getElem?_append_left hlt, hi]
    case cancelPending j rest y hc ht hq hf =>
      simp only [getElem?_setF hf]
      by_cases hij : i = j
      · subst hij
        rw [hi] at hf; injection hf with hf; injection hf with h1 h2; subst h1; subst h2
        exact ⟨.cancelled, by simp, .inr (.inr (.inr (.inl ⟨rfl, hc, ht, rfl, rfl⟩)))⟩
      · exact ⟨st, by simp [hij, hi], .inl rfl⟩
    case cancelTerminate hc ht =>
      refine ⟨_, getElem?_map_kill hi, ?_⟩
      by_cases ha : isActive st = true
      · simp only [ha, if_true]
        exact .inr (.inr (.inr (.inr ⟨rfl, .inl ⟨ht, hc⟩, ha, rfl⟩)))
      · simp only [ha]; exact .inl rfl
    case exitKill r cl hc hk =>
      refine ⟨_, getElem?_map_kill hi, ?_⟩
      by_cases ha : isActive st = true
      · simp only [ha, if_true]
        exact .inr (.inr (.inr (.inr ⟨rfl, .inr ⟨hk, r, cl, hc⟩, ha, rfl⟩)))
      · simp only [ha]; exact .inl rfl
    all_goals exact ⟨st, hi, .inl rfl⟩
  | resume =>
    rcases step_resume h with ⟨y, hc, rfl⟩ | ⟨hc, rfl⟩ <;> exact ⟨st, hi, .inl rfl⟩
  | close =>
    obtain ⟨y, hc, rfl⟩ := step_close h
    exact ⟨st, hi, .inl rfl⟩
  | start =>
    obtain ⟨j, y, _, _, hf, rfl⟩ := step_start h
    simp only [getElem?_setF hf]
    by_cases hij : i = j
    · subst hij
      rw [hi] at hf; injection hf with hf; injection hf with h1 h2; subst h1; subst h2
      exact ⟨.running, by simp, .inr (.inl ⟨rfl, rfl, rfl⟩)⟩
    · exact ⟨st, by simp [hij, hi], .inl rfl⟩
  | finish j =>
    obtain ⟨y, hf, rfl⟩ := step_finish h
    simp only [getElem?_setF hf]
    by_cases hij : i = j
    · subst hij
      rw [hi] at hf; injection hf with hf; injection hf with h1 h2; subst h1; subst h2
      exact ⟨.done (s.f x), by simp, .inr (.inr (.inl ⟨rfl, rfl, rfl⟩))⟩
    · exact ⟨st, by simp [hij, hi], .inl rfl⟩

/-- a future that did not exist before the step is the freshly submitted, pending one -/
theorem futs_step_new {s s' : St α β ε} {t : Tid} {i : Nat} {x : α} {st' : FState β ε}
    (h : step s t = some s') (hn : s.futs[i]? = none) (hi : s'.futs[i]? = some (x, st')) :
    st' = .pending ∧ t = .consumer ∧ s.c = .submit x ∧ i = s.futs.length := by
  have hlen : s.futs.length ≤ i := by simpa using hn
  cases t with
  | consumer =>
    have hs := step_consumer h
    cases hs
    case submit y hc =>
      simp only [List.getElem?_append_right hlen] at hi
      have : i - s.futs.length = 0 := by
        cases hd : i - s.futs.length with
        | zero => rfl
        | succ n => simp [hd] at hi
      simp [this] at hi
      obtain ⟨rfl, rfl⟩ := hi
      exact ⟨rfl, rfl, hc, by omega⟩
    case cancelPending j rest y hc ht hq hf =>
      have : s.futs[i]? = none := hn
      have : (setF s.futs j .cancelled)[i]? = none := by simp; omega
      simp_all
    case cancelTerminate hc ht => simp [hn] at hi
    case exitKill r cl hc hk => simp [hn] at hi
    all_goals simp [hn] at hi
  | resume =>
    rcases step_resume h with ⟨y, hc, rfl⟩ | ⟨hc, rfl⟩ <;> simp [hn] at hi
  | close =>
    obtain ⟨y, hc, rfl⟩ := step_close h
    simp [hn] at hi
  | start =>
    obtain ⟨j, y, _, _, hf, rfl⟩ := step_start h
    have : (setF s.futs j .running)[i]? = none := by simp; omega
    simp_all
  | finish j =>
    obtain ⟨y, hf, rfl⟩ := step_finish h
    have : (setF s.futs j (.done (s.f y)))[i]? = none := by simp; omega
    simp_all

end LazyDs.Lpm

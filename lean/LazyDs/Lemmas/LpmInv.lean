/-
  Lemmas for `LazyDs.Conc.Lpm`: reachability, the inductive invariant `Inv`, a termination
  measure, one-step monotonicity of future states, deadlock freedom.
  CORE LEAN ONLY.
-/
import LazyDs.Conc.Lpm

namespace LazyDs.Lpm

variable {α β ε : Type}

/-! ## Reachability -/

/-- `s` is reachable from the initial state by some schedule (any interleaving, any
    completion order). -/
def Reachable (w b : Nat) (ek : ExitKind) (tk : TermKind) (f : α → Except ε β)
    (src₀ : List α) (ending : Option ε) (s : St α β ε) : Prop :=
  ∃ sched, run (init w b ek tk f src₀ ending) sched = some s

theorem Reachable.of_run {w b : Nat} {ek : ExitKind} {tk : TermKind} {f : α → Except ε β}
    {src₀ : List α} {ending : Option ε} {s : St α β ε} (sched : List Tid)
    (h : run (init w b ek tk f src₀ ending) sched = some s) : Reachable w b ek tk f src₀ ending s :=
  ⟨sched, h⟩

theorem run_append {s : St α β ε} {l₁ l₂ : List Tid} :
    run s (l₁ ++ l₂) = (run s l₁).bind (fun s' => run s' l₂) := by
  induction l₁ generalizing s with
  | nil => simp [run]
  | cons t ts ih =>
    simp only [List.cons_append, run]
    cases step s t with
    | none => simp
    | some s' => simpa using ih

/-! ## `setF`, the kill map, counting -/

@[simp] theorem length_setF (futs : List (α × FState β ε)) (i : Nat) (st : FState β ε) :
    (setF futs i st).length = futs.length := by
  unfold setF; split <;> simp

theorem getElem?_setF {futs : List (α × FState β ε)} {i : Nat} {x : α} {old st : FState β ε}
    (h : futs[i]? = some (x, old)) (j : Nat) :
    (setF futs i st)[j]? = if j = i then some (x, st) else futs[j]? := by
  have hi : i < futs.length := by
    cases hlt : decide (i < futs.length) <;> simp_all
  unfold setF; rw [h]; simp only [List.getElem?_set]
  by_cases hji : j = i
  · subst hji; simp [hi]
  · have : ¬ i = j := fun e => hji e.symm
    simp [hji, this]

/-- what `killAll` / `terminatePool` do to the table of futures -/
def kill (p : α × FState β ε) : α × FState β ε := if isActive p.2 then (p.1, .cancelled) else p

theorem getElem?_kill {futs : List (α × FState β ε)} {j : Nat} {x : α} {st : FState β ε}
    (h : (futs.map kill)[j]? = some (x, st)) :
    isActive st = false ∧
      (futs[j]? = some (x, st) ∨ (st = .cancelled ∧ ∃ old, futs[j]? = some (x, old) ∧ isActive old = true)) := by
  simp only [List.getElem?_map, Option.map_eq_some_iff] at h
  obtain ⟨⟨y, old⟩, hj, hk⟩ := h
  unfold kill at hk
  by_cases ha : isActive old = true
  · simp [ha] at hk
    obtain ⟨rfl, rfl⟩ := hk
    exact ⟨rfl, Or.inr ⟨rfl, old, hj, ha⟩⟩
  · simp [ha] at hk
    obtain ⟨rfl, rfl⟩ := hk
    exact ⟨by simpa using ha, Or.inl hj⟩

def nPending (futs : List (α × FState β ε)) : Nat := futs.countP (fun p => isPending p.2)
def nRunning (futs : List (α × FState β ε)) : Nat := futs.countP (fun p => isRunning p.2)

theorem numRunning_eq (s : St α β ε) : numRunning s = nRunning s.futs := by
  simp [numRunning, nRunning, List.countP_eq_length_filter]

theorem countP_setF {futs : List (α × FState β ε)} {i : Nat} {x : α} {old st : FState β ε}
    (p : α × FState β ε → Bool) (h : futs[i]? = some (x, old)) :
    (setF futs i st).countP p + (if p (x, old) then 1 else 0)
      = futs.countP p + (if p (x, st) then 1 else 0) := by
  have hi : i < futs.length := by
    cases hlt : decide (i < futs.length) <;> simp_all
  have hget : futs[i] = (x, old) := by
    have := List.getElem?_eq_getElem hi
    rw [this] at h; exact Option.some.inj h
  have hle : (if p futs[i] = true then 1 else 0) ≤ futs.countP p := by
    by_cases hp : p futs[i] = true
    · simp only [hp, if_true]
      exact List.countP_pos_iff.mpr ⟨_, List.getElem_mem hi, hp⟩
    · simp [hp]
  unfold setF; rw [h]; simp only
  rw [List.countP_set hi, hget] at *
  omega

theorem nPending_kill (futs : List (α × FState β ε)) : nPending (futs.map kill) = 0 := by
  simp only [nPending, List.countP_eq_zero, List.mem_map]
  rintro _ ⟨⟨x, st⟩, _, rfl⟩
  cases st <;> simp [kill, isActive, isPending]

theorem nRunning_kill (futs : List (α × FState β ε)) : nRunning (futs.map kill) = 0 := by
  simp only [nRunning, List.countP_eq_zero, List.mem_map]
  rintro _ ⟨⟨x, st⟩, _, rfl⟩
  cases st <;> simp [kill, isActive, isRunning]

theorem firstPending_some {futs : List (α × FState β ε)} {i : Nat} (h : firstPending futs = some i) :
    ∃ x, futs[i]? = some (x, .pending) := by
  unfold firstPending at h
  rw [List.findIdx?_eq_some_iff_getElem] at h
  obtain ⟨hi, hp, _⟩ := h
  rw [List.getElem?_eq_getElem hi]
  rcases hfi : futs[i] with ⟨x, st⟩
  rw [hfi] at hp
  cases st <;> simp [isPending] at hp
  exact ⟨x, rfl⟩

theorem headDone_some {s : St α β ε} {r : Except ε β} {rest : List Nat}
    (h : headDone s = some (r, rest)) :
    ∃ i x, s.q = i :: rest ∧ s.futs[i]? = some (x, .done r) := by
  unfold headDone at h
  split at h
  · simp at h
  · rename_i i rest' hq
    split at h
    · rename_i x r' hf
      simp at h
      obtain ⟨rfl, rfl⟩ := h
      exact ⟨i, x, hq, hf⟩
    · simp at h

/-! ## Termination measure -/

/-- rank of the consumer's program point -/
def rank : CPc α β ε → Nat
  | .done _ _ => 0 | .exitWait _ _ => 1 | .cancel => 2 | .drain => 3 | .drainErr _ => 3
  | .pull => 4 | .submit _ => 4 | .yielded _ => 5 | .yieldedErr _ => 5 | .waitHead _ => 5

/-- 1 when the consumer holds a pulled, not yet submitted element -/
def held : CPc α β ε → Nat
  | .waitHead _ => 1 | .yielded (some _) => 1 | .submit _ => 1 | _ => 0

/-- weighted sum: remaining source items 8, held item 6, pending future 2, running future 1,
    queue entry 3, plus the program-point rank -/
def mu (s : St α β ε) : Nat :=
  8 * s.src.length + 6 * held s.c + 2 * nPending s.futs + nRunning s.futs + 3 * s.q.length + rank s.c

/-! ## The consumer's transitions, one constructor per branch of `step s .consumer` -/

inductive CStep (s : St α β ε) : St α β ε → Prop where
  | pullWait (x : α) (rest : List α) (hc : s.c = .pull) (hs : s.src = x :: rest)
      (hb : s.q.length ≥ s.buffer) :
      CStep s { s with src := rest, pulled := s.pulled + 1, c := .waitHead x }
  | pullSubmit (x : α) (rest : List α) (hc : s.c = .pull) (hs : s.src = x :: rest)
      (hb : ¬ s.q.length ≥ s.buffer) :
      CStep s { s with src := rest, pulled := s.pulled + 1, c := .submit x }
  | pullEnd (hc : s.c = .pull) (hs : s.src = []) (he : s.ending = none) :
      CStep s { s with c := .drain }
  | pullRaise (e : ε) (hc : s.c = .pull) (hs : s.src = []) (he : s.ending = some e) :
      CStep s { s with c := .drainErr e }
  | waitOk (x : α) (i : Nat) (rest : List Nat) (y : α) (v : β) (hc : s.c = .waitHead x)
      (hq : s.q = i :: rest) (hf : s.futs[i]? = some (y, .done (.ok v))) :
      CStep s { s with q := rest, delivered := s.delivered ++ [v], c := .yielded (some x) }
  | waitErr (x : α) (i : Nat) (rest : List Nat) (y : α) (e : ε) (hc : s.c = .waitHead x)
      (hq : s.q = i :: rest) (hf : s.futs[i]? = some (y, .done (.error e))) :
      CStep s { s with q := rest, c := .exitWait (some e) false }
  | submit (x : α) (hc : s.c = .submit x) :
      CStep s { s with futs := s.futs ++ [(x, .pending)], q := s.q ++ [s.futs.length], c := .pull }
  | drainEmpty (hc : s.c = .drain) (hq : s.q = []) :
      CStep s { s with c := .exitWait none false }
  | drainOk (i : Nat) (rest : List Nat) (y : α) (v : β) (hc : s.c = .drain)
      (hq : s.q = i :: rest) (hf : s.futs[i]? = some (y, .done (.ok v))) :
      CStep s { s with q := rest, delivered := s.delivered ++ [v], c := .yielded none }
  | drainErr (i : Nat) (rest : List Nat) (y : α) (e : ε) (hc : s.c = .drain)
      (hq : s.q = i :: rest) (hf : s.futs[i]? = some (y, .done (.error e))) :
      CStep s { s with q := rest, c := .exitWait (some e) false }
  | errDrainEmpty (e : ε) (hc : s.c = .drainErr e) (hq : s.q = []) :
      CStep s { s with c := .exitWait (some e) false }
  | errDrainOk (e : ε) (i : Nat) (rest : List Nat) (y : α) (v : β) (hc : s.c = .drainErr e)
      (hq : s.q = i :: rest) (hf : s.futs[i]? = some (y, .done (.ok v))) :
      CStep s { s with q := rest, delivered := s.delivered ++ [v], c := .yieldedErr e }
  | errDrainErr (e : ε) (i : Nat) (rest : List Nat) (y : α) (e' : ε) (hc : s.c = .drainErr e)
      (hq : s.q = i :: rest) (hf : s.futs[i]? = some (y, .done (.error e'))) :
      CStep s { s with q := rest, c := .exitWait (some e') false }
  | cancelEmpty (hc : s.c = .cancel) (ht : s.termKind = .cancelQueued) (hq : s.q = []) :
      CStep s { s with c := .exitWait none true }
  | cancelPending (i : Nat) (rest : List Nat) (y : α) (hc : s.c = .cancel)
      (ht : s.termKind = .cancelQueued) (hq : s.q = i :: rest) (hf : s.futs[i]? = some (y, .pending)) :
      CStep s { s with q := rest, futs := setF s.futs i .cancelled }
  | cancelSkip (i : Nat) (rest : List Nat) (hc : s.c = .cancel)
      (ht : s.termKind = .cancelQueued) (hq : s.q = i :: rest)
      (hf : ∀ y, s.futs[i]? ≠ some (y, .pending)) :
      CStep s { s with q := rest }
  | cancelNothing (hc : s.c = .cancel) (ht : s.termKind = .nothing) :
      CStep s { s with c := .exitWait none true }
  | cancelTerminate (hc : s.c = .cancel) (ht : s.termKind = .terminatePool) :
      CStep s { s with futs := s.futs.map kill, c := .exitWait none true }
  | exitWaitAll (r : Option ε) (closed : Bool) (hc : s.c = .exitWait r closed)
      (hk : s.exitKind = .waitAll) (hall : s.futs.all (fun p => !isActive p.2) = true) :
      CStep s { s with c := .done r closed }
  | exitKill (r : Option ε) (closed : Bool) (hc : s.c = .exitWait r closed)
      (hk : s.exitKind = .killAll) :
      CStep s { s with futs := s.futs.map kill, c := .done r closed }
  | exitLeave (r : Option ε) (closed : Bool) (hc : s.c = .exitWait r closed)
      (hk : s.exitKind = .leaveRunning) :
      CStep s { s with c := .done r closed }
  | exitErrKill (e : ε) (closed : Bool) (hc : s.c = .exitWait (some e) closed)
      (hk : s.exitKind = .killOnError) :
      CStep s { s with futs := s.futs.map kill, c := .done (some e) closed }
  | exitErrNone (closed : Bool) (hc : s.c = .exitWait none closed)
      (hk : s.exitKind = .killOnError) :
      CStep s { s with c := .done none closed }

theorem step_consumer {s s' : St α β ε} (h : step s .consumer = some s') : CStep s s' := by
  simp only [step] at h
  split at h
  · -- pull
    split at h
    · split at h <;> (injection h with h; subst h)
      · exact .pullWait _ _ ‹_› ‹_› ‹_›
      · exact .pullSubmit _ _ ‹_› ‹_› ‹_›
    · split at h <;> (injection h with h; subst h)
      · exact .pullEnd ‹_› ‹_› ‹_›
      · exact .pullRaise _ ‹_› ‹_› ‹_›
  · -- waitHead
    split at h
    · obtain ⟨i, y, hq, hf⟩ := headDone_some ‹_›
      injection h with h; subst h; exact .waitOk _ i _ y _ ‹_› hq hf
    · obtain ⟨i, y, hq, hf⟩ := headDone_some ‹_›
      injection h with h; subst h; exact .waitErr _ i _ y _ ‹_› hq hf
    · cases h
  · cases h
  · injection h with h; subst h; exact .submit _ ‹_›
  · -- drain
    split at h
    · injection h with h; subst h; exact .drainEmpty ‹_› ‹_›
    · split at h
      · obtain ⟨i, y, hq, hf⟩ := headDone_some ‹_›
        injection h with h; subst h; exact .drainOk i _ y _ ‹_› hq hf
      · obtain ⟨i, y, hq, hf⟩ := headDone_some ‹_›
        injection h with h; subst h; exact .drainErr i _ y _ ‹_› hq hf
      · cases h
  · -- drainErr
    split at h
    · injection h with h; subst h; exact .errDrainEmpty _ ‹_› ‹_›
    · split at h
      · obtain ⟨i, y, hq, hf⟩ := headDone_some ‹_›
        injection h with h; subst h; exact .errDrainOk _ i _ y _ ‹_› hq hf
      · obtain ⟨i, y, hq, hf⟩ := headDone_some ‹_›
        injection h with h; subst h; exact .errDrainErr _ i _ y _ ‹_› hq hf
      · cases h
  · cases h
  · -- cancel
    split at h
    · split at h
      · injection h with h; subst h; exact .cancelEmpty ‹_› ‹_› ‹_›
      · split at h <;> (injection h with h; subst h)
        · exact .cancelPending _ _ _ ‹_› ‹_› ‹_› ‹_›
        · refine .cancelSkip _ _ ‹_› ‹_› ‹_› ?_
          intro y hy
          rename_i hne
          exact hne y hy
    · injection h with h; subst h; exact .cancelNothing ‹_› ‹_›
    · injection h with h; subst h; exact .cancelTerminate ‹_› ‹_›
  · -- exitWait
    split at h
    · split at h
      · injection h with h; subst h; exact .exitWaitAll _ _ ‹_› ‹_› ‹_›
      · cases h
    · injection h with h; subst h; exact .exitKill _ _ ‹_› ‹_›
    · injection h with h; subst h; exact .exitLeave _ _ ‹_› ‹_›
    · split at h <;> (injection h with h; subst h)
      · exact .exitErrKill _ _ ‹_› ‹_›
      · exact .exitErrNone _ ‹_› ‹_›
  · cases h

theorem step_resume {s s' : St α β ε} (h : step s .resume = some s') :
    (∃ x, s.c = .yielded (some x) ∧ s' = { s with c := .submit x }) ∨
    (s.c = .yielded none ∧ s' = { s with c := .drain }) ∨
    (∃ e, s.c = .yieldedErr e ∧ s' = { s with c := .drainErr e }) := by
  simp only [step] at h
  split at h
  · injection h with h; exact .inl ⟨_, ‹_›, h.symm⟩
  · injection h with h; exact .inr (.inl ⟨‹_›, h.symm⟩)
  · injection h with h; exact .inr (.inr ⟨_, ‹_›, h.symm⟩)
  · cases h

theorem step_close {s s' : St α β ε} (h : step s .close = some s') :
    ((∃ x, s.c = .yielded x) ∨ (∃ e, s.c = .yieldedErr e)) ∧ s' = { s with c := .cancel } := by
  simp only [step] at h
  split at h
  · injection h with h; exact ⟨.inl ⟨_, ‹_›⟩, h.symm⟩
  · injection h with h; exact ⟨.inr ⟨_, ‹_›⟩, h.symm⟩
  · cases h

theorem step_start {s s' : St α β ε} (h : step s .start = some s') :
    ∃ i x, numRunning s < s.workers ∧ firstPending s.futs = some i ∧ s.futs[i]? = some (x, .pending) ∧
      s' = { s with futs := setF s.futs i .running, started := s.started + 1 } := by
  simp only [step] at h
  split at h
  · split at h
    · injection h with h
      obtain ⟨x, hx⟩ := firstPending_some ‹_›
      exact ⟨_, x, ‹_›, ‹_›, hx, h.symm⟩
    · cases h
  · cases h

theorem step_finish {s s' : St α β ε} {i : Nat} (h : step s (.finish i) = some s') :
    ∃ x, s.futs[i]? = some (x, .running) ∧ s' = { s with futs := setF s.futs i (.done (s.f x)) } := by
  simp only [step] at h
  split at h
  · injection h with h; exact ⟨_, ‹_›, h.symm⟩
  · cases h

theorem nPending_append (futs : List (α × FState β ε)) (x : α) :
    nPending (futs ++ [(x, .pending)]) = nPending futs + 1 := by
  simp [nPending, List.countP_append, isPending]

theorem nRunning_append (futs : List (α × FState β ε)) (x : α) :
    nRunning (futs ++ [(x, .pending)]) = nRunning futs := by
  simp [nRunning, List.countP_append, isRunning]

theorem nPending_setF {futs : List (α × FState β ε)} {i : Nat} {x : α} {old : FState β ε}
    (st : FState β ε) (h : futs[i]? = some (x, old)) :
    nPending (setF futs i st) + (if isPending old then 1 else 0)
      = nPending futs + (if isPending st then 1 else 0) :=
  countP_setF (fun p => isPending p.2) h

theorem nRunning_setF {futs : List (α × FState β ε)} {i : Nat} {x : α} {old : FState β ε}
    (st : FState β ε) (h : futs[i]? = some (x, old)) :
    nRunning (setF futs i st) + (if isRunning old then 1 else 0)
      = nRunning futs + (if isRunning st then 1 else 0) :=
  countP_setF (fun p => isRunning p.2) h

/-- every step of every thread strictly decreases `mu` (no invariant needed) -/
theorem mu_step {s s' : St α β ε} {t : Tid} (h : step s t = some s') : mu s' < mu s := by
  cases t with
  | consumer =>
    have hs := step_consumer h
    cases hs
    case cancelPending i rest y hc ht hq hf =>
      have h1 := nPending_setF .cancelled hf
      have h2 := nRunning_setF .cancelled hf
      simp [isPending, isRunning] at h1 h2
      simp only [mu, hc, hq, rank, held, List.length_cons]
      omega
    all_goals simp only [mu, *, rank, held, List.length_cons, List.length_append, List.length_nil,
      nPending_append, nRunning_append, nPending_kill, nRunning_kill]
    all_goals omega
  | resume =>
    rcases step_resume h with ⟨x, hc, rfl⟩ | ⟨hc, rfl⟩ | ⟨e, hc, rfl⟩ <;>
      simp only [mu, hc, rank, held] <;> omega
  | close =>
    obtain ⟨⟨x, hc⟩ | ⟨e, hc⟩, rfl⟩ := step_close h
    · simp only [mu, hc, rank]
      cases x <;> simp only [held] <;> omega
    · simp only [mu, hc, rank, held]; omega
  | start =>
    obtain ⟨i, x, _, _, hf, rfl⟩ := step_start h
    have h1 := nPending_setF .running hf
    have h2 := nRunning_setF .running hf
    simp [isPending, isRunning] at h1 h2
    simp only [mu]
    omega
  | finish i =>
    obtain ⟨x, hf, rfl⟩ := step_finish h
    have h1 := nPending_setF (.done (s.f x)) hf
    have h2 := nRunning_setF (.done (s.f x)) hf
    simp [isPending, isRunning] at h1 h2
    simp only [mu]
    omega

/-- hence every schedule that can be executed from `s` has at most `mu s` steps -/
theorem run_length_le_mu {s s' : St α β ε} {sched : List Tid} (h : run s sched = some s') :
    sched.length + mu s' ≤ mu s := by
  induction sched generalizing s with
  | nil => simp [run] at h; subst h; simp
  | cons t ts ih =>
    simp only [run] at h
    split at h
    · rename_i s₁ hs
      have := ih h
      have := mu_step hs
      simp only [List.length_cons]; omega
    · cases h

/-! ## One-step evolution of a single future -/

/-- how one future can change in one step -/
def FTrans (s : St α β ε) (t : Tid) (i : Nat) (x : α) (st st' : FState β ε) : Prop :=
  st' = st ∨
  (t = .start ∧ st = .pending ∧ st' = .running) ∨
  (t = .finish i ∧ st = .running ∧ st' = .done (s.f x)) ∨
  (t = .consumer ∧ s.c = .cancel ∧ s.termKind = .cancelQueued ∧ st = .pending ∧ st' = .cancelled) ∨
  (t = .consumer ∧ ((s.termKind = .terminatePool ∧ s.c = .cancel) ∨ (s.exitKind = .killAll ∧ ∃ r cl, s.c = .exitWait r cl) ∨
       (s.exitKind = .killOnError ∧ ∃ e cl, s.c = .exitWait (some e) cl)) ∧
     isActive st = true ∧ st' = .cancelled)

theorem getElem?_map_kill {futs : List (α × FState β ε)} {i : Nat} {x : α} {st : FState β ε}
    (h : futs[i]? = some (x, st)) :
    (futs.map kill)[i]? = some (x, if isActive st then .cancelled else st) := by
  simp only [List.getElem?_map, h, Option.map_some, kill]
  split <;> rfl

theorem futs_step {s s' : St α β ε} {t : Tid} {i : Nat} {x : α} {st : FState β ε}
    (h : step s t = some s') (hi : s.futs[i]? = some (x, st)) :
    ∃ st', s'.futs[i]? = some (x, st') ∧ FTrans s t i x st st' := by
  cases t with
  | consumer =>
    have hs := step_consumer h
    cases hs
    case submit y hc =>
      refine ⟨st, ?_, .inl rfl⟩
      have hlt : i < s.futs.length := by
        cases hlt : decide (i < s.futs.length) <;> simp_all
      simp [List.getElem?_append_left hlt, hi]
    case cancelPending j rest y hc ht hq hf =>
      simp only [getElem?_setF hf]
      by_cases hij : i = j
      · subst hij
        rw [hi] at hf; injection hf with hf; injection hf with h1 h2; subst h1; subst h2
        exact ⟨.cancelled, by simp, .inr (.inr (.inr (.inl ⟨rfl, hc, ht, rfl, rfl⟩)))⟩
      · exact ⟨st, by simp [hij, hi], .inl rfl⟩
    case cancelTerminate hc ht =>
      refine ⟨_, getElem?_map_kill hi, ?_⟩
      by_cases ha : isActive st = true
      · simp only [ha, if_true]
        exact .inr (.inr (.inr (.inr ⟨rfl, .inl ⟨ht, hc⟩, ha, rfl⟩)))
      · simp only [ha]; exact .inl rfl
    case exitKill r cl hc hk =>
      refine ⟨_, getElem?_map_kill hi, ?_⟩
      by_cases ha : isActive st = true
      · simp only [ha, if_true]
        exact .inr (.inr (.inr (.inr ⟨rfl, .inr (.inl ⟨hk, r, cl, hc⟩), ha, rfl⟩)))
      · simp only [ha]; exact .inl rfl
    case exitErrKill e cl hc hk =>
      refine ⟨_, getElem?_map_kill hi, ?_⟩
      by_cases ha : isActive st = true
      · simp only [ha, if_true]
        exact .inr (.inr (.inr (.inr ⟨rfl, .inr (.inr ⟨hk, e, cl, hc⟩), ha, rfl⟩)))
      · simp only [ha]; exact .inl rfl
    all_goals exact ⟨st, hi, .inl rfl⟩
  | resume =>
    rcases step_resume h with ⟨y, hc, rfl⟩ | ⟨hc, rfl⟩ | ⟨e, hc, rfl⟩ <;> exact ⟨st, hi, .inl rfl⟩
  | close =>
    obtain ⟨_, rfl⟩ := step_close h
    exact ⟨st, hi, .inl rfl⟩
  | start =>
    obtain ⟨j, y, _, _, hf, rfl⟩ := step_start h
    simp only [getElem?_setF hf]
    by_cases hij : i = j
    · subst hij
      rw [hi] at hf; injection hf with hf; injection hf with h1 h2; subst h1; subst h2
      exact ⟨.running, by simp, .inr (.inl ⟨rfl, rfl, rfl⟩)⟩
    · exact ⟨st, by simp [hij, hi], .inl rfl⟩
  | finish j =>
    obtain ⟨y, hf, rfl⟩ := step_finish h
    simp only [getElem?_setF hf]
    by_cases hij : i = j
    · subst hij
      rw [hi] at hf; injection hf with hf; injection hf with h1 h2; subst h1; subst h2
      exact ⟨.done (s.f x), by simp, .inr (.inr (.inl ⟨rfl, rfl, rfl⟩))⟩
    · exact ⟨st, by simp [hij, hi], .inl rfl⟩

/-- a future that did not exist before the step is the freshly submitted, pending one -/
theorem futs_step_new {s s' : St α β ε} {t : Tid} {i : Nat} {x : α} {st' : FState β ε}
    (h : step s t = some s') (hn : s.futs[i]? = none) (hi : s'.futs[i]? = some (x, st')) :
    st' = .pending ∧ t = .consumer ∧ s.c = .submit x ∧ i = s.futs.length := by
  have hlen : s.futs.length ≤ i := by simpa using hn
  cases t with
  | consumer =>
    have hs := step_consumer h
    cases hs
    case submit y hc =>
      simp only [List.getElem?_append_right hlen] at hi
      have : i - s.futs.length = 0 := by
        cases hd : i - s.futs.length with
        | zero => rfl
        | succ n => simp [hd] at hi
      simp [this] at hi
      obtain ⟨rfl, rfl⟩ := hi
      exact ⟨rfl, rfl, hc, by omega⟩
    case cancelPending j rest y hc ht hq hf =>
      have : s.futs[i]? = none := hn
      have : (setF s.futs j .cancelled)[i]? = none := by simp; omega
      simp_all
    case cancelTerminate hc ht => simp [hn] at hi
    case exitKill r cl hc hk => simp [hn] at hi
    case exitErrKill e cl hc hk => simp [hn] at hi
    all_goals simp [hn] at hi
  | resume =>
    rcases step_resume h with ⟨y, hc, rfl⟩ | ⟨hc, rfl⟩ | ⟨e, hc, rfl⟩ <;> simp [hn] at hi
  | close =>
    obtain ⟨_, rfl⟩ := step_close h
    simp [hn] at hi
  | start =>
    obtain ⟨j, y, _, _, hf, rfl⟩ := step_start h
    have : (setF s.futs j .running)[i]? = none := by simp; omega
    simp_all
  | finish j =>
    obtain ⟨y, hf, rfl⟩ := step_finish h
    have : (setF s.futs j (.done (s.f y)))[i]? = none := by simp; omega
    simp_all

/-! ## The inductive invariant -/

def live : CPc α β ε → Bool
  | .pull | .waitHead _ | .yielded _ | .submit _ | .drain | .drainErr _ | .yieldedErr _ => true
  | _ => false

def NoPending (futs : List (α × FState β ε)) : Prop :=
  ∀ (i : Nat) x st, futs[i]? = some (x, st) → isPending st = false
def NoActive (futs : List (α × FState β ε)) : Prop :=
  ∀ (i : Nat) x st, futs[i]? = some (x, st) → isActive st = false
def NoCancelled (futs : List (α × FState β ε)) : Prop :=
  ∀ (i : Nat) x st, futs[i]? = some (x, st) → st ≠ .cancelled
/-- the first `k` futures (those already popped from `q`) are neither pending nor running -/
def PoppedIdle (futs : List (α × FState β ε)) (k : Nat) : Prop :=
  ∀ (i : Nat) x st, futs[i]? = some (x, st) → i < k → isActive st = false

/-- the exits after which nothing is pending or running once control is back at the caller:
    `waitAll`, `killAll`, `killOnError` with an exception, and — for every flavour, even
    `leaveRunning` — normal exhaustion and `close` with `terminatePool` -/
def QuiescentExit (ek : ExitKind) (tk : TermKind) (r : Option ε) (closed : Bool) : Prop :=
  ek = .waitAll ∨ ek = .killAll ∨ (ek = .killOnError ∧ r ≠ none) ∨ (r = none ∧ closed = false) ∨
    (closed = true ∧ tk = .terminatePool)

/-- what is known when an exception / normal end / close travels out of the `try` block -/
def ExitInv (tk : TermKind) (f : α → Except ε β) (src₀ : List α) (ending : Option ε)
    (s : St α β ε) (r : Option ε) (closed : Bool) : Prop :=
  (closed = true → tk ≠ .nothing → NoPending s.futs) ∧
  (closed = true → tk = .terminatePool → NoActive s.futs) ∧
  (closed = false →
    match r with
    | none => s.delivered.length = src₀.length ∧ NoActive s.futs
    | some e => (ending = some e ∧ s.src = [] ∧ s.delivered.length = src₀.length) ∨
        src₀[s.delivered.length]?.map f = some (.error e))

/-- the part of the invariant that depends on the consumer's program point -/
def PhaseInv (b : Nat) (ek : ExitKind) (tk : TermKind) (f : α → Except ε β) (src₀ : List α)
    (ending : Option ε) (s : St α β ε) : Prop :=
  match s.c with
  | .pull => s.pulled = s.futs.length
  | .waitHead x => s.pulled = s.futs.length + 1 ∧ src₀[s.futs.length]? = some x ∧ b ≤ s.q.length
  | .yielded (some x) => s.pulled = s.futs.length + 1 ∧ src₀[s.futs.length]? = some x ∧ s.q.length < b
  | .yielded none => s.pulled = s.futs.length ∧ s.src = []
  | .submit x => s.pulled = s.futs.length + 1 ∧ src₀[s.futs.length]? = some x ∧ s.q.length < b
  | .drain => s.pulled = s.futs.length ∧ s.src = []
  | .drainErr e => s.pulled = s.futs.length ∧ s.src = [] ∧ ending = some e
  | .yieldedErr e => s.pulled = s.futs.length ∧ s.src = [] ∧ ending = some e
  | .cancel => True
  | .exitWait r closed => ExitInv tk f src₀ ending s r closed
  | .done r closed => ExitInv tk f src₀ ending s r closed ∧ (QuiescentExit ek tk r closed → NoActive s.futs)

structure Inv (w b : Nat) (ek : ExitKind) (tk : TermKind) (f : α → Except ε β) (src₀ : List α)
    (ending : Option ε) (s : St α β ε) : Prop where
  hw : s.workers = w
  hb : s.buffer = b
  hek : s.exitKind = ek
  htk : s.termKind = tk
  hf : s.f = f
  hend : s.ending = ending
  /-- the argument of future `i` is the `i`-th source item -/
  args : ∀ (i : Nat) x st, s.futs[i]? = some (x, st) → src₀[i]? = some x
  /-- a finished future holds `f` of its argument -/
  doneVal : ∀ (i : Nat) x st, s.futs[i]? = some (x, st) → ∀ r, st = .done r → r = f x
  /-- `q = [k, k+1, …, futs.length-1]` with `k = futs.length - q.length` (number of popped futures) -/
  qRange : s.q = List.range' (s.futs.length - s.q.length) s.q.length
  qLen : s.q.length ≤ s.futs.length
  qBound : s.q.length ≤ b
  /-- the delivered values are `f` of a prefix of the source, all `.ok` -/
  deliv : (src₀.take s.delivered.length).map f = s.delivered.map .ok
  /-- every pending future is still in `q` -/
  pendInQ : ∀ (i : Nat) x st, s.futs[i]? = some (x, st) → st = .pending → s.futs.length - s.q.length ≤ i
  pulledGe : s.futs.length ≤ s.pulled
  pulledLe : s.pulled ≤ s.futs.length + 1
  srcEq : s.src = src₀.drop s.pulled
  srcLen : s.pulled + s.src.length = src₀.length
  bufInv : s.futs.length ≤ s.delivered.length + b
  startedLe : s.started + nPending s.futs ≤ s.futs.length
  runLe : nRunning s.futs ≤ w
  /-- before any error/close: everything popped was delivered, nothing is cancelled, and the
      popped futures are finished -/
  liveInv : live s.c = true → s.futs.length = s.delivered.length + s.q.length ∧ NoCancelled s.futs ∧
    PoppedIdle s.futs (s.futs.length - s.q.length)
  phase : PhaseInv b ek tk f src₀ ending s

theorem inv_init (w b : Nat) (ek : ExitKind) (tk : TermKind) (f : α → Except ε β) (src₀ : List α)
    (ending : Option ε) : Inv w b ek tk f src₀ ending (init w b ek tk f src₀ ending) := by
  constructor <;> simp [init, nPending, nRunning, live, NoCancelled, PoppedIdle, PhaseInv]

/-! ### helper lemmas for the preservation proof -/

theorem forall_setF {P : Nat → α → FState β ε → Prop} {futs : List (α × FState β ε)} {i : Nat}
    {x : α} {old new : FState β ε}
    (hP : ∀ j y st, futs[j]? = some (y, st) → j ≠ i → P j y st) (h : futs[i]? = some (x, old))
    (hnew : P i x new) : ∀ j y st, (setF futs i new)[j]? = some (y, st) → P j y st := by
  intro j y st hj
  rw [getElem?_setF h] at hj
  split at hj
  · injection hj with hj; injection hj with h1 h2; subst h1; subst h2; subst j; exact hnew
  · exact hP _ _ _ hj ‹_›

theorem forall_kill {P : Nat → α → FState β ε → Prop} {futs : List (α × FState β ε)}
    (hP : ∀ j y st, futs[j]? = some (y, st) → isActive st = false → P j y st)
    (hc : ∀ j y old, futs[j]? = some (y, old) → isActive old = true → P j y .cancelled) :
    ∀ j y st, (futs.map kill)[j]? = some (y, st) → P j y st := by
  intro j y st hj
  obtain ⟨ha, h | ⟨rfl, old, ho, hao⟩⟩ := getElem?_kill hj
  · exact hP _ _ _ h ha
  · exact hc _ _ _ ho hao

theorem noActive_kill (futs : List (α × FState β ε)) : NoActive (futs.map kill) :=
  fun _ _ _ hj => (getElem?_kill hj).1

theorem NoActive.noPending {futs : List (α × FState β ε)} (h : NoActive futs) : NoPending futs := by
  intro j y st hj
  have := h j y st hj
  cases st <;> simp_all [isActive, isPending]

theorem forall_append {P : Nat → α → FState β ε → Prop} {futs : List (α × FState β ε)} {x : α}
    (hP : ∀ j y st, futs[j]? = some (y, st) → P j y st) (hnew : P futs.length x .pending) :
    ∀ j y st, (futs ++ [(x, .pending)])[j]? = some (y, st) → P j y st := by
  intro j y st hj
  rw [List.getElem?_append] at hj
  split at hj
  · exact hP _ _ _ hj
  · rename_i hlt
    have : j - futs.length = 0 := by
      cases hd : j - futs.length with
      | zero => rfl
      | succ n => simp [hd] at hj
    simp [this] at hj
    obtain ⟨rfl, rfl⟩ := hj
    have : j = futs.length := by omega
    subst this; exact hnew

theorem getElem?_lt {l : List α} {i : Nat} {a : α} (h : l[i]? = some a) : i < l.length := by
  cases hlt : decide (i < l.length) <;> simp_all

theorem range_cons {q rest : List Nat} {i L : Nat} (hq : q = i :: rest)
    (hr : q = List.range' (L - q.length) q.length) (hl : q.length ≤ L) :
    i + rest.length + 1 = L ∧ rest = List.range' (L - rest.length) rest.length := by
  subst hq
  simp only [List.length_cons, List.range'_succ, List.cons.injEq] at hr hl
  obtain ⟨h1, h2⟩ := hr
  refine ⟨by omega, ?_⟩
  have : L - rest.length = L - (rest.length + 1) + 1 := by omega
  rw [this]; exact h2

theorem range_snoc {q : List Nat} {L L' : Nat}
    (hr : q = List.range' (L - q.length) q.length) (hl : q.length ≤ L) (hL : L' = L + 1) :
    q ++ [L] = List.range' (L' - (q ++ [L]).length) (q ++ [L]).length := by
  subst hL
  simp only [List.length_append, List.length_singleton]
  rw [List.range'_concat]
  have : L + 1 - (q.length + 1) = L - q.length := by omega
  rw [this, ← hr]
  simp; omega

theorem deliv_snoc {f : α → Except ε β} {src₀ : List α} {del : List β} {x : α} {v : β}
    (h : (src₀.take del.length).map f = del.map .ok) (hx : src₀[del.length]? = some x)
    (hv : f x = .ok v) :
    (src₀.take (del ++ [v]).length).map f = (del ++ [v]).map .ok := by
  simp [List.take_add_one, h, hx, hv]

theorem drop_cons {l : List α} {n : Nat} {x : α} {rest : List α} (h : x :: rest = l.drop n) :
    l[n]? = some x ∧ rest = l.drop (n + 1) := by
  constructor
  · have := List.getElem?_drop (xs := l) (i := n) (j := 0)
    rw [← h] at this; simpa using this.symm
  · have : (l.drop n).drop 1 = l.drop (n + 1) := by rw [List.drop_drop]
    rw [← h] at this; simpa using this

theorem ExitInv_congr {tk : TermKind} {f : α → Except ε β} {src₀ : List α}
    {ending : Option ε} {s s' : St α β ε} {r : Option ε} {closed : Bool} (hsrc : s'.src = s.src)
    (hd : s'.delivered = s.delivered) (hpend : NoPending s.futs → NoPending s'.futs)
    (hact : NoActive s.futs → NoActive s'.futs) (h : ExitInv tk f src₀ ending s r closed) :
    ExitInv tk f src₀ ending s' r closed := by
  obtain ⟨h1, h2, h3⟩ := h
  refine ⟨fun a c => hpend (h1 a c), fun a c => hact (h2 a c), fun a => ?_⟩
  have h4 := h3 a
  cases r with
  | none => exact ⟨hd ▸ h4.1, hact h4.2⟩
  | some e => simp only at h4 ⊢; rw [hsrc, hd]; exact h4

theorem PhaseInv_congr {b : Nat} {ek : ExitKind} {tk : TermKind} {f : α → Except ε β} {src₀ : List α}
    {ending : Option ε} {s s' : St α β ε} (hc : s'.c = s.c) (hp : s'.pulled = s.pulled)
    (hl : s'.futs.length = s.futs.length) (hq : s'.q.length = s.q.length) (hsrc : s'.src = s.src)
    (hd : s'.delivered = s.delivered) (hpend : NoPending s.futs → NoPending s'.futs)
    (hact : NoActive s.futs → NoActive s'.futs) (h : PhaseInv b ek tk f src₀ ending s) :
    PhaseInv b ek tk f src₀ ending s' := by
  unfold PhaseInv at *
  rw [hc]
  split <;> rename_i heq <;> simp only [heq] at h <;>
    first
    | exact ExitInv_congr hsrc hd hpend hact h
    | exact ⟨ExitInv_congr hsrc hd hpend hact h.1, fun hq => hact (h.2 hq)⟩
    | simp_all

/-- without the help of `__exit__` (or of the `killOnError` terminate), quiescence after an exit
    comes from `ExitInv`: normal exhaustion, or `close` with `terminatePool` -/
theorem quiescent_of_exitInv {ek : ExitKind} {tk : TermKind} {f : α → Except ε β} {src₀ : List α}
    {ending : Option ε} {s : St α β ε} {r : Option ε} {closed : Bool}
    (h : ExitInv tk f src₀ ending s r closed) (h1 : ek ≠ .waitAll) (h2 : ek ≠ .killAll)
    (h3 : ¬ (ek = .killOnError ∧ r ≠ none)) : QuiescentExit ek tk r closed → NoActive s.futs := by
  rintro (hq | hq | hq | ⟨rfl, rfl⟩ | ⟨rfl, hq⟩)
  · exact absurd hq h1
  · exact absurd hq h2
  · exact absurd hq h3
  · exact (h.2.2 rfl).2
  · exact h.2.1 rfl hq

theorem PoppedIdle.pop {futs : List (α × FState β ε)} {k i : Nat} {y : α} {r : Except ε β}
    (h : PoppedIdle futs k) (hf : futs[i]? = some (y, .done r)) (hk : k = i) :
    PoppedIdle futs (k + 1) := by
  intro j z st hj hlt
  by_cases hji : j = i
  · subst hji; rw [hf] at hj; injection hj with hj; injection hj with _ h2; subst h2; rfl
  · exact h j z st hj (by omega)

theorem PoppedIdle.noActive {futs : List (α × FState β ε)} {k : Nat}
    (h : PoppedIdle futs k) (hk : futs.length ≤ k) : NoActive futs := by
  intro j z st hj
  have := getElem?_lt hj
  exact h j z st hj (by omega)

/-! ### preservation: the consumer -/

section
variable {w b : Nat} {ek : ExitKind} {tk : TermKind} {f : α → Except ε β} {src₀ : List α}
  {ending : Option ε} {s s' : St α β ε}

theorem inv_consumer (hI : Inv w b ek tk f src₀ ending s) (h : step s .consumer = some s') :
    Inv w b ek tk f src₀ ending s' := by
  have hs := step_consumer h
  clear h
  have hph := hI.phase
  have hb' := hI.hb
  have hsl := hI.srcLen
  have hqb := hI.qBound
  have hql := hI.qLen
  have hbuf := hI.bufInv
  have hpg := hI.pulledGe
  have hpl := hI.pulledLe
  cases hs
  case pullWait x rest hc hs hb =>
    simp only [PhaseInv, hc] at hph
    have hlv := hI.liveInv (by simp [hc, live])
    obtain ⟨hx, hrest⟩ := drop_cons (hs ▸ hI.srcEq)
    refine { hI with pulledGe := ?_, pulledLe := ?_, srcEq := hrest, srcLen := ?_, liveInv := ?_, phase := ?_ }
    · simp <;> omega
    · simp <;> omega
    · simp [hs] at hsl ⊢; omega
    · intro _; exact hlv
    · simp only [PhaseInv]; refine ⟨by omega, ?_, by omega⟩
      rw [← hph]; exact hx
  case pullSubmit x rest hc hs hb =>
    simp only [PhaseInv, hc] at hph
    have hlv := hI.liveInv (by simp [hc, live])
    obtain ⟨hx, hrest⟩ := drop_cons (hs ▸ hI.srcEq)
    refine { hI with pulledGe := ?_, pulledLe := ?_, srcEq := hrest, srcLen := ?_, liveInv := ?_, phase := ?_ }
    · simp <;> omega
    · simp <;> omega
    · simp [hs] at hsl ⊢; omega
    · intro _; exact hlv
    · simp only [PhaseInv]; refine ⟨by omega, ?_, by omega⟩
      rw [← hph]; exact hx
  case pullEnd hc hs he =>
    simp only [PhaseInv, hc] at hph
    have hlv := hI.liveInv (by simp [hc, live])
    refine { hI with liveInv := ?_, phase := ?_ }
    · intro _; exact hlv
    · simp only [PhaseInv]; exact ⟨hph, hs⟩
  case pullRaise e hc hs he =>
    simp only [PhaseInv, hc] at hph
    have hlv := hI.liveInv (by simp [hc, live])
    refine { hI with liveInv := ?_, phase := ?_ }
    · intro _; exact hlv
    · simp only [PhaseInv]; refine ⟨hph, hs, ?_⟩
      rw [← hI.hend]; exact he
  case waitOk x i rest y v hc hq hf =>
    simp only [PhaseInv, hc] at hph
    obtain ⟨hlen, hnc, hpi⟩ := hI.liveInv (by simp [hc, live])
    obtain ⟨hi, hr⟩ := range_cons hq hI.qRange hI.qLen
    have hq' : s.q.length = rest.length + 1 := by simp [hq]
    have hiD : i = s.delivered.length := by omega
    have hy := hI.args _ _ _ hf
    have hv := hI.doneVal _ _ _ hf _ rfl
    refine { hI with qRange := hr, qLen := ?_, qBound := ?_, deliv := ?_, pendInQ := ?_, bufInv := ?_,
                     liveInv := ?_, phase := ?_ }
    · simp <;> omega
    · simp <;> omega
    · exact deliv_snoc hI.deliv (hiD ▸ hy) hv.symm
    · intro j z st hj hst
      have h1 := hI.pendInQ j z st hj hst
      have : j ≠ i := by rintro rfl; rw [hf] at hj; subst hst; simp at hj
      simp <;> omega
    · simp <;> omega
    · intro _
      refine ⟨by simp <;> omega, hnc, ?_⟩
      have := hpi.pop hf (by omega)
      have he : s.futs.length - rest.length = s.futs.length - s.q.length + 1 := by omega
      simpa [he] using this
    · simp only [PhaseInv]; exact ⟨hph.1, hph.2.1, by omega⟩
  case waitErr x i rest y e hc hq hf =>
    simp only [PhaseInv, hc] at hph
    obtain ⟨hlen, hnc, hpi⟩ := hI.liveInv (by simp [hc, live])
    obtain ⟨hi, hr⟩ := range_cons hq hI.qRange hI.qLen
    have hq' : s.q.length = rest.length + 1 := by simp [hq]
    have hiD : i = s.delivered.length := by omega
    have hy := hI.args _ _ _ hf
    have hv := hI.doneVal _ _ _ hf _ rfl
    refine { hI with qRange := hr, qLen := ?_, qBound := ?_, pendInQ := ?_, liveInv := ?_, phase := ?_ }
    · simp <;> omega
    · simp <;> omega
    · intro j z st hj hst
      have h1 := hI.pendInQ j z st hj hst
      have : j ≠ i := by rintro rfl; rw [hf] at hj; subst hst; simp at hj
      simp <;> omega
    · intro h; simp [live] at h
    · simp only [PhaseInv, ExitInv]
      refine ⟨by simp, by simp, fun _ => .inr ?_⟩
      rw [← hiD, hy]; simp [hv]
  case submit x hc =>
    simp only [PhaseInv, hc] at hph
    obtain ⟨hlen, hnc, hpi⟩ := hI.liveInv (by simp [hc, live])
    refine { hI with args := ?_, doneVal := ?_, qRange := range_snoc hI.qRange hI.qLen (by simp), qLen := ?_,
                     qBound := ?_, pendInQ := ?_, pulledGe := ?_, pulledLe := ?_, bufInv := ?_,
                     startedLe := ?_, runLe := ?_, liveInv := ?_, phase := ?_ }
    · exact forall_append hI.args hph.2.1
    · exact forall_append hI.doneVal (by intro r hr; cases hr)
    · simp <;> omega
    · simp <;> omega
    · refine forall_append (fun j z st hj hst => ?_) (fun _ => ?_)
      · have := hI.pendInQ j z st hj hst; simp <;> omega
      · simp <;> omega
    · simp <;> omega
    · simp <;> omega
    · simp <;> omega
    · have := hI.startedLe; simp [nPending_append]; omega
    · have := hI.runLe; simpa [nRunning_append] using this
    · intro _
      refine ⟨by simp <;> omega, forall_append hnc (by simp), ?_⟩
      refine forall_append (fun j z st hj hlt => hpi j z st hj ?_) (fun hlt => ?_)
      · simp at hlt; omega
      · simp at hlt; omega
    · simp only [PhaseInv]; simp <;> omega
  case drainEmpty hc hq =>
    simp only [PhaseInv, hc] at hph
    obtain ⟨hlen, hnc, hpi⟩ := hI.liveInv (by simp [hc, live])
    refine { hI with liveInv := ?_, phase := ?_ }
    · intro h; simp [live] at h
    · simp only [PhaseInv, ExitInv]
      refine ⟨by simp, by simp, fun _ => ⟨?_, hpi.noActive (by simp [hq])⟩⟩
      simp [hq, hph.2] at hlen hsl ⊢; omega
  case drainOk i rest y v hc hq hf =>
    simp only [PhaseInv, hc] at hph
    obtain ⟨hlen, hnc, hpi⟩ := hI.liveInv (by simp [hc, live])
    obtain ⟨hi, hr⟩ := range_cons hq hI.qRange hI.qLen
    have hq' : s.q.length = rest.length + 1 := by simp [hq]
    have hiD : i = s.delivered.length := by omega
    have hy := hI.args _ _ _ hf
    have hv := hI.doneVal _ _ _ hf _ rfl
    refine { hI with qRange := hr, qLen := ?_, qBound := ?_, deliv := ?_, pendInQ := ?_, bufInv := ?_,
                     liveInv := ?_, phase := ?_ }
    · simp <;> omega
    · simp <;> omega
    · exact deliv_snoc hI.deliv (hiD ▸ hy) hv.symm
    · intro j z st hj hst
      have h1 := hI.pendInQ j z st hj hst
      have : j ≠ i := by rintro rfl; rw [hf] at hj; subst hst; simp at hj
      simp <;> omega
    · simp <;> omega
    · intro _
      refine ⟨by simp <;> omega, hnc, ?_⟩
      have := hpi.pop hf (by omega)
      have he : s.futs.length - rest.length = s.futs.length - s.q.length + 1 := by omega
      simpa [he] using this
    · simp only [PhaseInv]; exact hph
  case drainErr i rest y e hc hq hf =>
    simp only [PhaseInv, hc] at hph
    obtain ⟨hlen, hnc, hpi⟩ := hI.liveInv (by simp [hc, live])
    obtain ⟨hi, hr⟩ := range_cons hq hI.qRange hI.qLen
    have hq' : s.q.length = rest.length + 1 := by simp [hq]
    have hiD : i = s.delivered.length := by omega
    have hy := hI.args _ _ _ hf
    have hv := hI.doneVal _ _ _ hf _ rfl
    refine { hI with qRange := hr, qLen := ?_, qBound := ?_, pendInQ := ?_, liveInv := ?_, phase := ?_ }
    · simp <;> omega
    · simp <;> omega
    · intro j z st hj hst
      have h1 := hI.pendInQ j z st hj hst
      have : j ≠ i := by rintro rfl; rw [hf] at hj; subst hst; simp at hj
      simp <;> omega
    · intro h; simp [live] at h
    · simp only [PhaseInv, ExitInv]
      refine ⟨by simp, by simp, fun _ => .inr ?_⟩
      rw [← hiD, hy]; simp [hv]
  case errDrainEmpty e hc hq =>
    simp only [PhaseInv, hc] at hph
    obtain ⟨hlen, hnc, hpi⟩ := hI.liveInv (by simp [hc, live])
    refine { hI with liveInv := ?_, phase := ?_ }
    · intro h; simp [live] at h
    · simp only [PhaseInv, ExitInv]
      refine ⟨by simp, by simp, fun _ => .inl ⟨hph.2.2, hph.2.1, ?_⟩⟩
      simp [hq, hph.2.1] at hlen hsl ⊢; omega
  case errDrainOk e i rest y v hc hq hf =>
    simp only [PhaseInv, hc] at hph
    obtain ⟨hlen, hnc, hpi⟩ := hI.liveInv (by simp [hc, live])
    obtain ⟨hi, hr⟩ := range_cons hq hI.qRange hI.qLen
    have hq' : s.q.length = rest.length + 1 := by simp [hq]
    have hiD : i = s.delivered.length := by omega
    have hy := hI.args _ _ _ hf
    have hv := hI.doneVal _ _ _ hf _ rfl
    refine { hI with qRange := hr, qLen := ?_, qBound := ?_, deliv := ?_, pendInQ := ?_, bufInv := ?_,
                     liveInv := ?_, phase := ?_ }
    · simp <;> omega
    · simp <;> omega
    · exact deliv_snoc hI.deliv (hiD ▸ hy) hv.symm
    · intro j z st hj hst
      have h1 := hI.pendInQ j z st hj hst
      have : j ≠ i := by rintro rfl; rw [hf] at hj; subst hst; simp at hj
      simp <;> omega
    · simp <;> omega
    · intro _
      refine ⟨by simp <;> omega, hnc, ?_⟩
      have := hpi.pop hf (by omega)
      have he : s.futs.length - rest.length = s.futs.length - s.q.length + 1 := by omega
      simpa [he] using this
    · simp only [PhaseInv]; exact hph
  case errDrainErr e i rest y e' hc hq hf =>
    simp only [PhaseInv, hc] at hph
    obtain ⟨hlen, hnc, hpi⟩ := hI.liveInv (by simp [hc, live])
    obtain ⟨hi, hr⟩ := range_cons hq hI.qRange hI.qLen
    have hq' : s.q.length = rest.length + 1 := by simp [hq]
    have hiD : i = s.delivered.length := by omega
    have hy := hI.args _ _ _ hf
    have hv := hI.doneVal _ _ _ hf _ rfl
    refine { hI with qRange := hr, qLen := ?_, qBound := ?_, pendInQ := ?_, liveInv := ?_, phase := ?_ }
    · simp <;> omega
    · simp <;> omega
    · intro j z st hj hst
      have h1 := hI.pendInQ j z st hj hst
      have : j ≠ i := by rintro rfl; rw [hf] at hj; subst hst; simp at hj
      simp <;> omega
    · intro h; simp [live] at h
    · simp only [PhaseInv, ExitInv]
      refine ⟨by simp, by simp, fun _ => .inr ?_⟩
      rw [← hiD, hy]; simp [hv]
  case cancelEmpty hc ht hq =>
    refine { hI with liveInv := ?_, phase := ?_ }
    · intro h; simp [live] at h
    · simp only [PhaseInv, ExitInv]
      refine ⟨fun _ _ j z st hj => ?_, fun _ htp => ?_, by simp⟩
      rotate_left
      · rw [← hI.htk, ht] at htp; cases htp
      cases st <;> simp [isPending]
      have := hI.pendInQ j z _ hj rfl
      have := getElem?_lt hj
      simp [hq] at *; omega
  case cancelPending i rest y hc ht hq hf =>
    obtain ⟨hi, hr⟩ := range_cons hq hI.qRange hI.qLen
    have hq' : s.q.length = rest.length + 1 := by simp [hq]
    refine { hI with args := ?_, doneVal := ?_, qRange := ?_, qLen := ?_, qBound := ?_, pendInQ := ?_,
                     pulledGe := ?_, pulledLe := ?_, bufInv := ?_, startedLe := ?_, runLe := ?_,
                     liveInv := ?_, phase := ?_ }
    · exact forall_setF (fun j z st hj _ => hI.args j z st hj) hf (hI.args _ _ _ hf)
    · exact forall_setF (fun j z st hj _ => hI.doneVal j z st hj) hf (by intro r hr; cases hr)
    · simpa using hr
    · simp <;> omega
    · simp <;> omega
    · refine forall_setF (fun j z st hj hne hst => ?_) hf (by intro h; cases h)
      have := hI.pendInQ j z st hj hst; simp <;> omega
    · simpa using hpg
    · simpa using hpl
    · simpa using hbuf
    · have := hI.startedLe
      have h1 := nPending_setF .cancelled hf
      simp [isPending] at h1 ⊢; omega
    · have := hI.runLe
      have h2 := nRunning_setF .cancelled hf
      simp [isRunning] at h2 ⊢; omega
    · intro h; simp [hc, live] at h
    · simp only [PhaseInv, hc]
  case cancelSkip i rest hc ht hq hf =>
    obtain ⟨hi, hr⟩ := range_cons hq hI.qRange hI.qLen
    have hq' : s.q.length = rest.length + 1 := by simp [hq]
    refine { hI with qRange := hr, qLen := ?_, qBound := ?_, pendInQ := ?_, liveInv := ?_, phase := ?_ }
    · simp <;> omega
    · simp <;> omega
    · intro j z st hj hst
      have h1 := hI.pendInQ j z st hj hst
      have : j ≠ i := by rintro rfl; subst hst; exact hf _ hj
      simp <;> omega
    · intro h; simp [hc, live] at h
    · simp only [PhaseInv, hc]
  case cancelNothing hc ht =>
    refine { hI with liveInv := ?_, phase := ?_ }
    · intro h; simp [live] at h
    · simp only [PhaseInv, ExitInv]
      refine ⟨fun _ hne => ?_, fun _ htp => ?_, by simp⟩
      · rw [← hI.htk] at hne; exact absurd ht hne
      · rw [← hI.htk, ht] at htp; cases htp
  case cancelTerminate hc ht =>
    refine { hI with args := ?_, doneVal := ?_, qRange := ?_, qLen := ?_, pendInQ := ?_,
                     pulledGe := ?_, pulledLe := ?_, bufInv := ?_, startedLe := ?_, runLe := ?_,
                     liveInv := ?_, phase := ?_ }
    · exact forall_kill (fun j z st hj _ => hI.args j z st hj) (fun j z old hj _ => hI.args j z old hj)
    · exact forall_kill (fun j z st hj _ => hI.doneVal j z st hj) (fun j z old hj _ r hr => by cases hr)
    · simpa using hI.qRange
    · simpa using hql
    · intro j z st hj hst
      have := noActive_kill _ j z st hj
      subst hst; simp [isActive] at this
    · simpa using hpg
    · simpa using hpl
    · simpa using hbuf
    · have := hI.startedLe; simp [nPending_kill]; omega
    · simp [nRunning_kill]
    · intro h; simp [live] at h
    · simp only [PhaseInv, ExitInv]
      exact ⟨fun _ _ => (noActive_kill _).noPending, fun _ _ => noActive_kill _, by simp⟩
  case exitWaitAll r closed hc hk hall =>
    simp only [PhaseInv, hc] at hph
    refine { hI with liveInv := ?_, phase := ?_ }
    · intro h; simp [live] at h
    · simp only [PhaseInv]
      refine ⟨hph, fun _ j z st hj => ?_⟩
      have := List.all_eq_true.mp hall _ (List.mem_of_getElem? hj)
      simpa using this
  case exitKill r closed hc hk =>
    simp only [PhaseInv, hc] at hph
    refine { hI with args := ?_, doneVal := ?_, qRange := ?_, qLen := ?_, pendInQ := ?_,
                     pulledGe := ?_, pulledLe := ?_, bufInv := ?_, startedLe := ?_, runLe := ?_,
                     liveInv := ?_, phase := ?_ }
    · exact forall_kill (fun j z st hj _ => hI.args j z st hj) (fun j z old hj _ => hI.args j z old hj)
    · exact forall_kill (fun j z st hj _ => hI.doneVal j z st hj) (fun j z old hj _ r hr => by cases hr)
    · simpa using hI.qRange
    · simpa using hql
    · intro j z st hj hst
      have := noActive_kill _ j z st hj
      subst hst; simp [isActive] at this
    · simpa using hpg
    · simpa using hpl
    · simpa using hbuf
    · have := hI.startedLe; simp [nPending_kill]; omega
    · simp [nRunning_kill]
    · intro h; simp [live] at h
    · simp only [PhaseInv]
      exact ⟨⟨fun _ _ => (noActive_kill _).noPending, fun _ _ => noActive_kill _,
        fun hcl => by subst hcl; have := hph.2.2 rfl; cases r <;> simp_all [noActive_kill]⟩,
        fun _ => noActive_kill _⟩
  case exitLeave r closed hc hk =>
    simp only [PhaseInv, hc] at hph
    refine { hI with liveInv := ?_, phase := ?_ }
    · intro h; simp [live] at h
    · simp only [PhaseInv]
      exact ⟨hph, quiescent_of_exitInv hph (by rw [← hI.hek, hk]; simp) (by rw [← hI.hek, hk]; simp)
        (by rw [← hI.hek, hk]; simp)⟩
  case exitErrKill e closed hc hk =>
    simp only [PhaseInv, hc] at hph
    refine { hI with args := ?_, doneVal := ?_, qRange := ?_, qLen := ?_, pendInQ := ?_,
                     pulledGe := ?_, pulledLe := ?_, bufInv := ?_, startedLe := ?_, runLe := ?_,
                     liveInv := ?_, phase := ?_ }
    · exact forall_kill (fun j z st hj _ => hI.args j z st hj) (fun j z old hj _ => hI.args j z old hj)
    · exact forall_kill (fun j z st hj _ => hI.doneVal j z st hj) (fun j z old hj _ r hr => by cases hr)
    · simpa using hI.qRange
    · simpa using hql
    · intro j z st hj hst
      have := noActive_kill _ j z st hj
      subst hst; simp [isActive] at this
    · simpa using hpg
    · simpa using hpl
    · simpa using hbuf
    · have := hI.startedLe; simp [nPending_kill]; omega
    · simp [nRunning_kill]
    · intro h; simp [live] at h
    · simp only [PhaseInv]
      exact ⟨⟨fun _ _ => (noActive_kill _).noPending, fun _ _ => noActive_kill _, hph.2.2⟩,
        fun _ => noActive_kill _⟩
  case exitErrNone closed hc hk =>
    simp only [PhaseInv, hc] at hph
    refine { hI with liveInv := ?_, phase := ?_ }
    · intro h; simp [live] at h
    · simp only [PhaseInv]
      exact ⟨hph, quiescent_of_exitInv hph (by rw [← hI.hek, hk]; simp) (by rw [← hI.hek, hk]; simp)
        (by simp)⟩

/-! ### preservation: the environment (`resume`, `close`) and the pool (`start`, `finish`) -/

theorem inv_resume (hI : Inv w b ek tk f src₀ ending s) (h : step s .resume = some s') :
    Inv w b ek tk f src₀ ending s' := by
  have hph := hI.phase
  rcases step_resume h with ⟨x, hc, rfl⟩ | ⟨hc, rfl⟩ | ⟨e, hc, rfl⟩
  · simp only [PhaseInv, hc] at hph
    have hlv := hI.liveInv (by simp [hc, live])
    refine { hI with liveInv := fun _ => hlv, phase := ?_ }
    simp only [PhaseInv]; exact hph
  · simp only [PhaseInv, hc] at hph
    have hlv := hI.liveInv (by simp [hc, live])
    refine { hI with liveInv := fun _ => hlv, phase := ?_ }
    simp only [PhaseInv]; exact hph
  · simp only [PhaseInv, hc] at hph
    have hlv := hI.liveInv (by simp [hc, live])
    refine { hI with liveInv := fun _ => hlv, phase := ?_ }
    simp only [PhaseInv]; exact hph

theorem inv_close (hI : Inv w b ek tk f src₀ ending s) (h : step s .close = some s') :
    Inv w b ek tk f src₀ ending s' := by
  obtain ⟨_, rfl⟩ := step_close h
  refine { hI with liveInv := ?_, phase := ?_ }
  · intro h; simp [live] at h
  · simp only [PhaseInv]

theorem inv_start (hI : Inv w b ek tk f src₀ ending s) (h : step s .start = some s') :
    Inv w b ek tk f src₀ ending s' := by
  obtain ⟨i, x, hnr, _, hf, rfl⟩ := step_start h
  have h1 := nPending_setF .running hf
  have h2 := nRunning_setF .running hf
  simp [isPending, isRunning] at h1 h2
  refine { hI with args := ?_, doneVal := ?_, qRange := ?_, qLen := ?_, pendInQ := ?_,
                   pulledGe := ?_, pulledLe := ?_, bufInv := ?_, startedLe := ?_, runLe := ?_,
                   liveInv := ?_, phase := ?_ }
  · exact forall_setF (fun j z st hj _ => hI.args j z st hj) hf (hI.args _ _ _ hf)
  · exact forall_setF (fun j z st hj _ => hI.doneVal j z st hj) hf (by intro r hr; cases hr)
  · simpa using hI.qRange
  · simpa using hI.qLen
  · refine forall_setF (fun j z st hj _ hst => ?_) hf (by intro h; cases h)
    have := hI.pendInQ j z st hj hst; simpa using this
  · simpa using hI.pulledGe
  · simpa using hI.pulledLe
  · simpa using hI.bufInv
  · have := hI.startedLe; simp; omega
  · have := hI.hw; rw [numRunning_eq] at hnr; simp; omega
  · intro hl
    obtain ⟨hlen, hnc, hpi⟩ := hI.liveInv hl
    refine ⟨by simpa using hlen, forall_setF (fun j z st hj _ => hnc j z st hj) hf (by simp), ?_⟩
    refine forall_setF (fun j z st hj _ hlt => hpi j z st hj (by simpa using hlt)) hf (fun hlt => ?_)
    have := hI.pendInQ _ _ _ hf rfl
    simp at hlt; omega
  · refine PhaseInv_congr (s := s) rfl rfl (by simp) rfl rfl rfl (fun hp => ?_) (fun ha => ?_) hI.phase
    · exact forall_setF (fun j z st hj _ => hp j z st hj) hf (by simp [isPending])
    · have := ha _ _ _ hf; simp [isActive] at this

theorem inv_finish {i : Nat} (hI : Inv w b ek tk f src₀ ending s) (h : step s (.finish i) = some s') :
    Inv w b ek tk f src₀ ending s' := by
  obtain ⟨x, hf, rfl⟩ := step_finish h
  have h1 := nPending_setF (.done (s.f x)) hf
  have h2 := nRunning_setF (.done (s.f x)) hf
  simp [isPending, isRunning] at h1 h2
  refine { hI with args := ?_, doneVal := ?_, qRange := ?_, qLen := ?_, pendInQ := ?_,
                   pulledGe := ?_, pulledLe := ?_, bufInv := ?_, startedLe := ?_, runLe := ?_,
                   liveInv := ?_, phase := ?_ }
  · exact forall_setF (fun j z st hj _ => hI.args j z st hj) hf (hI.args _ _ _ hf)
  · refine forall_setF (fun j z st hj _ => hI.doneVal j z st hj) hf ?_
    intro r hr; injection hr with hr; rw [← hr, hI.hf]
  · simpa using hI.qRange
  · simpa using hI.qLen
  · refine forall_setF (fun j z st hj _ hst => ?_) hf (by intro h; cases h)
    have := hI.pendInQ j z st hj hst; simpa using this
  · simpa using hI.pulledGe
  · simpa using hI.pulledLe
  · simpa using hI.bufInv
  · have := hI.startedLe; simp; omega
  · have := hI.runLe; simp; omega
  · intro hl
    obtain ⟨hlen, hnc, hpi⟩ := hI.liveInv hl
    refine ⟨by simpa using hlen, forall_setF (fun j z st hj _ => hnc j z st hj) hf (by simp), ?_⟩
    exact forall_setF (fun j z st hj _ hlt => hpi j z st hj (by simpa using hlt)) hf (fun _ => rfl)
  · refine PhaseInv_congr (s := s) rfl rfl (by simp) rfl rfl rfl (fun hp => ?_) (fun ha => ?_) hI.phase
    · exact forall_setF (fun j z st hj _ => hp j z st hj) hf (by simp [isPending])
    · exact forall_setF (fun j z st hj _ => ha j z st hj) hf (by simp [isActive])

/-- the invariant is preserved by every step of every thread -/
theorem inv_step {t : Tid} (hI : Inv w b ek tk f src₀ ending s) (h : step s t = some s') :
    Inv w b ek tk f src₀ ending s' := by
  cases t with
  | consumer => exact inv_consumer hI h
  | resume => exact inv_resume hI h
  | close => exact inv_close hI h
  | start => exact inv_start hI h
  | finish i => exact inv_finish hI h

theorem inv_run {sched : List Tid} (hI : Inv w b ek tk f src₀ ending s) (h : run s sched = some s') :
    Inv w b ek tk f src₀ ending s' := by
  induction sched generalizing s with
  | nil => simp [run] at h; subst h; exact hI
  | cons t ts ih =>
    simp only [run] at h
    split at h
    · exact ih (inv_step hI ‹_›) h
    · cases h

theorem inv_reachable (h : Reachable w b ek tk f src₀ ending s) : Inv w b ek tk f src₀ ending s := by
  obtain ⟨sched, hs⟩ := h
  exact inv_run (inv_init ..) hs

/-! ## Deadlock freedom -/

/-- if some future is pending or running, the pool can move -/
theorem pool_can_move (hw : 1 ≤ s.workers)
    (h : ∃ (i : Nat) (x : α) (st : FState β ε), s.futs[i]? = some (x, st) ∧ isActive st = true) :
    (∃ s', step s .start = some s') ∨ (∃ i s', step s (.finish i) = some s') := by
  by_cases hr : ∃ (j : Nat) (y : α), s.futs[j]? = some (y, .running)
  · obtain ⟨j, y, hj⟩ := hr
    exact .inr ⟨j, by simp [step, hj]⟩
  · obtain ⟨i, x, st, hi, ha⟩ := h
    have hst : st = .pending := by
      cases st with
      | pending => rfl
      | running => exact absurd ⟨i, x, hi⟩ hr
      | done r => simp [isActive] at ha
      | cancelled => simp [isActive] at ha
    subst hst
    have hnr : numRunning s = 0 := by
      simp only [numRunning, List.length_eq_zero_iff, List.filter_eq_nil_iff]
      rintro ⟨y, st'⟩ hmem hrun
      obtain ⟨j, hj⟩ := List.mem_iff_getElem?.mp hmem
      cases st' <;> simp [isRunning] at hrun
      exact hr ⟨j, y, hj⟩
    cases hfp : firstPending s.futs with
    | none =>
      simp only [firstPending, List.findIdx?_eq_none_iff] at hfp
      have := hfp _ (List.mem_of_getElem? hi)
      simp [isPending] at this
    | some k =>
      left
      have : numRunning s < s.workers := by omega
      simp [step, hfp, this]

theorem head_progress (hI : Inv w b ek tk f src₀ ending s) (hw : 1 ≤ w) (hlive : live s.c = true)
    {i : Nat} {rest : List Nat} (hq : s.q = i :: rest) :
    (∃ y r, s.futs[i]? = some (y, .done r)) ∨
    (∃ s', step s .start = some s') ∨ (∃ i s', step s (.finish i) = some s') := by
  obtain ⟨hi, _⟩ := range_cons hq hI.qRange hI.qLen
  obtain ⟨_, hnc, _⟩ := hI.liveInv hlive
  have hlt : i < s.futs.length := by omega
  have hget := List.getElem?_eq_getElem hlt
  rcases hfi : s.futs[i] with ⟨y, st⟩
  rw [hfi] at hget
  have hws : 1 ≤ s.workers := by rw [hI.hw]; exact hw
  cases st with
  | pending => exact .inr (pool_can_move hws ⟨i, y, _, hget, rfl⟩)
  | running => exact .inr (pool_can_move hws ⟨i, y, _, hget, rfl⟩)
  | done r => exact .inl ⟨y, r, hget⟩
  | cancelled => exact absurd rfl (hnc _ _ _ hget)

/-- unless the generator is suspended at a `yield` (of the main loop / the drain loop: `.yielded`,
    or of the error drain: `.yieldedErr`) or finished, some thread can move -/
theorem no_deadlock_inv (hI : Inv w b ek tk f src₀ ending s) (hw : 1 ≤ w) (hb : 1 ≤ b)
    (hnd : isDone s = false) (hny : ∀ x, s.c ≠ .yielded x) (hnye : ∀ e, s.c ≠ .yieldedErr e) :
    (∃ s', step s .consumer = some s') ∨ (∃ s', step s .start = some s') ∨
      (∃ i s', step s (.finish i) = some s') := by
  have hph := hI.phase
  have hws : 1 ≤ s.workers := by rw [hI.hw]; exact hw
  cases hc : s.c with
  | pull =>
    left
    cases hsrc : s.src <;> cases he : s.ending <;> simp [step, hc, hsrc, he]
  | waitHead x =>
    simp only [PhaseInv, hc] at hph
    cases hq : s.q with
    | nil => simp [hq] at hph; omega
    | cons i rest =>
      rcases head_progress hI hw (by simp [hc, live]) hq with ⟨y, r, hf⟩ | hpool
      · left
        cases r <;> simp [step, hc, headDone, hq, hf]
      · exact .inr hpool
  | yielded x => exact absurd hc (hny x)
  | submit x => left; simp [step, hc]
  | drain =>
    cases hq : s.q with
    | nil => left; simp [step, hc, hq]
    | cons i rest =>
      rcases head_progress hI hw (by simp [hc, live]) hq with ⟨y, r, hf⟩ | hpool
      · left
        cases r <;> simp [step, hc, headDone, hq, hf]
      · exact .inr hpool
  | drainErr e =>
    cases hq : s.q with
    | nil => left; simp [step, hc, hq]
    | cons i rest =>
      rcases head_progress hI hw (by simp [hc, live]) hq with ⟨y, r, hf⟩ | hpool
      · left
        cases r <;> simp [step, hc, headDone, hq, hf]
      · exact .inr hpool
  | yieldedErr e => exact absurd hc (hnye e)
  | cancel =>
    left
    cases htk : s.termKind with
    | cancelQueued =>
      cases hq : s.q with
      | nil => simp [step, hc, htk, hq]
      | cons i rest =>
        simp only [step, hc, htk, hq]
        split <;> simp
    | nothing => simp [step, hc, htk]
    | terminatePool => simp [step, hc, htk]
  | exitWait r cl =>
    cases hek : s.exitKind with
    | waitAll =>
      by_cases hex : ∃ (j : Nat) (y : α) (st : FState β ε), s.futs[j]? = some (y, st) ∧ isActive st = true
      · exact .inr (pool_can_move hws hex)
      · left
        have hall : s.futs.all (fun p => !isActive p.2) = true := by
          rw [List.all_eq_true]
          rintro ⟨y, st⟩ hmem
          obtain ⟨j, hj⟩ := List.mem_iff_getElem?.mp hmem
          cases ha : isActive st
          · rfl
          · exact absurd ⟨j, y, st, hj, ha⟩ hex
        simp [step, hc, hek, hall]
    | killAll => left; simp [step, hc, hek]
    | leaveRunning => left; simp [step, hc, hek]
    | killOnError => left; cases r <;> simp [step, hc, hek]
  | done r cl => simp [isDone, hc] at hnd

/-! ## Reachability is closed under steps and runs -/

theorem Reachable.run {sched : List Tid} (h : Reachable w b ek tk f src₀ ending s)
    (hr : run s sched = some s') : Reachable w b ek tk f src₀ ending s' := by
  obtain ⟨l, hl⟩ := h
  exact ⟨l ++ sched, by rw [run_append, hl]; simpa using hr⟩

theorem Reachable.step {t : Tid} (h : Reachable w b ek tk f src₀ ending s)
    (hs : step s t = some s') : Reachable w b ek tk f src₀ ending s' :=
  h.run (sched := [t]) (by simp [Lpm.run, hs])

/-- a future that is `cancelled` stays `cancelled` along every run -/
theorem cancelled_run {sched : List Tid} {i : Nat} {x : α} (h : Lpm.run s sched = some s')
    (hi : s.futs[i]? = some (x, .cancelled)) : s'.futs[i]? = some (x, .cancelled) := by
  induction sched generalizing s with
  | nil => simp [Lpm.run] at h; subst h; exact hi
  | cons t ts ih =>
    simp only [Lpm.run] at h
    split at h
    · rename_i s₁ hs
      obtain ⟨st', h1, htr⟩ := futs_step hs hi
      refine ih h ?_
      rcases htr with rfl | ⟨_, h2, _⟩ | ⟨_, h2, _⟩ | ⟨_, _, _, h2, _⟩ | ⟨_, _, h2, _⟩
      · exact h1
      · cases h2
      · cases h2
      · cases h2
      · simp [isActive] at h2
    · cases h

theorem mem_of_forall_idx {P : FState β ε → Prop} {futs : List (α × FState β ε)}
    (h : ∀ (i : Nat) x st, futs[i]? = some (x, st) → P st) : ∀ p ∈ futs, P p.2 := by
  rintro ⟨x, st⟩ hmem
  obtain ⟨j, hj⟩ := List.mem_iff_getElem?.mp hmem
  exact h j x st hj

end

end LazyDs.Lpm

import LazyDs.Lemmas.Rel
/-
  Well-formedness of reference datasets: the statements of C02 / C03 on the eager data.
  (`Rel` transports them to the model of the lazy code.)
-/
namespace LazyDs

/-- what C02 and C03 say, on the reference data -/
structure RefWF (r : RefDS) : Prop where
  /-- C02: the t-th iterated example is the t-th positional outcome; iteration never yields more than
      `len` examples and, when it ends normally, exactly `len` -/
  pos : r.indexable = true → r.stream.vals.length ≤ r.outs.length ∧
        (∀ (t : Nat) (h : t < r.stream.vals.length), r.outs[t]? = some (.ok r.stream.vals[t])) ∧
        (r.stream.err = none → r.stream.vals.length = r.outs.length)
  /-- C02: a dataset that offers a length yields exactly that many examples when it ends normally -/
  len : ∀ n, r.len = .ok n → r.stream.err = none → r.stream.vals.length = n
  /-- C03: `items()` pairs every yielded example with a key: what it yields is a prefix of what
      iteration yields, and if it does not raise it is complete -/
  pairs : (r.kstream.vals.map (·.2)) <+: r.stream.vals ∧
          (r.kstream.err = none → r.kstream.vals.map (·.2) = r.stream.vals ∧ r.stream.err = none)
  /-- C03: with a key table, `items()` raises exactly when iteration does and pairs position `t`
      with `keys[t]` -/
  keyed : ∀ ks, r.keys = .ok ks → r.indexable = true →
          r.kstream.err = r.stream.err ∧ r.kstream.vals.map (·.2) = r.stream.vals ∧
          r.kstream.vals.map (·.1) = ks.take r.kstream.vals.length

/-- (continued) two bookkeeping facts that the stage lemmas need -/
structure RefWF2 (r : RefDS) : Prop extends RefWF r where
  /-- an indexable dataset reports the number of its positions -/
  lenOuts : r.indexable = true → r.len = .ok r.outs.length
  /-- a key table has one key per position -/
  keysLen : r.indexable = true → ∀ ks, r.keys = .ok ks → ks.length = r.outs.length

theorem ofOuts_map_ok {α} (l : List α) : Stream.ofOuts (l.map .ok) = ⟨l, none⟩ := by
  induction l with
  | nil => rfl
  | cons a l ih => simp only [List.map_cons, Stream.ofOuts, ih]

theorem wf_listSrc (xs : List Val) : RefWF (Ref.listSrc xs) where
  pos := by
    intro _
    simp only [Ref.listSrc, Stream.ofList, List.length_map]
    refine ⟨Nat.le_refl _, ?_, ?_⟩
    · intro t h
      simp [h]
    · intro _; trivial
  len := by
    intro n h _
    simp only [Ref.listSrc] at h
    injection h with h
  pairs := by
    simp [Ref.listSrc, Stream.fail, Stream.ofList]
  keyed := by intro ks h; cases h

theorem wf_dictSrc (kvs : List (String × Val)) : RefWF (Ref.dictSrc kvs) where
  pos := by
    intro _
    simp only [Ref.dictSrc, Stream.ofList, List.length_map]
    refine ⟨Nat.le_refl _, ?_, ?_⟩
    · intro t h
      simp [h]
    · intro _; trivial
  len := by
    intro n h _
    simp only [Ref.dictSrc] at h
    injection h with h
    simp only [Ref.dictSrc, Stream.ofList, List.length_map]
    exact h
  pairs := by
    simp [Ref.dictSrc, Stream.ofList]
  keyed := by
    intro ks h _
    simp only [Ref.dictSrc] at h
    injection h with h
    subst h
    simp only [Ref.dictSrc, Stream.ofList, true_and]
    rw [← List.length_map (f := fun x : String × Val => x.1), List.take_length]

theorem wf2_listSrc (xs : List Val) : RefWF2 (Ref.listSrc xs) where
  toRefWF := wf_listSrc xs
  lenOuts := by intro _; simp [Ref.listSrc]
  keysLen := by intro _ ks h; cases h

theorem wf2_dictSrc (kvs : List (String × Val)) : RefWF2 (Ref.dictSrc kvs) where
  toRefWF := wf_dictSrc kvs
  lenOuts := by intro _; simp [Ref.dictSrc]
  keysLen := by
    intro _ ks h
    simp only [Ref.dictSrc] at h
    injection h with h
    subst h
    simp [Ref.dictSrc]

end LazyDs

/-
  Helper lemmas for property C12 (the shuffles; model: `LazyDs.Model.Shuffle`).
  CORE LEAN ONLY.

  * `select` / `applyPerm`: selection by a permutation of the positions is a permutation;
    selection by distinct positions yields distinct positions.
  * `localLoop`: under the validity hypotheses on the oracle the buffer holds at most `bs - 1`
    examples between iterations, `emitted ++ buffer` is a permutation of `buffer₀ ++ consumed`,
    and the number of emitted examples is known; independently of the oracle, an emitted example
    is never more than `bs - 1` positions early.
  * the `ReShuffleDataset` machine: the shared array stays a permutation of `range n`; while no
    `start`/`freeze` happens the array is constant and an iterator walks it front to back.
-/
import LazyDs.Model.Shuffle

namespace LazyDs.Shuffle

/-! ### `select` -/

@[simp] theorem select_nil_idx {α} (l : List α) : select l [] = [] := rfl

theorem select_cons_idx {α} (l : List α) (i : Nat) (idx : List Nat) :
    select l (i :: idx) = (l[i]?).toList ++ select l idx := by
  unfold select
  cases h : l[i]? <;> simp [h]

theorem select_cons_of_lt {α} {l : List α} {i : Nat} (h : i < l.length) (idx : List Nat) :
    select l (i :: idx) = l[i] :: select l idx := by
  simp [select_cons_idx, List.getElem?_eq_getElem h]

theorem select_append_idx {α} (l : List α) (i₁ i₂ : List Nat) :
    select l (i₁ ++ i₂) = select l i₁ ++ select l i₂ := by
  simp [select, List.filterMap_append]

/-- selecting the positions `0, 1, …, l.length - 1` in order gives back `l` -/
theorem select_range {α} (l : List α) : select l (List.range l.length) = l := by
  induction l with
  | nil => rfl
  | cons a l ih =>
    rw [List.length_cons, List.range_succ_eq_map]
    unfold select at ih ⊢
    rw [List.filterMap_cons]
    simp only [List.getElem?_cons_zero, List.filterMap_map]
    congr 1

theorem mem_select {α} {l : List α} {idx : List Nat} {x : α} :
    x ∈ select l idx ↔ ∃ i ∈ idx, l[i]? = some x := by
  simp [select, List.mem_filterMap]

theorem mem_of_mem_select {α} {l : List α} {idx : List Nat} {x : α} (h : x ∈ select l idx) :
    x ∈ l := by
  obtain ⟨i, _, hi⟩ := mem_select.1 h
  exact List.mem_of_getElem? hi

/-- in-range positions: `select` is `map` -/
theorem select_eq_map {α} [Inhabited α] {l : List α} {idx : List Nat}
    (h : ∀ i ∈ idx, i < l.length) : select l idx = idx.map (fun i => l[i]!) := by
  induction idx with
  | nil => rfl
  | cons i idx ih =>
    have hi : i < l.length := h i (by simp)
    rw [select_cons_of_lt hi, ih (fun j hj => h j (by simp [hj]))]
    simp [hi]

theorem select_length_of_lt {α} {l : List α} {idx : List Nat}
    (h : ∀ i ∈ idx, i < l.length) : (select l idx).length = idx.length := by
  induction idx with
  | nil => rfl
  | cons i idx ih =>
    have hi : i < l.length := h i (by simp)
    rw [select_cons_of_lt hi, List.length_cons, ih (fun j hj => h j (by simp [hj])),
      List.length_cons]

theorem select_length_le {α} (l : List α) (idx : List Nat) :
    (select l idx).length ≤ idx.length := by
  unfold select; exact List.length_filterMap_le _ _

/-- selection by a permutation of the positions is a permutation -/
theorem select_perm {α} {l : List α} {π : List Nat} (h : π.Perm (List.range l.length)) :
    (select l π).Perm l := by
  have := List.Perm.filterMap (l[·]?) h
  rwa [show List.filterMap (l[·]?) (List.range l.length) = l from select_range l] at this

theorem select_perm_length {α} {l : List α} {π : List Nat} (h : π.Perm (List.range l.length)) :
    (select l π).length = l.length := (select_perm h).length_eq

/-- selection is monotone in the index list w.r.t. permutations -/
theorem select_perm_idx {α} (l : List α) {i₁ i₂ : List Nat} (h : i₁.Perm i₂) :
    (select l i₁).Perm (select l i₂) := List.Perm.filterMap _ h

theorem select_tile_perm {α} {l : List α} {πs : List (List Nat)}
    (h : ∀ π ∈ πs, π.Perm (List.range l.length)) :
    ((πs.map (select l)).flatten).Perm ((List.replicate πs.length l).flatten) := by
  induction πs with
  | nil => simp
  | cons π πs ih =>
    simp only [List.map_cons, List.flatten_cons, List.length_cons, List.replicate_succ]
    exact (select_perm (h π (by simp))).append (ih (fun ρ hρ => h ρ (by simp [hρ])))

/-- distinct in-range positions of a duplicate-free list select distinct examples -/
theorem select_nodup {α} {l : List α} {idx : List Nat} (hidx : idx.Nodup)
    (hlt : ∀ i ∈ idx, i < l.length) (hl : l.Nodup) : (select l idx).Nodup := by
  induction idx with
  | nil => simp
  | cons i idx ih =>
    have hi : i < l.length := hlt i (by simp)
    rw [select_cons_of_lt hi, List.nodup_cons]
    rw [List.nodup_cons] at hidx
    refine ⟨?_, ih hidx.2 (fun j hj => hlt j (by simp [hj]))⟩
    intro hmem
    obtain ⟨j, hj, hje⟩ := mem_select.1 hmem
    have hjl : j < l.length := hlt j (by simp [hj])
    rw [List.getElem?_eq_getElem hjl, Option.some.injEq] at hje
    have : j = i := (List.getElem_inj hl).1 hje
    exact hidx.1 (this ▸ hj)

/-- the positions selected from the position-tagged list are exactly the requested positions -/
theorem select_zipIdx_snd {α} {l : List α} {idx : List Nat} (hlt : ∀ i ∈ idx, i < l.length) :
    (select l.zipIdx idx).map (·.2) = idx := by
  induction idx with
  | nil => rfl
  | cons i idx ih =>
    have hi : i < l.length := hlt i (by simp)
    rw [select_cons_of_lt (by simpa using hi), List.map_cons,
      ih (fun j hj => hlt j (by simp [hj]))]
    simp

/-- the examples selected from the position-tagged list are the selected examples -/
theorem select_zipIdx_fst {α} (l : List α) (idx : List Nat) :
    (select l.zipIdx idx).map (·.1) = select l idx := by
  induction idx with
  | nil => rfl
  | cons i idx ih =>
    rw [select_cons_idx, select_cons_idx, List.map_append, ih, List.getElem?_zipIdx]
    cases l[i]? <;> simp

/-! ### `applyPerm` -/

theorem applyPerm_perm {α} {π : List Nat} {a : List α} (h : π.Perm (List.range a.length)) :
    (applyPerm π a).Perm a := select_perm h

theorem mem_of_mem_applyPerm {α} {π : List Nat} {a : List α} {x : α} (h : x ∈ applyPerm π a) :
    x ∈ a := mem_of_mem_select h

/-- shuffling an array that is a permutation of `range n` by a valid `π` keeps it one -/
theorem applyPerm_range_perm {n : Nat} {π a : List Nat} (hπ : π.Perm (List.range n))
    (ha : a.Perm (List.range n)) : (applyPerm π a).Perm (List.range n) := by
  have hlen : a.length = n := by simpa using ha.length_eq
  exact (applyPerm_perm (by rwa [hlen])).trans ha

/-! ### `localLoop` / `localShuffle` -/

/-- popping position `c` and putting the popped element in front is a permutation -/
theorem perm_cons_eraseIdx {α} {l : List α} {c : Nat} {y : α} (h : l[c]? = some y) :
    (y :: l.eraseIdx c).Perm l := by
  induction l generalizing c with
  | nil => simp at h
  | cons a l ih =>
    cases c with
    | zero => simp at h; subst h; simp
    | succ c =>
      simp at h
      simp only [List.eraseIdx_cons_succ]
      exact (List.Perm.swap a y _).trans ((ih h).cons a)

theorem localLoop_nil {α} (bs : Nat) (buf : List α) (cs : List Nat) :
    localLoop bs [] buf cs = ([], buf) := by simp [localLoop]

theorem localLoop_cons_lt {α} {bs : Nat} {x : α} {xs buf : List α} {cs : List Nat}
    (h : buf.length + 1 < bs) :
    localLoop bs (x :: xs) buf cs = localLoop bs xs (buf ++ [x]) cs := by
  rw [localLoop.eq_def]
  simp only [List.length_append, List.length_cons, List.length_nil]
  rw [if_neg (by omega)]

theorem localLoop_cons_pop {α} {bs : Nat} {x y : α} {xs buf : List α} {c : Nat} {cs : List Nat}
    (h : bs ≤ buf.length + 1) (hy : (buf ++ [x])[c]? = some y) :
    localLoop bs (x :: xs) buf (c :: cs) =
      (y :: (localLoop bs xs ((buf ++ [x]).eraseIdx c) cs).1,
        (localLoop bs xs ((buf ++ [x]).eraseIdx c) cs).2) := by
  rw [localLoop.eq_def]
  simp only [List.length_append, List.length_cons, List.length_nil]
  rw [if_pos (by omega)]
  simp only [hy]

theorem localLoop_cons_noChoice {α} {bs : Nat} {x : α} {xs buf : List α}
    (h : bs ≤ buf.length + 1) :
    localLoop bs (x :: xs) buf [] = ([], buf ++ [x]) := by
  rw [localLoop.eq_def]
  simp only [List.length_append, List.length_cons, List.length_nil]
  rw [if_pos (by omega)]

theorem localLoop_cons_badChoice {α} {bs : Nat} {x : α} {xs buf : List α} {c : Nat} {cs : List Nat}
    (h : bs ≤ buf.length + 1) (hy : (buf ++ [x])[c]? = none) :
    localLoop bs (x :: xs) buf (c :: cs) = ([], buf ++ [x]) := by
  rw [localLoop.eq_def]
  simp only [List.length_append, List.length_cons, List.length_nil]
  rw [if_pos (by omega)]
  simp only [hy]

/-- **loop invariant under a valid oracle.**  Started with at most `bs - 1` buffered examples
    (re-established at every recursive call), choices `< bs` and enough of them:
    `emitted ++ buffer` is a permutation of `buf ++ xs`, and both sizes are known. -/
theorem localLoop_valid {α} {bs : Nat} (hbs : 1 ≤ bs) (xs buf : List α) (cs : List Nat)
    (hbuf : buf.length ≤ bs - 1) (hcs : ∀ c ∈ cs, c < bs)
    (hlen : buf.length + xs.length - (bs - 1) ≤ cs.length) :
    ((localLoop bs xs buf cs).1 ++ (localLoop bs xs buf cs).2).Perm (buf ++ xs) ∧
    (localLoop bs xs buf cs).1.length = buf.length + xs.length - (bs - 1) ∧
    (localLoop bs xs buf cs).2.length = min (buf.length + xs.length) (bs - 1) := by
  induction xs generalizing buf cs with
  | nil =>
    rw [localLoop_nil]
    refine ⟨by simp, ?_, ?_⟩ <;> simp <;> omega
  | cons x xs ih =>
    by_cases h : buf.length + 1 < bs
    · rw [localLoop_cons_lt h]
      have := ih (buf ++ [x]) cs (by simp; omega) hcs (by simp at hlen ⊢; omega)
      refine ⟨by simpa using this.1, ?_, ?_⟩
      · rw [this.2.1]; simp; omega
      · rw [this.2.2]; simp; omega
    · have hb : buf.length + 1 = bs := by omega
      cases cs with
      | nil => simp at hlen; omega
      | cons c cs =>
        have hc : c < bs := hcs c (by simp)
        have hcl : c < (buf ++ [x]).length := by simp; omega
        have hy : (buf ++ [x])[c]? = some (buf ++ [x])[c] := List.getElem?_eq_getElem hcl
        rw [localLoop_cons_pop (by omega) hy]
        have hel : ((buf ++ [x]).eraseIdx c).length = bs - 1 := by
          rw [List.length_eraseIdx, if_pos hcl]; simp; omega
        have := ih ((buf ++ [x]).eraseIdx c) cs (by omega)
          (fun d hd => hcs d (by simp [hd])) (by simp at hlen ⊢; omega)
        refine ⟨?_, ?_, ?_⟩
        · simp only [List.cons_append]
          refine (this.1.cons _).trans ?_
          rw [← List.cons_append]
          have := (perm_cons_eraseIdx hy).append_right xs
          simpa using this
        · simp only [List.length_cons, this.2.1, hel]; omega
        · simp only [this.2.2, hel]; simp; omega

/-- **displacement invariant, any oracle.**  `f` is the source position, `k` the number of examples
    consumed so far (`buf` holds positions `< k`, `xs[i]` has position `≤ k + i`); the number of
    examples emitted so far is `k - buf.length`.  The `j`-th example emitted from here on, at global
    output position `k - buf.length + j`, has source position at most that `+ (bs - 1)`; and the
    examples left in the buffer can still be emitted at any later position. -/
theorem localLoop_displacement {α} (f : α → Nat) {bs : Nat} (hbs : 1 ≤ bs)
    (xs buf : List α) (cs : List Nat) (k : Nat)
    (hbuf : buf.length ≤ bs - 1) (hbufk : ∀ y ∈ buf, f y < k)
    (hxs : ∀ i y, xs[i]? = some y → f y ≤ k + i) :
    (∀ j y, (localLoop bs xs buf cs).1[j]? = some y → f y + buf.length ≤ k + j + (bs - 1)) ∧
    (∀ y ∈ (localLoop bs xs buf cs).2,
      f y + buf.length ≤ k + (localLoop bs xs buf cs).1.length + (bs - 1)) := by
  induction xs generalizing buf cs k with
  | nil =>
    rw [localLoop_nil]
    refine ⟨by simp, ?_⟩
    intro y hy
    have := hbufk y hy
    simp; omega
  | cons x xs ih =>
    have hx : f x ≤ k := by simpa using hxs 0 x (by simp)
    have hmem : ∀ y ∈ buf ++ [x], f y < k + 1 := by
      intro y hy
      rcases List.mem_append.1 hy with h | h
      · have := hbufk y h; omega
      · simp at h; subst h; omega
    have hxs' : ∀ i y, xs[i]? = some y → f y ≤ k + 1 + i := by
      intro i y hi
      have := hxs (i + 1) y (by simpa using hi)
      omega
    by_cases h : buf.length + 1 < bs
    · rw [localLoop_cons_lt h]
      have := ih (buf ++ [x]) cs (k + 1) (by simp; omega) hmem hxs'
      simp only [List.length_append, List.length_cons, List.length_nil] at this
      refine ⟨fun j y hj => ?_, fun y hy => ?_⟩
      · have := this.1 j y hj; omega
      · have := this.2 y hy; omega
    · have hb : buf.length + 1 = bs := by omega
      have hstuck : ∀ y ∈ buf ++ [x], f y + buf.length ≤ k + 0 + (bs - 1) := by
        intro y hy
        have := hmem y hy; omega
      cases cs with
      | nil =>
        rw [localLoop_cons_noChoice (by omega)]
        exact ⟨by simp, by simpa using hstuck⟩
      | cons c cs =>
        cases hy : (buf ++ [x])[c]? with
        | none =>
          rw [localLoop_cons_badChoice (by omega) hy]
          exact ⟨by simp, by simpa using hstuck⟩
        | some y =>
          rw [localLoop_cons_pop (by omega) hy]
          have hcl : c < (buf ++ [x]).length := (List.getElem?_eq_some_iff.1 hy).1
          have hel : ((buf ++ [x]).eraseIdx c).length = bs - 1 := by
            rw [List.length_eraseIdx, if_pos hcl]; simp; omega
          have := ih ((buf ++ [x]).eraseIdx c) cs (k + 1) (by omega)
            (fun z hz => hmem z (List.mem_of_mem_eraseIdx hz)) hxs'
          rw [hel] at this
          refine ⟨fun j z hj => ?_, fun z hz => ?_⟩
          · cases j with
            | zero =>
              simp at hj; subst hj
              have := hmem _ (List.mem_of_getElem? hy); omega
            | succ j =>
              have := this.1 j z (by simpa using hj); omega
          · have := this.2 z hz
            simp only [List.length_cons]; omega

theorem localShuffle_eq {α} (bs : Nat) (input : List α) (cs fp : List Nat) :
    localShuffle bs input cs fp =
      (localLoop bs input [] cs).1 ++ applyPerm fp (localLoop bs input [] cs).2 := by
  simp [localShuffle]

/-- the number of examples the loop emits -/
theorem localLoop_out_length {α} {bs : Nat} (hbs : 1 ≤ bs) {input : List α} {cs : List Nat}
    (hcs : ∀ c ∈ cs, c < bs) (hlen : input.length + 1 - bs ≤ cs.length) :
    (localLoop bs input [] cs).1.length = input.length + 1 - bs := by
  have := (localLoop_valid hbs input [] cs (by simp) hcs (by simp; omega)).2.1
  simp at this; omega

/-- the size of the buffer left at the end -/
theorem localLoop_rest_length {α} {bs : Nat} (hbs : 1 ≤ bs) {input : List α} {cs : List Nat}
    (hcs : ∀ c ∈ cs, c < bs) (hlen : input.length + 1 - bs ≤ cs.length) :
    (localLoop bs input [] cs).2.length = min input.length (bs - 1) := by
  simpa using (localLoop_valid hbs input [] cs (by simp) hcs (by simp; omega)).2.2

/-- emitted ++ remaining buffer is a permutation of the input -/
theorem localLoop_perm {α} {bs : Nat} (hbs : 1 ≤ bs) {input : List α} {cs : List Nat}
    (hcs : ∀ c ∈ cs, c < bs) (hlen : input.length + 1 - bs ≤ cs.length) :
    ((localLoop bs input [] cs).1 ++ (localLoop bs input [] cs).2).Perm input := by
  simpa using (localLoop_valid hbs input [] cs (by simp) hcs (by simp; omega)).1

theorem localShuffle_perm {α} {bs : Nat} (hbs : 1 ≤ bs) {input : List α} {cs fp : List Nat}
    (hcs : ∀ c ∈ cs, c < bs) (hlen : input.length + 1 - bs ≤ cs.length)
    (hfp : fp.Perm (List.range (min input.length (bs - 1)))) :
    (localShuffle bs input cs fp).Perm input := by
  rw [localShuffle_eq]
  refine (List.Perm.append_left _ (applyPerm_perm ?_)).trans (localLoop_perm hbs hcs hlen)
  rwa [localLoop_rest_length hbs hcs hlen]

theorem localShuffle_displacement {α} {bs : Nat} (hbs : 1 ≤ bs) (input : List α)
    (cs fp : List Nat) (j p : Nat) (x : α)
    (h : (localShuffle bs input.zipIdx cs fp)[j]? = some (x, p)) : p ≤ j + (bs - 1) := by
  rw [localShuffle_eq] at h
  have key := localLoop_displacement (fun y : α × Nat => y.2) hbs input.zipIdx [] cs 0
    (by simp) (by simp) (by
      intro i y hi
      rw [List.getElem?_zipIdx] at hi
      cases hl : input[i]? with
      | none => simp [hl] at hi
      | some a => simp [hl] at hi; subst hi; simp)
  by_cases hj : j < (localLoop bs input.zipIdx [] cs).1.length
  · rw [List.getElem?_append_left hj] at h
    have := key.1 j _ h
    simpa using this
  · rw [List.getElem?_append_right (by omega)] at h
    have := key.2 _ (mem_of_mem_applyPerm (List.mem_of_getElem? h))
    simp at this; omega

/-! ### the `ReShuffleDataset` machine -/

theorem rrun_nil (s : RState) : rrun s [] = (s, []) := rfl

theorem rrun_cons (s : RState) (op : ROp) (ops : List ROp) :
    rrun s (op :: ops) =
      ((rrun (rstep s op).1 ops).1, (rstep s op).2 :: (rrun (rstep s op).1 ops).2) := rfl

theorem rrun_append (s : RState) (a b : List ROp) :
    rrun s (a ++ b) =
      ((rrun (rrun s a).1 b).1, (rrun s a).2 ++ (rrun (rrun s a).1 b).2) := by
  induction a generalizing s with
  | nil => rfl
  | cons op a ih => simp only [List.cons_append, rrun_cons, ih]

theorem rrun_outs_length (s : RState) (ops : List ROp) : (rrun s ops).2.length = ops.length := by
  induction ops generalizing s with
  | nil => rfl
  | cons op ops ih => simp [rrun_cons, ih]

theorem rstep_arr_perm {n : Nat} {s : RState} {op : ROp} (hs : s.arr.Perm (List.range n))
    (hop : ∀ π, op = .start π ∨ op = .freeze π → π.Perm (List.range n)) :
    (rstep s op).1.arr.Perm (List.range n) := by
  cases op with
  | start π => exact applyPerm_range_perm (hop π (.inl rfl)) hs
  | freeze π => exact applyPerm_range_perm (hop π (.inr rfl)) hs
  | next it =>
    simp only [rstep]
    split
    · exact hs
    · split <;> exact hs

/-- the array invariant along a run -/
theorem rrun_arr_perm {n : Nat} {s : RState} {ops : List ROp} (hs : s.arr.Perm (List.range n))
    (hops : ∀ op ∈ ops, ∀ π, op = .start π ∨ op = .freeze π → π.Perm (List.range n)) :
    (rrun s ops).1.arr.Perm (List.range n) := by
  induction ops generalizing s with
  | nil => exact hs
  | cons op ops ih =>
    rw [rrun_cons]
    exact ih (rstep_arr_perm hs (hops op (by simp))) (fun o ho => hops o (by simp [ho]))

/-- every snapshot reported along a run is a permutation of `range n` -/
theorem rrun_frozen_perm {n : Nat} {s : RState} {ops : List ROp} (hs : s.arr.Perm (List.range n))
    (hops : ∀ op ∈ ops, ∀ π, op = .start π ∨ op = .freeze π → π.Perm (List.range n))
    {a : List Nat} (ha : ROut.frozen a ∈ (rrun s ops).2) : a.Perm (List.range n) := by
  induction ops generalizing s with
  | nil => simp [rrun_nil] at ha
  | cons op ops ih =>
    rw [rrun_cons] at ha
    rcases List.mem_cons.1 ha with h | h
    · cases op with
      | start π => simp [rstep] at h
      | freeze π =>
        simp only [rstep, ROut.frozen.injEq] at h
        subst h
        exact applyPerm_range_perm (hops _ (by simp) π (.inr rfl)) hs
      | next it =>
        simp only [rstep] at h
        split at h
        · cases h
        · split at h <;> cases h
    · exact ih (rstep_arr_perm hs (hops op (by simp))) (fun o ho => hops o (by simp [ho])) h

/-- iterators are never removed -/
theorem rstep_pos_length_le (s : RState) (op : ROp) :
    s.pos.length ≤ (rstep s op).1.pos.length := by
  cases op with
  | start π => simp [rstep]
  | freeze π => simp [rstep]
  | next it =>
    simp only [rstep]
    split
    · exact Nat.le_refl _
    · split <;> simp

theorem rrun_pos_length_le (s : RState) (ops : List ROp) :
    s.pos.length ≤ (rrun s ops).1.pos.length := by
  induction ops generalizing s with
  | nil => exact Nat.le_refl _
  | cons op ops ih => exact Nat.le_trans (rstep_pos_length_le s op) (ih _)

theorem valuesOf_append (it : Nat) {a : List ROp} {o₁ : List ROut} (h : a.length = o₁.length)
    (b : List ROp) (o₂ : List ROut) :
    valuesOf it (a ++ b) (o₁ ++ o₂) = valuesOf it a o₁ ++ valuesOf it b o₂ := by
  induction a generalizing o₁ with
  | nil =>
    cases o₁ with
    | nil => simp [valuesOf]
    | cons _ _ => simp at h
  | cons op a ih =>
    cases o₁ with
    | nil => simp at h
    | cons o o₁ =>
      have h' : a.length = o₁.length := by simpa using h
      have := ih h'
      cases op <;> cases o <;> simp [valuesOf, this] <;> split <;> simp

/-- an iterator that does not exist yet at the end of a run received nothing in it -/
theorem valuesOf_not_started (s : RState) (ops : List ROp) {it : Nat}
    (h : (rrun s ops).1.pos.length ≤ it) : valuesOf it ops (rrun s ops).2 = [] := by
  induction ops generalizing s with
  | nil => simp [valuesOf]
  | cons op ops ih =>
    rw [rrun_cons] at h ⊢
    have ih' := ih _ h
    have hle : (rstep s op).1.pos.length ≤ it := Nat.le_trans (rrun_pos_length_le _ _) h
    have hle' : s.pos.length ≤ it := Nat.le_trans (rstep_pos_length_le _ _) hle
    cases op with
    | start π => simpa [valuesOf, rstep] using ih'
    | freeze π => simpa [valuesOf, rstep] using ih'
    | next j =>
      cases hj : s.pos[j]? with
      | none => simpa [valuesOf, rstep, hj] using ih'
      | some p =>
        have hjl : j < s.pos.length := (List.getElem?_eq_some_iff.1 hj).1
        cases hv : s.arr[p]? with
        | none => simpa [valuesOf, rstep, hj, hv] using ih'
        | some v =>
          have : j ≠ it := by omega
          simpa [valuesOf, rstep, hj, hv, this] using ih'

/-- While only `next` operations happen, the array is constant and iterator `it`, standing at
    position `p`, receives the next `m` array elements, for some `m`; if a `next it` reported
    `stop`, it received all the remaining ones. -/
theorem rrun_only_next {s : RState} {post : List ROp} {it p : Nat}
    (hpost : ∀ op ∈ post, ∃ j, op = .next j) (hp : s.pos[it]? = some p)
    (hpl : p ≤ s.arr.length) :
    ∃ m, valuesOf it post (rrun s post).2 = (s.arr.drop p).take m ∧
      p + m ≤ s.arr.length ∧ (rrun s post).1.arr = s.arr ∧
      (rrun s post).1.pos[it]? = some (p + m) ∧
      (∀ k : Nat, post[k]? = some (ROp.next it) → (rrun s post).2[k]? = some ROut.stop →
        p + m = s.arr.length) := by
  induction post generalizing s p with
  | nil => exact ⟨0, by simp [valuesOf], by simpa using hpl, rfl, by simpa [rrun] using hp, by simp⟩
  | cons op post ih =>
    obtain ⟨j, rfl⟩ := hpost op (by simp)
    have hpost' : ∀ op ∈ post, ∃ j, op = .next j := fun o ho => hpost o (by simp [ho])
    rw [rrun_cons]
    by_cases hj : j = it
    · subst hj
      cases hv : s.arr[p]? with
      | some v =>
        have hlt : p < s.arr.length := (List.getElem?_eq_some_iff.1 hv).1
        have hst : rstep s (.next j) = ({ s with pos := s.pos.set j (p + 1) }, .val v) := by
          simp [rstep, hp, hv]
        have hjl : j < s.pos.length := (List.getElem?_eq_some_iff.1 hp).1
        obtain ⟨m, h1, h2, h3, h4, h5⟩ := ih (s := { s with pos := s.pos.set j (p + 1) })
          (p := p + 1) hpost' (by simp [hjl]) (by simp; omega)
        simp only [hst]
        refine ⟨m + 1, ?_, by simp at h2 ⊢; omega, h3, by rw [h4]; congr 1; omega, ?_⟩
        · simp only [valuesOf, if_true, h1]
          rw [List.drop_eq_getElem_cons hlt, List.take_succ_cons]
          congr 1
          exact (List.getElem?_eq_some_iff.1 hv).2.symm
        · intro k hk hs
          cases k with
          | zero => simp at hs
          | succ k =>
            have := h5 k (by simpa using hk) (by simpa using hs)
            simp at this ⊢; omega
      | none =>
        have hge : s.arr.length ≤ p := by simpa using hv
        have hst : rstep s (.next j) = (s, .stop) := by simp [rstep, hp, hv]
        obtain ⟨m, h1, h2, h3, h4, h5⟩ := ih (s := s) (p := p) hpost' hp hpl
        simp only [hst]
        have hm : m = 0 := by omega
        subst hm
        refine ⟨0, by simpa [valuesOf] using h1, h2, h3, h4, fun _ _ _ => by omega⟩
    · have key : ∃ s', (rstep s (.next j)).1 = s' ∧ s'.arr = s.arr ∧ s'.pos[it]? = some p ∧
          valuesOf it (.next j :: post) ((rstep s (.next j)).2 :: (rrun s' post).2) =
            valuesOf it post (rrun s' post).2 := by
        refine ⟨_, rfl, ?_, ?_, ?_⟩
        · simp only [rstep]; split
          · rfl
          · split <;> rfl
        · simp only [rstep]; split
          · exact hp
          · split
            · simp [hj, hp]
            · exact hp
        · cases h : (rstep s (.next j)).2 <;> simp [valuesOf, hj]
      obtain ⟨s', hs', ha, hp', hvals⟩ := key
      rw [hs']
      obtain ⟨m, h1, h2, h3, h4, h5⟩ := ih (s := s') (p := p) hpost' hp' (by rw [ha]; exact hpl)
      rw [ha] at h1 h2 h3 h5
      refine ⟨m, by rw [hvals, h1], h2, h3, h4, ?_⟩
      intro k hk hs
      cases k with
      | zero => simp at hk; exact absurd hk hj
      | succ k => exact h5 k (by simpa using hk) (by simpa using hs)

/-- a `next` on an iterator that does not exist yet at the end of the run reports `bad` -/
theorem rrun_not_started_out (s : RState) (ops : List ROp) {it : Nat}
    (h : (rrun s ops).1.pos.length ≤ it) (k : Nat) (hk : ops[k]? = some (ROp.next it)) :
    (rrun s ops).2[k]? = some ROut.bad := by
  induction ops generalizing s k with
  | nil => simp at hk
  | cons op ops ih =>
    rw [rrun_cons] at h ⊢
    cases k with
    | zero =>
      simp at hk; subst hk
      have hle : s.pos.length ≤ it :=
        Nat.le_trans (rstep_pos_length_le _ _) (Nat.le_trans (rrun_pos_length_le _ _) h)
      have : s.pos[it]? = none := by simpa using hle
      simp [rstep, this]
    | succ k => simpa using ih _ h k (by simpa using hk)

/-- **isolated iteration**: iterator `it` is created by `start π` after the history `pre`, only
    `next` operations follow, and some `next it` reported `stop`.  Then `it` received exactly the
    array as `start π` left it. -/
theorem reshuffle_isolated {n it : Nat} {pre post : List ROp} {π : List Nat}
    (hpost : ∀ op ∈ post, ∃ j, op = ROp.next j)
    (hit : (rrun (rinit n) (pre ++ ROp.start π :: post)).2[pre.length]? = some (ROut.started it))
    (hstop : ∃ k : Nat, (pre ++ ROp.start π :: post)[k]? = some (ROp.next it) ∧
      (rrun (rinit n) (pre ++ ROp.start π :: post)).2[k]? = some ROut.stop) :
    valuesOf it (pre ++ ROp.start π :: post) (rrun (rinit n) (pre ++ ROp.start π :: post)).2 =
      applyPerm π (rrun (rinit n) pre).1.arr := by
  rw [rrun_append, rrun_cons] at hit hstop ⊢
  generalize hs₁ : rrun (rinit n) pre = r₁ at *
  have ho₁ : r₁.2.length = pre.length := by rw [← hs₁]; exact rrun_outs_length _ _
  simp only at hit hstop ⊢
  have hit' : it = r₁.1.pos.length := by
    rw [List.getElem?_append_right (by omega)] at hit
    simp [ho₁, rstep] at hit
    exact hit.symm
  rw [valuesOf_append it ho₁.symm]
  have hpre : valuesOf it pre r₁.2 = [] := by
    rw [← hs₁]; exact valuesOf_not_started _ _ (by rw [hs₁, hit']; exact Nat.le_refl _)
  rw [hpre, List.nil_append]
  generalize hs₂ : (rstep r₁.1 (ROp.start π)).1 = s₂ at *
  have harr : s₂.arr = applyPerm π r₁.1.arr := by rw [← hs₂]; rfl
  have hpos : s₂.pos[it]? = some 0 := by rw [← hs₂, hit']; simp [rstep]
  obtain ⟨m, h1, h2, -, -, h5⟩ := rrun_only_next hpost hpos (Nat.zero_le _)
  have hvals : valuesOf it (ROp.start π :: post) ((rstep r₁.1 (ROp.start π)).2 :: (rrun s₂ post).2)
      = valuesOf it post (rrun s₂ post).2 := by simp [valuesOf]
  rw [hvals, h1, ← harr]
  obtain ⟨k, hk1, hk2⟩ := hstop
  have hm : 0 + m = s₂.arr.length := by
    by_cases hkl : k < pre.length
    · exfalso
      rw [List.getElem?_append_left hkl] at hk1
      rw [List.getElem?_append_left (by omega)] at hk2
      have := rrun_not_started_out (rinit n) pre (it := it)
        (by rw [hs₁, hit']; exact Nat.le_refl _) k hk1
      rw [hs₁, hk2] at this
      cases this
    · rw [List.getElem?_append_right (by omega)] at hk1
      rw [List.getElem?_append_right (by omega), ho₁] at hk2
      cases hkk : k - pre.length with
      | zero => rw [hkk] at hk1; simp at hk1
      | succ k' =>
        rw [hkk] at hk1 hk2
        exact h5 k' (by simpa using hk1) (by simpa using hk2)
  simp at hm
  subst hm
  simp

end LazyDs.Shuffle

/-
  Helper lemmas for C09 (aliasing / isolation), about the heap model `LazyDs.Heap`.  CORE LEAN ONLY.

  * `Option`-`mapM` toolkit (`mapM_opt_*`);
  * `snapshot_frame`, `snapshot_mono`;
  * `alloc_spec` / `allocList_spec` / `allocKvs_spec` (mutual structural induction on the nested
    inductive `Tree`): `alloc` appends cells `new` that only point into the new region, and the
    copy reads back as `t` in every extension of the heap with any fuel `≥ new.length`;
    corollaries `alloc_prefix`, `alloc_root_fresh`, `alloc_new_cells_fresh`, `snapshot_alloc`,
    `snapshot_alloc_fuelOf`;
  * `step_access_cases`, `run_getElem?`, store / heap-length / handed invariants;
  * `ClosedBelow`, `Frozen` and the isolation lemmas `isolated_tree`, `isolated_addr`,
    `mutates_ge_of_handed`.
-/
import LazyDs.Model.Heap
namespace LazyDs.Heap
theorem mapM_opt_cons {α β} (f : α → Option β) (x : α) (xs : List α) :
    (x :: xs).mapM f = (f x).bind fun y => (xs.mapM f).map (y :: ·) := by
  rw [List.mapM_cons]
  cases f x with
  | none => rfl
  | some y => cases List.mapM f xs <;> rfl

theorem mapM_opt_nil {α β} (f : α → Option β) : ([] : List α).mapM f = some [] := by
  rw [List.mapM_nil]; rfl

theorem mapM_opt_cons_eq_some {α β} {f : α → Option β} {x : α} {xs : List α} {ys : List β} :
    (x :: xs).mapM f = some ys ↔ ∃ y ys', f x = some y ∧ xs.mapM f = some ys' ∧ ys = y :: ys' := by
  rw [mapM_opt_cons]
  cases f x with
  | none => simp
  | some y => cases List.mapM f xs <;> simp [eq_comm]

theorem mapM_opt_congr {α β} {f g : α → Option β} {xs : List α} (hfg : ∀ x ∈ xs, f x = g x) :
    xs.mapM f = xs.mapM g := by
  induction xs with
  | nil => rw [mapM_opt_nil, mapM_opt_nil]
  | cons x xs ih =>
    rw [mapM_opt_cons, mapM_opt_cons, hfg x (by simp), ih (fun y hy => hfg y (by simp [hy]))]

theorem mapM_opt_mono {α β} {f g : α → Option β} {xs : List α} {ys : List β}
    (hfg : ∀ x ∈ xs, ∀ y, f x = some y → g x = some y) (h : xs.mapM f = some ys) :
    xs.mapM g = some ys := by
  induction xs generalizing ys with
  | nil => rw [mapM_opt_nil] at *; exact h
  | cons x xs ih =>
    rw [mapM_opt_cons_eq_some] at *
    obtain ⟨y, ys', h1, h2, h3⟩ := h
    exact ⟨y, ys', hfg x (by simp) y h1, ih (fun z hz => hfg z (by simp [hz])) h2, h3⟩

/-- addresses stored inside a cell -/
def Cell.addrs : Cell → List Addr
  | .int _ => []
  | .list xs => xs
  | .dict kvs => kvs.map (·.2)

theorem snapshot_zero (h : Heap) (a : Addr) : snapshot h 0 a = none := rfl

theorem snapshot_succ (h : Heap) (f : Nat) (a : Addr) :
    snapshot h (f + 1) a =
      match h[a]? with
      | none => none
      | some (.int i) => some (.int i)
      | some (.list xs) => (xs.mapM (snapshot h f)).map .list
      | some (.dict kvs) =>
          (kvs.mapM (fun kv => (snapshot h f kv.2).map (fun t => (kv.1, t)))).map .dict := rfl

theorem snapshot_frame (P : Addr → Prop) (h h' : Heap)
    (hcl : ∀ a, P a → ∀ c, h[a]? = some c → ∀ b ∈ c.addrs, P b)
    (heq : ∀ a, P a → h'[a]? = h[a]?) :
    ∀ f a, P a → snapshot h' f a = snapshot h f a := by
  intro f
  induction f with
  | zero => intros; rfl
  | succ f ih =>
    intro a ha
    rw [snapshot_succ, snapshot_succ, heq a ha]
    cases hc : h[a]? with
    | none => rfl
    | some c =>
      cases c with
      | int i => rfl
      | list xs =>
        simp only
        rw [mapM_opt_congr (xs := xs) (fun x hx => ih x (hcl a ha _ hc x hx))]
      | dict kvs =>
        simp only
        rw [mapM_opt_congr (xs := kvs) (fun kv hkv => by
          rw [ih kv.2 (hcl a ha _ hc kv.2 (List.mem_map.2 ⟨kv, hkv, rfl⟩))])]

theorem snapshot_mono_succ (h : Heap) : ∀ f a t, snapshot h f a = some t → snapshot h (f + 1) a = some t := by
  intro f
  induction f with
  | zero => intro a t ht; simp [snapshot_zero] at ht
  | succ f ih =>
    intro a t ht
    rw [snapshot_succ] at ht ⊢
    cases hc : h[a]? with
    | none => simp [hc] at ht
    | some c =>
      rw [hc] at ht
      cases c with
      | int i => exact ht
      | list xs =>
        simp only [Option.map_eq_some_iff] at ht ⊢
        obtain ⟨ys, h1, h2⟩ := ht
        exact ⟨ys, mapM_opt_mono (fun x _ y hy => ih x y hy) h1, h2⟩
      | dict kvs =>
        simp only [Option.map_eq_some_iff] at ht ⊢
        obtain ⟨ys, h1, h2⟩ := ht
        refine ⟨ys, mapM_opt_mono (fun x _ y hy => ?_) h1, h2⟩
        simp only [Option.map_eq_some_iff] at hy ⊢
        obtain ⟨t', h3, h4⟩ := hy
        exact ⟨t', ih _ _ h3, h4⟩

theorem snapshot_mono {h : Heap} {f f' : Nat} {a : Addr} {t : Tree}
    (ht : snapshot h f a = some t) (hle : f ≤ f') : snapshot h f' a = some t := by
  induction hle with
  | refl => exact ht
  | step _ ih => exact snapshot_mono_succ _ _ _ _ ih

/-- `omega` after unfolding the abbreviation `Addr := Nat` (comparisons elaborated at type `Addr`
    are invisible to `omega`) -/
macro "aomega" : tactic => `(tactic| ((try dsimp only [Addr] at *); omega))

/-- `h'` extends `h` by the cells `new`, which only point into the new region -/
structure Ext (h h' : Heap) (new : List Cell) : Prop where
  eq : h' = h ++ new
  ptr : ∀ c ∈ new, ∀ b ∈ c.addrs, h.length ≤ (b : Nat) ∧ (b : Nat) < h.length + new.length

theorem getElem?_mid (h new rest : List Cell) (c : Cell) :
    (h ++ (new ++ [c]) ++ rest)[h.length + new.length]? = some c := by
  rw [List.append_assoc, List.getElem?_append_right (by omega)]
  rw [List.append_assoc, List.getElem?_append_right (by omega)]
  simp

mutual
theorem alloc_spec : ∀ (t : Tree) (h : Heap), ∃ new : List Cell,
    Ext h (alloc h t).1 new ∧
    h.length ≤ ((alloc h t).2 : Nat) ∧ ((alloc h t).2 : Nat) < h.length + new.length ∧
    (∀ rest f, new.length ≤ f → snapshot (h ++ new ++ rest) f (alloc h t).2 = some t)
  | .int i, h => by
    refine ⟨[.int i], ⟨by rw [alloc.eq_1], by simp [Cell.addrs]⟩, by simp [alloc.eq_1], by simp [alloc.eq_1], ?_⟩
    intro rest f hf
    obtain ⟨f, rfl⟩ : ∃ f', f = f' + 1 := ⟨f - 1, by simp at hf; aomega⟩
    rw [snapshot_succ, alloc.eq_1]
    simp
  | .list xs, h => by
    obtain ⟨new, hext, has, hsnap⟩ := allocList_spec xs h
    rw [alloc.eq_2]
    cases hal : alloc.allocList h xs with
    | mk h' as =>
      rw [hal] at hext has hsnap
      simp only at hext has hsnap ⊢
      have hlen : h'.length = h.length + new.length := by rw [hext.eq]; simp
      refine ⟨new ++ [.list as], ⟨by rw [hext.eq]; simp, ?_⟩, by aomega, by simp; aomega, ?_⟩
      · intro c hc b hb
        rw [List.mem_append] at hc
        rcases hc with hc | hc
        · have := hext.ptr c hc b hb
          simp; aomega
        · simp at hc; subst hc
          have := has b hb
          simp; aomega
      · intro rest f hf
        obtain ⟨f, rfl⟩ : ∃ f', f = f' + 1 := ⟨f - 1, by simp at hf; aomega⟩
        rw [snapshot_succ, hlen, getElem?_mid]
        simp only
        have := hsnap ([.list as] ++ rest) f (by simp at hf; aomega)
        simp only [List.append_assoc] at this ⊢
        rw [this]; rfl
  | .dict kvs, h => by
    obtain ⟨new, hext, has, hsnap⟩ := allocKvs_spec kvs h
    rw [alloc.eq_3]
    cases hal : alloc.allocKvs h kvs with
    | mk h' as =>
      rw [hal] at hext has hsnap
      simp only at hext has hsnap ⊢
      have hlen : h'.length = h.length + new.length := by rw [hext.eq]; simp
      refine ⟨new ++ [.dict as], ⟨by rw [hext.eq]; simp, ?_⟩, by aomega, by simp; aomega, ?_⟩
      · intro c hc b hb
        rw [List.mem_append] at hc
        rcases hc with hc | hc
        · have := hext.ptr c hc b hb
          simp; aomega
        · simp at hc; subst hc
          have := has b hb
          simp; aomega
      · intro rest f hf
        obtain ⟨f, rfl⟩ : ∃ f', f = f' + 1 := ⟨f - 1, by simp at hf; aomega⟩
        rw [snapshot_succ, hlen, getElem?_mid]
        simp only
        have := hsnap ([.dict as] ++ rest) f (by simp at hf; aomega)
        simp only [List.append_assoc] at this ⊢
        rw [this]; rfl

theorem allocList_spec : ∀ (ts : List Tree) (h : Heap), ∃ new : List Cell,
    Ext h (alloc.allocList h ts).1 new ∧
    (∀ b ∈ (alloc.allocList h ts).2, h.length ≤ (b : Nat) ∧ (b : Nat) < h.length + new.length) ∧
    (∀ rest f, new.length ≤ f →
      (alloc.allocList h ts).2.mapM (snapshot (h ++ new ++ rest) f) = some ts)
  | [], h => by
    refine ⟨[], ⟨by simp [alloc.allocList], by simp⟩, by simp [alloc.allocList], ?_⟩
    intro rest f _
    simp [alloc.allocList]
  | t :: ts, h => by
    obtain ⟨new1, hext1, hr1, hr2, hsnap1⟩ := alloc_spec t h
    rw [alloc.allocList.eq_2]
    cases hal : alloc h t with
    | mk h1 a =>
      rw [hal] at hext1 hr1 hr2 hsnap1
      simp only at hext1 hr1 hr2 hsnap1 ⊢
      obtain ⟨new2, hext2, has2, hsnap2⟩ := allocList_spec ts h1
      cases hal2 : alloc.allocList h1 ts with
      | mk h2 as =>
        rw [hal2] at hext2 has2 hsnap2
        simp only at hext2 has2 hsnap2 ⊢
        have hlen : h1.length = h.length + new1.length := by rw [hext1.eq]; simp
        refine ⟨new1 ++ new2, ⟨by rw [hext2.eq, hext1.eq]; simp, ?_⟩, ?_, ?_⟩
        · intro c hc b hb
          rw [List.mem_append] at hc
          rcases hc with hc | hc
          · have := hext1.ptr c hc b hb
            simp; aomega
          · have := hext2.ptr c hc b hb
            simp; aomega
        · intro b hb
          simp at hb
          rcases hb with rfl | hb
          · simp; aomega
          · have := has2 b hb
            simp; aomega
        · intro rest f hf
          simp at hf
          rw [mapM_opt_cons_eq_some]
          refine ⟨t, ts, ?_, ?_, rfl⟩
          · have := hsnap1 (new2 ++ rest) f (by aomega)
            simp only [List.append_assoc] at this ⊢
            exact this
          · have := hsnap2 rest f (by aomega)
            rw [hext1.eq] at this
            simp only [List.append_assoc] at this ⊢
            exact this

theorem allocKvs_spec : ∀ (kvs : List (String × Tree)) (h : Heap), ∃ new : List Cell,
    Ext h (alloc.allocKvs h kvs).1 new ∧
    (∀ b ∈ (alloc.allocKvs h kvs).2.map (·.2), h.length ≤ (b : Nat) ∧ (b : Nat) < h.length + new.length) ∧
    (∀ rest f, new.length ≤ f →
      (alloc.allocKvs h kvs).2.mapM
        (fun kv => (snapshot (h ++ new ++ rest) f kv.2).map (fun t => (kv.1, t))) = some kvs)
  | [], h => by
    refine ⟨[], ⟨by simp [alloc.allocKvs], by simp⟩, by simp [alloc.allocKvs], ?_⟩
    intro rest f _
    simp [alloc.allocKvs]
  | (k, t) :: ts, h => by
    obtain ⟨new1, hext1, hr1, hr2, hsnap1⟩ := alloc_spec t h
    rw [alloc.allocKvs.eq_2]
    cases hal : alloc h t with
    | mk h1 a =>
      rw [hal] at hext1 hr1 hr2 hsnap1
      simp only at hext1 hr1 hr2 hsnap1 ⊢
      obtain ⟨new2, hext2, has2, hsnap2⟩ := allocKvs_spec ts h1
      cases hal2 : alloc.allocKvs h1 ts with
      | mk h2 as =>
        rw [hal2] at hext2 has2 hsnap2
        simp only at hext2 has2 hsnap2 ⊢
        have hlen : h1.length = h.length + new1.length := by rw [hext1.eq]; simp
        refine ⟨new1 ++ new2, ⟨by rw [hext2.eq, hext1.eq]; simp, ?_⟩, ?_, ?_⟩
        · intro c hc b hb
          rw [List.mem_append] at hc
          rcases hc with hc | hc
          · have := hext1.ptr c hc b hb
            simp; aomega
          · have := hext2.ptr c hc b hb
            simp; aomega
        · intro b hb
          simp only [List.map_cons, List.mem_cons] at hb
          rcases hb with rfl | hb
          · simp; aomega
          · have := has2 b hb
            simp; aomega
        · intro rest f hf
          simp at hf
          rw [mapM_opt_cons_eq_some]
          refine ⟨(k, t), ts, ?_, ?_, rfl⟩
          · have := hsnap1 (new2 ++ rest) f (by aomega)
            simp only [List.append_assoc] at this ⊢
            simp only [this]; rfl
          · have := hsnap2 rest f (by aomega)
            rw [hext1.eq] at this
            simp only [List.append_assoc] at this ⊢
            exact this
end

/-! ### Consequences for `alloc` -/

/-- `alloc` only appends: `(alloc h t).1 = h ++ new` with `new ≠ []` -/
theorem alloc_append (h : Heap) (t : Tree) :
    ∃ new : List Cell, (alloc h t).1 = h ++ new ∧ 0 < new.length := by
  obtain ⟨new, hext, h1, h2, _⟩ := alloc_spec t h
  exact ⟨new, hext.eq, by aomega⟩

theorem alloc_length_lt (h : Heap) (t : Tree) : h.length < (alloc h t).1.length := by
  obtain ⟨new, he, hn⟩ := alloc_append h t
  rw [he]; simp; omega

/-- existing cells are untouched by `alloc` -/
theorem alloc_prefix (h : Heap) (t : Tree) :
    (∀ a, a < h.length → (alloc h t).1[a]? = h[a]?) ∧ h.length ≤ (alloc h t).1.length := by
  obtain ⟨new, he, _⟩ := alloc_append h t
  refine ⟨fun a ha => ?_, Nat.le_of_lt (alloc_length_lt h t)⟩
  rw [he, List.getElem?_append_left ha]

/-- the root of the copy is a fresh, valid address -/
theorem alloc_root_fresh (h : Heap) (t : Tree) :
    h.length ≤ ((alloc h t).2 : Nat) ∧ ((alloc h t).2 : Nat) < (alloc h t).1.length := by
  obtain ⟨new, hext, h1, h2, _⟩ := alloc_spec t h
  rw [hext.eq]; simp; aomega

/-- all cells of the copy live at fresh addresses and only point to fresh, valid addresses -/
theorem alloc_new_cells_fresh (h : Heap) (t : Tree) (a : Nat) (c : Cell) (ha : h.length ≤ a)
    (hc : (alloc h t).1[a]? = some c) :
    ∀ b : Nat, b ∈ c.addrs → h.length ≤ b ∧ b < (alloc h t).1.length := by
  obtain ⟨new, hext, _, _, _⟩ := alloc_spec t h
  rw [hext.eq] at hc ⊢
  rw [List.getElem?_append_right ha] at hc
  intro b hb
  have := hext.ptr c (List.mem_of_getElem? hc) b hb
  simp; aomega

/-- round trip, framed: the fresh copy reads back as `t` in every heap that extends `(alloc h t).1`,
    with any fuel `≥` the number of new cells -/
theorem snapshot_alloc_ext (h : Heap) (t : Tree) (rest : Heap) (f : Nat)
    (hf : (alloc h t).1.length - h.length ≤ f) :
    snapshot ((alloc h t).1 ++ rest) f (alloc h t).2 = some t := by
  obtain ⟨new, hext, _, _, hs⟩ := alloc_spec t h
  rw [hext.eq] at hf ⊢
  exact hs rest f (by simp at hf; omega)

/-- round trip: a freshly allocated copy reads back as `t` -/
theorem snapshot_alloc (h : Heap) (t : Tree) :
    ∃ fuel₀, ∀ fuel, fuel₀ ≤ fuel → snapshot (alloc h t).1 fuel (alloc h t).2 = some t :=
  ⟨(alloc h t).1.length - h.length, fun f hf => by
    have := snapshot_alloc_ext h t [] f hf
    simpa using this⟩

theorem snapshot_alloc_fuelOf (h : Heap) (t : Tree) :
    snapshot (alloc h t).1 (fuelOf (alloc h t).1) (alloc h t).2 = some t := by
  have := snapshot_alloc_ext h t [] (fuelOf (alloc h t).1) (by unfold fuelOf; omega)
  simpa using this

/-! ### `write` -/

theorem write_length (h : Heap) (a : Addr) (c : Cell) : (write h a c).length = h.length := by
  unfold write; split <;> simp

theorem write_getElem?_ne (h : Heap) (a : Addr) (c : Cell) (b : Nat) (hb : b ≠ a) :
    (write h a c)[b]? = h[b]? := by
  unfold write; split
  · rw [List.getElem?_set]; simp [Ne.symm hb]
  · rfl

/-! ### `step` and `run` -/

/-- The two possible outcomes of an access: nothing happens (index out of range, or a dangling /
    cyclic stored address), or a fresh copy of some tree `t` is allocated, its root is recorded as
    handed out, and the output is `some t`. -/
theorem step_access_cases (s : St) (i : Nat) :
    (step s (.access i) = (s, none) ∧
      (s.store[i]? = none ∨
        ∃ a0, s.store[i]? = some (.addr a0) ∧ snapshot s.heap (fuelOf s.heap) a0 = none)) ∨
    ∃ t, step s (.access i) =
        ({ s with heap := (alloc s.heap t).1, handed := (alloc s.heap t).2 :: s.handed }, some t) ∧
      (s.store[i]? = some (.tree t) ∨
        ∃ a0, s.store[i]? = some (.addr a0) ∧ snapshot s.heap (fuelOf s.heap) a0 = some t) := by
  cases hi : s.store[i]? with
  | none => left; simp [step, hi]
  | some x =>
    cases x with
    | tree t =>
      right; refine ⟨t, ?_, Or.inl rfl⟩
      simp only [step, hi, snapshot_alloc_fuelOf]
    | addr a0 =>
      cases hs : snapshot s.heap (fuelOf s.heap) a0 with
      | none => left; simp [step, hi, hs]
      | some t =>
        right; refine ⟨t, ?_, Or.inr ⟨a0, rfl, hs⟩⟩
        simp only [step, hi, hs, snapshot_alloc_fuelOf]

theorem step_store (s : St) (op : Op) : (step s op).1.store = s.store := by
  cases op with
  | access i =>
    rcases step_access_cases s i with ⟨h, _⟩ | ⟨t, h, _⟩ <;> rw [h]
  | mutate a c => rfl

theorem step_heap_length (s : St) (op : Op) : s.heap.length ≤ (step s op).1.heap.length := by
  cases op with
  | access i =>
    rcases step_access_cases s i with ⟨h, _⟩ | ⟨t, h, _⟩ <;> rw [h]
    · exact Nat.le_refl _
    · exact (alloc_prefix s.heap t).2
  | mutate a c => simp [step, write_length]

theorem run_nil (s : St) : run s [] = (s, []) := rfl

theorem run_cons (s : St) (op : Op) (ops : List Op) :
    run s (op :: ops) = ((run (step s op).1 ops).1, (step s op).2 :: (run (step s op).1 ops).2) := rfl

theorem run_store (s : St) (ops : List Op) : (run s ops).1.store = s.store := by
  induction ops generalizing s with
  | nil => rfl
  | cons op ops ih => rw [run_cons]; simp only; rw [ih, step_store]

theorem run_heap_length (s : St) (ops : List Op) : s.heap.length ≤ (run s ops).1.heap.length := by
  induction ops generalizing s with
  | nil => exact Nat.le_refl _
  | cons op ops ih => rw [run_cons]; exact Nat.le_trans (step_heap_length s op) (ih _)

theorem run_length (s : St) (ops : List Op) : (run s ops).2.length = ops.length := by
  induction ops generalizing s with
  | nil => rfl
  | cons op ops ih => rw [run_cons]; simp [ih]

/-- the `k`-th output is the output of the `k`-th op in the state reached by the first `k` ops -/
theorem run_getElem? (s : St) (ops : List Op) (k : Nat) :
    (run s ops).2[k]? = ops[k]?.map (fun op => (step (run s (ops.take k)).1 op).2) := by
  induction ops generalizing s k with
  | nil => simp [run_nil]
  | cons op ops ih =>
    cases k with
    | zero => simp [run_cons, run_nil]
    | succ k => simp [run_cons, ih]


/-! ### Handed-out addresses -/

/-- every address handed out by an access is fresh and valid -/
theorem step_access_handed (s s' : St) (i : Nat) (t : Tree) (h : step s (.access i) = (s', some t)) :
    ∃ a : Nat, s'.handed = a :: s.handed ∧ s.heap.length ≤ a ∧ a < s'.heap.length := by
  rcases step_access_cases s i with ⟨h', _⟩ | ⟨t', h', _⟩
  · rw [h'] at h; simp at h
  · rw [h'] at h
    have h1 := (Prod.mk.inj h).1
    subst h1
    exact ⟨(alloc s.heap t').2, rfl, alloc_root_fresh s.heap t'⟩

theorem step_handed (s : St) (op : Op) :
    ∀ a : Nat, a ∈ (step s op).1.handed → a ∈ s.handed ∨ (s.heap.length ≤ a ∧ a < (step s op).1.heap.length) := by
  intro a ha
  cases op with
  | access i =>
    rcases step_access_cases s i with ⟨h, _⟩ | ⟨t, h, _⟩ <;> rw [h] at ha ⊢
    · exact Or.inl ha
    · simp only [List.mem_cons] at ha
      rcases ha with rfl | ha
      · exact Or.inr (alloc_root_fresh s.heap t)
      · exact Or.inl ha
  | mutate a' c => exact Or.inl ha

/-- handed-out roots are valid addresses and pairwise distinct -/
theorem run_handed_nodup (s : St) (ops : List Op) (hv : ∀ a : Nat, a ∈ s.handed → a < s.heap.length)
    (hn : s.handed.Nodup) :
    (∀ a : Nat, a ∈ (run s ops).1.handed → a < (run s ops).1.heap.length) ∧
      (run s ops).1.handed.Nodup := by
  induction ops generalizing s with
  | nil => exact ⟨hv, hn⟩
  | cons op ops ih =>
    rw [run_cons]
    refine ih _ (fun a ha => ?_) ?_
    · rcases step_handed s op a ha with h | h
      · exact Nat.lt_of_lt_of_le (hv a h) (step_heap_length s op)
      · exact h.2
    · cases op with
      | access i =>
        rcases step_access_cases s i with ⟨h, _⟩ | ⟨t, h, _⟩ <;> rw [h]
        · exact hn
        · refine List.nodup_cons.2 ⟨fun hmem => ?_, hn⟩
          have h1 := hv _ hmem
          have h2 := (alloc_root_fresh s.heap t).1
          aomega
      | mutate a' c => exact hn

/-! ### The copy-mode invariant -/

/-- the region below the watermark `w` is downward closed: its cells only point below `w` -/
def ClosedBelow (h : Heap) (w : Nat) : Prop :=
  ∀ a : Nat, a < w → ∀ c, h[a]? = some c → ∀ b : Nat, b ∈ c.addrs → b < w

/-- `h` agrees with `h0` below `w` and is at least as long -/
def Frozen (w : Nat) (h0 h : Heap) : Prop :=
  h0.length ≤ h.length ∧ ∀ a : Nat, a < w → h[a]? = h0[a]?

theorem Frozen.refl (w : Nat) (h : Heap) : Frozen w h h := ⟨Nat.le_refl _, fun _ _ => rfl⟩

theorem Frozen.alloc {w : Nat} {h0 h : Heap} (hf : Frozen w h0 h) (hw : w ≤ h0.length) (t : Tree) :
    Frozen w h0 (alloc h t).1 := by
  refine ⟨Nat.le_trans hf.1 (alloc_prefix h t).2, fun a ha => ?_⟩
  rw [(alloc_prefix h t).1 a (by have := hf.1; omega)]
  exact hf.2 a ha

theorem Frozen.write {w : Nat} {h0 h : Heap} (hf : Frozen w h0 h) (a : Addr) (c : Cell)
    (ha : w ≤ (a : Nat)) : Frozen w h0 (write h a c) := by
  refine ⟨by rw [write_length]; exact hf.1, fun b hb => ?_⟩
  rw [write_getElem?_ne h a c b (by aomega)]
  exact hf.2 b hb

theorem Frozen.step {w : Nat} {h0 : Heap} {s : St} (hf : Frozen w h0 s.heap) (hw : w ≤ h0.length)
    (op : Op) (hm : ∀ a c, op = .mutate a c → w ≤ (a : Nat)) : Frozen w h0 (step s op).1.heap := by
  cases op with
  | access i =>
    rcases step_access_cases s i with ⟨h, _⟩ | ⟨t, h, _⟩ <;> rw [h]
    · exact hf
    · exact hf.alloc hw t
  | mutate a c => exact hf.write a c (hm a c rfl)

theorem Frozen.run {w : Nat} {h0 : Heap} {s : St} (hf : Frozen w h0 s.heap) (hw : w ≤ h0.length)
    (ops : List Op) (hm : ∀ a c, Op.mutate a c ∈ ops → w ≤ (a : Nat)) :
    Frozen w h0 (run s ops).1.heap := by
  induction ops generalizing s with
  | nil => exact hf
  | cons op ops ih =>
    rw [run_cons]
    exact ih (hf.step hw op (fun a c h => hm a c (by simp [h]))) (fun a c h => hm a c (by simp [h]))

/-- snapshots of objects below the watermark are the same in every frozen extension -/
theorem Frozen.snapshot {w : Nat} {h0 h : Heap} (hf : Frozen w h0 h) (hcl : ClosedBelow h0 w)
    {a : Nat} (ha : a < w) {t : Tree} (hs : snapshot h0 (fuelOf h0) a = some t) :
    snapshot h (fuelOf h) a = some t := by
  rw [snapshot_frame (· < w) h0 h hcl hf.2 (fuelOf h) a ha]
  exact snapshot_mono hs (by unfold fuelOf; have := hf.1; omega)

/-! ### Isolation -/

/-- an access to a `.tree` entry always returns that tree, whatever happened before -/
theorem isolated_tree (s : St) (ops : List Op) (k i : Nat) (t : Tree)
    (hop : ops[k]? = some (.access i)) (hst : s.store[i]? = some (.tree t)) :
    (run s ops).2[k]? = some (some t) := by
  rw [run_getElem?, hop]
  simp only [Option.map_some, Option.some.injEq]
  have hstore := run_store s (ops.take k)
  rcases step_access_cases (run s (ops.take k)).1 i with ⟨_, h⟩ | ⟨t', h, h'⟩
  · rw [hstore, hst] at h; simp at h
  · rw [hstore, hst] at h'
    rcases h' with h' | ⟨a0, h', _⟩
    · have : t = t' := by simpa using h'
      rw [h, this]
    · simp at h'

/-- an access to an `.addr` entry below the watermark returns the snapshot taken at construction,
    provided nothing below the watermark is mutated -/
theorem isolated_addr (s : St) (w : Nat) (hw : w ≤ s.heap.length) (hcl : ClosedBelow s.heap w)
    (ops : List Op) (hm : ∀ a c, Op.mutate a c ∈ ops → w ≤ (a : Nat)) (k i : Nat) (a0 : Nat) (t : Tree)
    (hop : ops[k]? = some (.access i)) (hst : s.store[i]? = some (.addr a0)) (ha0 : a0 < w)
    (hsnap : snapshot s.heap (fuelOf s.heap) a0 = some t) :
    (run s ops).2[k]? = some (some t) := by
  rw [run_getElem?, hop]
  simp only [Option.map_some, Option.some.injEq]
  have hstore := run_store s (ops.take k)
  have hfr : Frozen w s.heap (run s (ops.take k)).1.heap :=
    (Frozen.refl w s.heap).run hw _ (fun a c h => hm a c (List.mem_of_mem_take h))
  have hs' := hfr.snapshot hcl ha0 hsnap
  rcases step_access_cases (run s (ops.take k)).1 i with ⟨_, h⟩ | ⟨t', h, h'⟩
  · rw [hstore, hst] at h
    rcases h with h | ⟨a1, h, h2⟩
    · simp at h
    · have : a0 = a1 := by simpa using h
      subst this; rw [hs'] at h2; simp at h2
  · rw [hstore, hst] at h'
    rcases h' with h' | ⟨a1, h', h2⟩
    · simp at h'
    · have : a0 = a1 := by simpa using h'
      subst this; rw [hs'] at h2
      have : t = t' := by simpa using h2
      rw [h, this]

/-- if every mutation targets an address that had been handed out before it (and the initial
    `handed` list is at or above `w`), then every mutation is at or above `w` -/
theorem mutates_ge_of_handed (w : Nat) (s : St) (ops : List Op) (hw : w ≤ s.heap.length)
    (hh : ∀ a : Nat, a ∈ s.handed → w ≤ a)
    (hm : ∀ k a c, ops[k]? = some (.mutate a c) → a ∈ (run s (ops.take k)).1.handed) :
    ∀ a c, Op.mutate a c ∈ ops → w ≤ (a : Nat) := by
  induction ops generalizing s with
  | nil => intro a c h; simp at h
  | cons op ops ih =>
    intro a c h
    rw [List.mem_cons] at h
    rcases h with h | h
    · have := hm 0 a c (by simp [h])
      simp only [List.take_zero, run_nil] at this
      exact hh a this
    · refine ih (step s op).1 (Nat.le_trans hw (step_heap_length s op)) (fun b hb => ?_)
        (fun k a c hk => ?_) a c h
      · rcases step_handed s op b hb with h' | h'
        · exact hh b h'
        · omega
      · have := hm (k + 1) a c (by simpa using hk)
        simpa [run_cons] using this

/-- handed-out roots are either the initial ones or fresh w.r.t. the initial heap -/
theorem run_handed_ge (s : St) (ops : List Op) :
    ∀ a : Nat, a ∈ (run s ops).1.handed → a ∈ s.handed ∨ s.heap.length ≤ a := by
  induction ops generalizing s with
  | nil => exact fun a ha => Or.inl ha
  | cons op ops ih =>
    intro a ha
    rw [run_cons] at ha
    rcases ih _ a ha with h | h
    · rcases step_handed s op a h with h' | h'
      · exact Or.inl h'
      · exact Or.inr h'.1
    · exact Or.inr (Nat.le_trans (step_heap_length s op) h)

/-! ### A decidable check for `ClosedBelow` (for concrete examples) -/

def closedBelowB (h : Heap) (w : Nat) : Bool :=
  (List.range w).all fun a =>
    match h[a]? with
    | none => true
    | some c => c.addrs.all (fun b => decide (b < w))

theorem closedBelow_of_check {h : Heap} {w : Nat} (hc : closedBelowB h w = true) :
    ClosedBelow h w := by
  intro a ha c hc' b hb
  have := List.all_eq_true.1 hc a (List.mem_range.2 ha)
  simp only [hc', List.all_eq_true, decide_eq_true_eq] at this
  exact this b hb

/-! ### Concrete data for the examples in `LazyDs.Props.C09` -/

namespace Ex

/-- the caller's example `{"x": [1, 2]}`: cells 0, 1 the ints, 2 the list, 3 the dict -/
def heap0 : Heap := [.int 1, .int 2, .list [0, 1], .dict [("x", 2)]]

def tEx : Tree := .dict [("x", .list [.int 1, .int 2])]

/-- `immutable_warranty='pickle'` / `'wu'`, or a cache entry: the dataset holds the bytes -/
def sPickle : St := ⟨heap0, [.tree tEx], []⟩

/-- `immutable_warranty='copy'`: the dataset holds the caller's object (root cell 3) -/
def sCopy : St := ⟨heap0, [.addr 3], []⟩

/-- `ex = ds[0]; ex['x'].pop(); del ex['x']; ds[0]`: the first access allocates cells 4..7
    (list cell 6, root 7); the user then mutates cells of the copy only -/
def histHanded : List Op := [.access 0, .mutate 7 (.dict []), .mutate 6 (.list [4]), .access 0]

/-- the same, but the second mutation is `examples[0]['x'].pop()` on the ORIGINAL container
    (cell 2, below the watermark 4) -/
def histOriginal : List Op := [.access 0, .mutate 7 (.dict []), .mutate 2 (.list [0]), .access 0]

/-- only ROOTS of handed-out examples are mutated (`ex1.clear(); ex2 = ds[0]; ex2['y'] = ex1`);
    the roots handed out are 7, 11, 15 -/
def histRoots : List Op :=
  [.access 0, .mutate 7 (.dict []), .access 0, .mutate 11 (.dict [("y", 7)]), .access 0]

end Ex

end LazyDs.Heap

/-
  Facts about the index-resolution model (`LazyDs.Model.PySlice`) and `pyIndex`.

  * in-range facts for every form of selection (`pySliceIdx`, `resolveIdx`, `maskPositions`,
    `lastIndexOf`, `resolveKeys`, `resolveSlice`);
  * an independent specification of Python slicing: the positions selected by
    `slice(a, b, st)` on a sequence of length `n` are exactly the members of the arithmetic
    progression between the clamped bounds (`pySliceIdx_spec_pos/_none/_neg`), in increasing
    resp. decreasing order;
  * `pyIndex` facts;
  * list-slice algebra (`sliceList`, property C16).
  CORE LEAN ONLY.
-/
import LazyDs.Model.PySlice

namespace LazyDs

/-! ### generic list helper -/

/-- two strictly increasing lists of naturals with the same members are equal -/
theorem eq_of_sorted_of_mem_iff : ∀ {l₁ l₂ : List Nat},
    l₁.Pairwise (· < ·) → l₂.Pairwise (· < ·) → (∀ x, x ∈ l₁ ↔ x ∈ l₂) → l₁ = l₂
  | [], [], _, _, _ => rfl
  | [], b :: l₂, _, _, h => by have := (h b).2 (by simp); simp at this
  | a :: l₁, [], _, _, h => by have := (h a).1 (by simp); simp at this
  | a :: l₁, b :: l₂, h₁, h₂, h => by
    rw [List.pairwise_cons] at h₁ h₂
    have hab : a = b := by
      have h1 := (h a).1 (by simp)
      have h2 := (h b).2 (by simp)
      rw [List.mem_cons] at h1 h2
      rcases h1 with h1 | h1
      · exact h1
      · rcases h2 with h2 | h2
        · exact h2.symm
        · have := h₂.1 a h1; have := h₁.1 b h2; omega
    subst hab
    have : l₁ = l₂ := by
      apply eq_of_sorted_of_mem_iff h₁.2 h₂.2
      intro x
      constructor
      · intro hx
        have := (h x).1 (List.mem_cons_of_mem _ hx)
        rw [List.mem_cons] at this
        rcases this with rfl | h'
        · have := h₁.1 x hx; omega
        · exact h'
      · intro hx
        have := (h x).2 (List.mem_cons_of_mem _ hx)
        rw [List.mem_cons] at this
        rcases this with rfl | h'
        · have := h₂.1 x hx; omega
        · exact h'
    rw [this]

theorem nodup_of_sorted_lt {l : List Nat} (h : l.Pairwise (· < ·)) : l.Nodup :=
  h.imp (fun hab => Nat.ne_of_lt hab)

theorem nodup_of_sorted_gt {l : List Nat} (h : l.Pairwise (· > ·)) : l.Nodup :=
  h.imp (fun hab => (Nat.ne_of_lt hab).symm)

/-! ### `progression` -/

theorem progression_eq_map (a st : Int) (k : Nat) :
    progression a st k = (List.range k).map (fun t : Nat => (a + t * st).toNat) := by
  induction k generalizing a with
  | zero => rfl
  | succ k ih =>
    rw [progression, ih, List.range_succ_eq_map, List.map_cons, List.map_map]
    congr 1
    · simp
    · apply List.map_congr_left
      intro t _
      simp only [Function.comp, Nat.succ_eq_add_one]
      congr 1
      rw [Int.natCast_add, Int.add_mul]
      omega

theorem progression_length (a st : Int) (k : Nat) : (progression a st k).length = k := by
  simp [progression_eq_map]

theorem progression_getElem? {a st : Int} {k t : Nat} (h : t < k) :
    (progression a st k)[t]? = some (a + t * st).toNat := by
  simp [progression_eq_map, h]

theorem mem_progression {a st : Int} {k j : Nat} :
    j ∈ progression a st k ↔ ∃ t : Nat, t < k ∧ j = (a + t * st).toNat := by
  simp only [progression_eq_map, List.mem_map, List.mem_range]
  constructor
  · rintro ⟨t, ht, rfl⟩; exact ⟨t, ht, rfl⟩
  · rintro ⟨t, ht, rfl⟩; exact ⟨t, ht, rfl⟩

/-- increasing progression from a non-negative start is strictly increasing -/
theorem progression_sorted_pos {a st : Int} (k : Nat) (ha : 0 ≤ a) (hst : 0 < st) :
    (progression a st k).Pairwise (· < ·) := by
  rw [progression_eq_map, List.pairwise_map]
  apply List.pairwise_lt_range.imp
  intro s t hlt
  have h1 : (s : Int) * st < t * st :=
    Int.mul_lt_mul_of_pos_right (by omega) hst
  have h2 : 0 ≤ (s : Int) * st := Int.mul_nonneg (by omega) (by omega)
  omega

/-- decreasing progression that stays non-negative is strictly decreasing -/
theorem progression_sorted_neg {a st : Int} (k : Nat) (hst : st < 0)
    (hk : ∀ t : Nat, t < k → 0 ≤ a + t * st) :
    (progression a st k).Pairwise (· > ·) := by
  rw [progression_eq_map, List.pairwise_map]
  apply List.pairwise_lt_range.imp_of_mem
  intro s t hs ht hlt
  rw [List.mem_range] at hs ht
  have h1 : (s : Int) * (-st) < t * (-st) :=
    Int.mul_lt_mul_of_pos_right (by omega) (by omega)
  have h3 := hk s hs
  have h4 := hk t ht
  rw [Int.mul_neg, Int.mul_neg] at h1
  show (a + t * st).toNat < (a + s * st).toNat
  omega

/-! ### `clampBound` -/

@[simp] theorem clampBound_none (n dflt lo hi : Int) : clampBound n none dflt lo hi = dflt := rfl

/-- `clampBound n (some v)`: wrap `v` once, then clamp into `[lo, hi]` -/
theorem clampBound_spec (n v dflt lo hi : Int) (h : lo ≤ hi) :
    clampBound n (some v) dflt lo hi = max lo (min hi (if v < 0 then v + n else v)) := by
  simp only [clampBound]
  split <;> split <;> omega

/-- the same without the side condition, as a three-way case distinction -/
theorem clampBound_some (n v dflt lo hi : Int) :
    clampBound n (some v) dflt lo hi =
      (let w := if v < 0 then v + n else v
       if w < lo then lo else if hi < w then hi else w) := rfl

theorem clampBound_bounds {n dflt lo hi : Int} (b : Option Int) (h : lo ≤ hi)
    (hd : lo ≤ dflt ∧ dflt ≤ hi) :
    lo ≤ clampBound n b dflt lo hi ∧ clampBound n b dflt lo hi ≤ hi := by
  cases b with
  | none => exact hd
  | some v =>
    simp only [clampBound]
    split <;> split <;> omega

/-- an already in-range non-negative bound is kept -/
theorem clampBound_id {n v dflt lo hi : Int} (h0 : 0 ≤ v) (h1 : lo ≤ v) (h2 : v ≤ hi) :
    clampBound n (some v) dflt lo hi = v := by
  simp only [clampBound]
  split <;> split <;> omega

/-- number of elements of `range(lo, hi, st)` for `st > 0` -/
theorem mem_progression_pos {lo hi st : Int} {j : Nat} (hlo : 0 ≤ lo) (hst : 0 < st) :
    j ∈ progression lo st (if lo < hi then ((hi - lo - 1) / st + 1).toNat else 0) ↔
      lo ≤ (j : Int) ∧ (j : Int) < hi ∧ ((j : Int) - lo) % st = 0 := by
  rw [mem_progression]
  constructor
  · rintro ⟨t, ht, rfl⟩
    split at ht
    · rename_i hlt
      have hq : 0 ≤ (hi - lo - 1) / st := Int.ediv_nonneg (by omega) (by omega)
      have htq : (t : Int) ≤ (hi - lo - 1) / st := by omega
      have h1 : (t : Int) * st ≤ (hi - lo - 1) / st * st :=
        Int.mul_le_mul_of_nonneg_right htq (by omega)
      have h2 := Int.ediv_mul_le (hi - lo - 1) (b := st) (by omega)
      have h3 : 0 ≤ (t : Int) * st := Int.mul_nonneg (by omega) (by omega)
      have h4 : ((lo + t * st).toNat : Int) = lo + t * st := Int.toNat_of_nonneg (by omega)
      rw [h4]
      refine ⟨by omega, by omega, ?_⟩
      have : lo + t * st - lo = t * st := by omega
      rw [this, Int.mul_emod_left]
    · omega
  · rintro ⟨h1, h2, h3⟩
    have hq : 0 ≤ ((j : Int) - lo) / st := Int.ediv_nonneg (by omega) (by omega)
    have hmul := Int.ediv_mul_cancel_of_emod_eq_zero h3
    have hle : ((j : Int) - lo) / st ≤ (hi - lo - 1) / st :=
      Int.ediv_le_ediv hst (by omega)
    refine ⟨(((j : Int) - lo) / st).toNat, ?_, ?_⟩
    · rw [if_pos (by omega)]; omega
    · rw [Int.toNat_of_nonneg hq, hmul]
      have : lo + ((j : Int) - lo) = j := by omega
      rw [this]; rfl

/-- every term of the decreasing progression lies in `(hi, lo]` -/
theorem progression_neg_term {lo hi st : Int} {t : Nat} (hst : st < 0)
    (ht : t < (if hi < lo then ((lo - hi - 1) / (-st) + 1).toNat else 0)) :
    hi < lo + t * st ∧ lo + t * st ≤ lo := by
  split at ht
  · rename_i hlt
    have hq : 0 ≤ (lo - hi - 1) / (-st) := Int.ediv_nonneg (by omega) (by omega)
    have htq : (t : Int) ≤ (lo - hi - 1) / (-st) := by omega
    have h1 : (t : Int) * (-st) ≤ (lo - hi - 1) / (-st) * (-st) :=
      Int.mul_le_mul_of_nonneg_right htq (by omega)
    have h2 := Int.ediv_mul_le (lo - hi - 1) (b := -st) (by omega)
    have h3 : 0 ≤ (t : Int) * (-st) := Int.mul_nonneg (by omega) (by omega)
    rw [Int.mul_neg] at h1 h3
    omega
  · omega

theorem mem_progression_neg {lo hi st : Int} {j : Nat} (hhi : -1 ≤ hi) (hst : st < 0) :
    j ∈ progression lo st (if hi < lo then ((lo - hi - 1) / (-st) + 1).toNat else 0) ↔
      hi < (j : Int) ∧ (j : Int) ≤ lo ∧ (lo - (j : Int)) % (-st) = 0 := by
  rw [mem_progression]
  constructor
  · rintro ⟨t, ht, rfl⟩
    have hb := progression_neg_term hst ht
    have h4 : ((lo + t * st).toNat : Int) = lo + t * st := Int.toNat_of_nonneg (by omega)
    rw [h4]
    refine ⟨by omega, by omega, ?_⟩
    have : lo - (lo + t * st) = t * (-st) := by rw [Int.mul_neg]; omega
    rw [this, Int.mul_emod_left]
  · rintro ⟨h1, h2, h3⟩
    have hq : 0 ≤ (lo - (j : Int)) / (-st) := Int.ediv_nonneg (by omega) (by omega)
    have hmul := Int.ediv_mul_cancel_of_emod_eq_zero h3
    have hle : (lo - (j : Int)) / (-st) ≤ (lo - hi - 1) / (-st) :=
      Int.ediv_le_ediv (by omega) (by omega)
    refine ⟨((lo - (j : Int)) / (-st)).toNat, ?_, ?_⟩
    · rw [if_pos (by omega)]; omega
    · rw [Int.toNat_of_nonneg hq]
      rw [Int.mul_neg] at hmul
      have : lo + (lo - (j : Int)) / (-st) * st = j := by omega
      rw [this]; rfl

theorem pySliceIdx_pos_eq (n : Nat) (a b : Option Int) {st : Int} (hst : 0 < st) :
    pySliceIdx n a b (some st) =
      .ok (progression (clampBound n a 0 0 n) st
        (if clampBound n a 0 0 n < clampBound n b n 0 n then
          ((clampBound n b n 0 n - clampBound n a 0 0 n - 1) / st + 1).toNat else 0)) := by
  have h0 : ¬ st = 0 := by omega
  simp [pySliceIdx, h0, hst]

theorem pySliceIdx_neg_eq (n : Nat) (a b : Option Int) {st : Int} (hst : st < 0) :
    pySliceIdx n a b (some st) =
      .ok (progression (clampBound n a (n - 1) (-1) (n - 1)) st
        (if clampBound n b (-1) (-1) (n - 1) < clampBound n a (n - 1) (-1) (n - 1) then
          ((clampBound n a (n - 1) (-1) (n - 1) - clampBound n b (-1) (-1) (n - 1) - 1) / (-st)
            + 1).toNat else 0)) := by
  have h0 : ¬ st = 0 := by omega
  have h1 : ¬ 0 < st := by omega
  simp [pySliceIdx, h0, h1]

theorem pySliceIdx_none_eq (n : Nat) (a b : Option Int) :
    pySliceIdx n a b none = pySliceIdx n a b (some 1) := rfl

/-! ### `pySliceIdx`: errors -/

theorem pySliceIdx_step_zero (n : Nat) (a b : Option Int) :
    pySliceIdx n a b (some 0) = .error .valueError := rfl

theorem pySliceIdx_ok_of_step_ne_zero {n : Nat} {a b c : Option Int} (hc : c ≠ some 0) :
    ∃ sel, pySliceIdx n a b c = .ok sel := by
  cases c with
  | none => rw [pySliceIdx_none_eq, pySliceIdx_pos_eq n a b (by omega : (0 : Int) < 1)]; exact ⟨_, rfl⟩
  | some st =>
    have : st ≠ 0 := fun h => hc (by rw [h])
    rcases Int.lt_or_gt_of_ne this with h | h
    · rw [pySliceIdx_neg_eq n a b h]; exact ⟨_, rfl⟩
    · rw [pySliceIdx_pos_eq n a b h]; exact ⟨_, rfl⟩

theorem pySliceIdx_error {n : Nat} {a b c : Option Int} {e : Err}
    (h : pySliceIdx n a b c = .error e) : c = some 0 ∧ e = .valueError := by
  by_cases hc : c = some 0
  · subst hc; rw [pySliceIdx_step_zero] at h; cases h; exact ⟨rfl, rfl⟩
  · obtain ⟨sel, hs⟩ := pySliceIdx_ok_of_step_ne_zero (n := n) (a := a) (b := b) hc
    rw [hs] at h; cases h

/-! ### `pySliceIdx`: specification -/

private theorem lo_pos_bounds (n : Nat) (a : Option Int) :
    0 ≤ clampBound n a 0 0 n ∧ clampBound n a 0 0 n ≤ n :=
  clampBound_bounds a (by omega) (by omega)

private theorem hi_pos_bounds (n : Nat) (b : Option Int) :
    0 ≤ clampBound n b n 0 n ∧ clampBound n b n 0 n ≤ n :=
  clampBound_bounds b (by omega) (by omega)

private theorem lo_neg_bounds (n : Nat) (a : Option Int) :
    -1 ≤ clampBound n a (n - 1) (-1) (n - 1) ∧ clampBound n a (n - 1) (-1) (n - 1) ≤ n - 1 :=
  clampBound_bounds a (by omega) (by omega)

private theorem hi_neg_bounds (n : Nat) (b : Option Int) :
    -1 ≤ clampBound n b (-1) (-1) (n - 1) ∧ clampBound n b (-1) (-1) (n - 1) ≤ n - 1 :=
  clampBound_bounds b (by omega) (by omega)

/-- membership for a positive step -/
theorem pySliceIdx_mem_pos {n : Nat} {a b : Option Int} {st : Int} {sel : List Nat} (hst : 0 < st)
    (h : pySliceIdx n a b (some st) = .ok sel) (j : Nat) :
    j ∈ sel ↔ clampBound n a 0 0 n ≤ (j : Int) ∧ (j : Int) < clampBound n b n 0 n ∧
      ((j : Int) - clampBound n a 0 0 n) % st = 0 := by
  rw [pySliceIdx_pos_eq n a b hst] at h
  cases h
  exact mem_progression_pos (lo_pos_bounds n a).1 hst

/-- membership for a negative step -/
theorem pySliceIdx_mem_neg {n : Nat} {a b : Option Int} {st : Int} {sel : List Nat} (hst : st < 0)
    (h : pySliceIdx n a b (some st) = .ok sel) (j : Nat) :
    j ∈ sel ↔ clampBound n b (-1) (-1) (n - 1) < (j : Int) ∧
      (j : Int) ≤ clampBound n a (n - 1) (-1) (n - 1) ∧
      (clampBound n a (n - 1) (-1) (n - 1) - (j : Int)) % (-st) = 0 := by
  rw [pySliceIdx_neg_eq n a b hst] at h
  cases h
  exact mem_progression_neg (hi_neg_bounds n b).1 hst

theorem pySliceIdx_sorted_pos {n : Nat} {a b : Option Int} {st : Int} {sel : List Nat}
    (hst : 0 < st) (h : pySliceIdx n a b (some st) = .ok sel) : sel.Pairwise (· < ·) := by
  rw [pySliceIdx_pos_eq n a b hst] at h
  cases h
  exact progression_sorted_pos _ (lo_pos_bounds n a).1 hst

theorem pySliceIdx_sorted_none {n : Nat} {a b : Option Int} {sel : List Nat}
    (h : pySliceIdx n a b none = .ok sel) : sel.Pairwise (· < ·) :=
  pySliceIdx_sorted_pos (by omega : (0 : Int) < 1) h

theorem pySliceIdx_sorted_neg {n : Nat} {a b : Option Int} {st : Int} {sel : List Nat}
    (hst : st < 0) (h : pySliceIdx n a b (some st) = .ok sel) : sel.Pairwise (· > ·) := by
  rw [pySliceIdx_neg_eq n a b hst] at h
  cases h
  apply progression_sorted_neg _ hst
  intro t ht
  have := progression_neg_term hst ht
  have := (hi_neg_bounds n b).1
  omega

theorem pySliceIdx_nodup {n : Nat} {a b c : Option Int} {sel : List Nat}
    (h : pySliceIdx n a b c = .ok sel) : sel.Nodup := by
  cases c with
  | none => exact nodup_of_sorted_lt (pySliceIdx_sorted_none h)
  | some st =>
    rcases Int.lt_trichotomy st 0 with hs | hs | hs
    · exact nodup_of_sorted_gt (pySliceIdx_sorted_neg hs h)
    · subst hs; rw [pySliceIdx_step_zero] at h; cases h
    · exact nodup_of_sorted_lt (pySliceIdx_sorted_pos hs h)

/-- every selected position is a valid position -/
theorem pySliceIdx_lt {n : Nat} {a b c : Option Int} {sel : List Nat}
    (h : pySliceIdx n a b c = .ok sel) : ∀ j ∈ sel, j < n := by
  intro j hj
  cases c with
  | none =>
    have := (pySliceIdx_mem_pos (by omega : (0 : Int) < 1) h j).1 hj
    have := (hi_pos_bounds n b).2
    omega
  | some st =>
    rcases Int.lt_trichotomy st 0 with hs | hs | hs
    · have := (pySliceIdx_mem_neg hs h j).1 hj
      have := (lo_neg_bounds n a).2
      omega
    · subst hs; rw [pySliceIdx_step_zero] at h; cases h
    · have := (pySliceIdx_mem_pos hs h j).1 hj
      have := (hi_pos_bounds n b).2
      omega

/-- **Specification, positive step.**  The selection is the increasing list of the positions
    `j` of `range n` that lie in `[lo, hi)` and are congruent to `lo` modulo the step. -/
theorem pySliceIdx_spec_pos (n : Nat) (a b : Option Int) {st : Int} (hst : 0 < st) :
    pySliceIdx n a b (some st) =
      .ok ((List.range n).filter (fun j : Nat =>
        decide (clampBound n a 0 0 n ≤ (j : Int) ∧ (j : Int) < clampBound n b n 0 n ∧
          ((j : Int) - clampBound n a 0 0 n) % st = 0))) := by
  obtain ⟨sel, hsel⟩ := pySliceIdx_ok_of_step_ne_zero (n := n) (a := a) (b := b)
    (c := some st) (by intro h; cases h; omega)
  rw [hsel]
  congr 1
  apply eq_of_sorted_of_mem_iff (pySliceIdx_sorted_pos hst hsel)
    (List.pairwise_lt_range.filter _)
  intro j
  rw [List.mem_filter, List.mem_range, decide_eq_true_eq, pySliceIdx_mem_pos hst hsel]
  constructor
  · intro hj; exact ⟨pySliceIdx_lt hsel j ((pySliceIdx_mem_pos hst hsel j).2 hj), hj⟩
  · exact fun hj => hj.2

/-- **Specification, default step** (`step = None` means 1). -/
theorem pySliceIdx_spec_none (n : Nat) (a b : Option Int) :
    pySliceIdx n a b none =
      .ok ((List.range n).filter (fun j : Nat =>
        decide (clampBound n a 0 0 n ≤ (j : Int) ∧ (j : Int) < clampBound n b n 0 n))) := by
  rw [pySliceIdx_none_eq, pySliceIdx_spec_pos n a b (by omega : (0 : Int) < 1)]
  congr 1
  apply List.filter_congr
  intro j _
  simp [Int.emod_one]

/-- **Specification, negative step.**  The selection is the decreasing list of the positions
    `j` of `range n` that lie in `(hi, lo]` and are congruent to `lo` modulo `-step`. -/
theorem pySliceIdx_spec_neg (n : Nat) (a b : Option Int) {st : Int} (hst : st < 0) :
    pySliceIdx n a b (some st) =
      .ok ((List.range n).filter (fun j : Nat =>
        decide (clampBound n b (-1) (-1) (n - 1) < (j : Int) ∧
          (j : Int) ≤ clampBound n a (n - 1) (-1) (n - 1) ∧
          (clampBound n a (n - 1) (-1) (n - 1) - (j : Int)) % (-st) = 0))).reverse := by
  obtain ⟨sel, hsel⟩ := pySliceIdx_ok_of_step_ne_zero (n := n) (a := a) (b := b)
    (c := some st) (by intro h; cases h; omega)
  rw [hsel]
  congr 1
  rw [← List.reverse_reverse sel]
  congr 1
  apply eq_of_sorted_of_mem_iff
    (List.pairwise_reverse.2 (pySliceIdx_sorted_neg hst hsel))
    (List.pairwise_lt_range.filter _)
  intro j
  rw [List.mem_reverse, List.mem_filter, List.mem_range, decide_eq_true_eq,
    pySliceIdx_mem_neg hst hsel]
  constructor
  · intro hj; exact ⟨pySliceIdx_lt hsel j ((pySliceIdx_mem_neg hst hsel j).2 hj), hj⟩
  · exact fun hj => hj.2

/-- `l[:]` selects everything, in order -/
theorem pySliceIdx_full (n : Nat) : pySliceIdx n none none none = .ok (List.range n) := by
  rw [pySliceIdx_spec_none]
  congr 1
  rw [List.filter_eq_self]
  intro j hj
  rw [List.mem_range] at hj
  simp only [clampBound_none]
  apply decide_eq_true
  omega

/-- `l[::-1]` selects everything, in reverse order -/
theorem pySliceIdx_reverse (n : Nat) :
    pySliceIdx n none none (some (-1)) = .ok (List.range n).reverse := by
  rw [pySliceIdx_spec_neg n none none (by omega : (-1 : Int) < 0)]
  congr 2
  rw [List.filter_eq_self]
  intro j hj
  rw [List.mem_range] at hj
  simp only [clampBound_none, Int.neg_neg, Int.emod_one]
  apply decide_eq_true
  exact ⟨by omega, by omega, trivial⟩

/-! ### `resolveIdx` (numpy integer fancy indexing) -/

/-- the position denoted by the (possibly negative) index `i` -/
def wrapIdx (n : Nat) (i : Int) : Nat := (if i < 0 then i + (n : Int) else i).toNat

theorem resolveIdx_cons (n : Nat) (i : Int) (rest : List Int) :
    resolveIdx n (i :: rest) =
      if -(n : Int) ≤ i ∧ i < n then
        match resolveIdx n rest with
        | .ok r => .ok (wrapIdx n i :: r)
        | .error e => .error e
      else .error .indexError := by
  simp only [resolveIdx, wrapIdx]
  by_cases h : -(n : Int) ≤ i ∧ i < n
  · rw [if_pos h, if_neg (by
      simp only [Bool.or_eq_true, decide_eq_true_eq, not_or]
      split <;> omega)]
    cases resolveIdx n rest <;> rfl
  · rw [if_neg h, if_pos (by
      simp only [Bool.or_eq_true, decide_eq_true_eq]
      split <;> omega)]

theorem resolveIdx_spec {n : Nat} {is : List Int} {sel : List Nat} :
    resolveIdx n is = .ok sel ↔
      (∀ i ∈ is, -(n : Int) ≤ i ∧ i < n) ∧
        sel = is.map (fun i => (if i < 0 then i + (n : Int) else i).toNat) := by
  induction is generalizing sel with
  | nil => simp [resolveIdx, eq_comm]
  | cons i rest ih =>
    rw [resolveIdx_cons]
    by_cases h : -(n : Int) ≤ i ∧ i < n
    · rw [if_pos h]
      cases hr : resolveIdx n rest with
      | error e =>
        simp only [reduceCtorEq, false_iff]
        rintro ⟨hall, _⟩
        have := (ih (sel := rest.map _)).2 ⟨fun i hi => hall i (List.mem_cons_of_mem _ hi), rfl⟩
        rw [hr] at this; cases this
      | ok r =>
        have hr' := ih.1 hr
        simp only [Except.ok.injEq, List.map_cons, List.mem_cons, forall_eq_or_imp]
        constructor
        · rintro rfl
          exact ⟨⟨h, hr'.1⟩, by rw [hr'.2]; rfl⟩
        · rintro ⟨_, rfl⟩
          rw [hr'.2]; rfl
    · rw [if_neg h]
      simp only [reduceCtorEq, false_iff]
      rintro ⟨hall, _⟩
      exact h (hall i (by simp))

theorem resolveIdx_length {n : Nat} {is : List Int} {sel : List Nat}
    (h : resolveIdx n is = .ok sel) : sel.length = is.length := by
  rw [(resolveIdx_spec.1 h).2, List.length_map]

theorem resolveIdx_lt {n : Nat} {is : List Int} {sel : List Nat}
    (h : resolveIdx n is = .ok sel) : ∀ j ∈ sel, j < n := by
  obtain ⟨hall, rfl⟩ := resolveIdx_spec.1 h
  intro j hj
  rw [List.mem_map] at hj
  obtain ⟨i, hi, rfl⟩ := hj
  have := hall i hi
  split <;> omega

/-- the only possible failure is `IndexError` -/
theorem resolveIdx_error_kind {n : Nat} {is : List Int} {e : Err}
    (h : resolveIdx n is = .error e) : e = .indexError := by
  induction is with
  | nil => simp [resolveIdx] at h
  | cons i rest ih =>
    rw [resolveIdx_cons] at h
    split at h
    · cases hr : resolveIdx n rest with
      | error e' => rw [hr] at h; cases h; exact ih hr
      | ok r => rw [hr] at h; cases h
    · cases h; rfl

theorem resolveIdx_error {n : Nat} {is : List Int}
    (h : ∃ i ∈ is, i < -(n : Int) ∨ (n : Int) ≤ i) : resolveIdx n is = .error .indexError := by
  cases hr : resolveIdx n is with
  | error e => rw [resolveIdx_error_kind hr]
  | ok sel =>
    obtain ⟨i, hi, hbad⟩ := h
    have := (resolveIdx_spec.1 hr).1 i hi
    omega

/-- `resolveIdx` fails exactly when some index is out of range -/
theorem resolveIdx_error_iff {n : Nat} {is : List Int} :
    resolveIdx n is = .error .indexError ↔ ∃ i ∈ is, i < -(n : Int) ∨ (n : Int) ≤ i := by
  constructor
  · intro h
    apply Classical.byContradiction
    intro hne
    have hall : ∀ i ∈ is, -(n : Int) ≤ i ∧ i < n := by
      intro i hi
      apply Classical.byContradiction
      intro hb
      exact hne ⟨i, hi, by omega⟩
    have := (resolveIdx_spec (sel := is.map _)).2 ⟨hall, rfl⟩
    rw [h] at this; cases this
  · exact resolveIdx_error

theorem resolveIdx_ofNat {n : Nat} {l : List Nat} (h : ∀ j ∈ l, j < n) :
    resolveIdx n (l.map Int.ofNat) = .ok l := by
  rw [resolveIdx_spec]
  constructor
  · intro i hi
    rw [List.mem_map] at hi
    obtain ⟨j, hj, rfl⟩ := hi
    have := h j hj
    simp only [Int.ofNat_eq_natCast]
    omega
  · rw [List.map_map]
    conv => lhs; rw [← List.map_id l]
    apply List.map_congr_left
    intro j _
    simp only [Function.comp, Int.ofNat_eq_natCast, id]
    split <;> omega

/-! ### `maskPositions` (boolean mask indexing) -/

theorem mem_maskPositions {bs : List Bool} {s j : Nat} :
    j ∈ maskPositions bs s ↔ s ≤ j ∧ bs[j - s]? = some true := by
  induction bs generalizing s with
  | nil => simp [maskPositions]
  | cons b bs ih =>
    cases b
    · simp only [maskPositions, ih]
      constructor
      · rintro ⟨h1, h2⟩
        refine ⟨by omega, ?_⟩
        have : j - s = (j - (s + 1)) + 1 := by omega
        rw [this, List.getElem?_cons_succ]; exact h2
      · rintro ⟨h1, h2⟩
        by_cases hjs : j = s
        · subst hjs; simp at h2
        · refine ⟨by omega, ?_⟩
          have : j - s = (j - (s + 1)) + 1 := by omega
          rw [this, List.getElem?_cons_succ] at h2; exact h2
    · simp only [maskPositions, List.mem_cons, ih]
      constructor
      · rintro (rfl | ⟨h1, h2⟩)
        · simp
        · refine ⟨by omega, ?_⟩
          have : j - s = (j - (s + 1)) + 1 := by omega
          rw [this, List.getElem?_cons_succ]; exact h2
      · rintro ⟨h1, h2⟩
        by_cases hjs : j = s
        · exact Or.inl hjs
        · right
          refine ⟨by omega, ?_⟩
          have : j - s = (j - (s + 1)) + 1 := by omega
          rw [this, List.getElem?_cons_succ] at h2; exact h2

theorem maskPositions_lt {bs : List Bool} {s : Nat} :
    ∀ j ∈ maskPositions bs s, s ≤ j ∧ j < s + bs.length := by
  intro j hj
  obtain ⟨h1, h2⟩ := mem_maskPositions.1 hj
  have := (List.getElem?_eq_some_iff.1 h2).1
  omega

theorem maskPositions_sorted (bs : List Bool) (s : Nat) :
    (maskPositions bs s).Pairwise (· < ·) := by
  induction bs generalizing s with
  | nil => simp [maskPositions]
  | cons b bs ih =>
    cases b
    · exact ih (s + 1)
    · simp only [maskPositions, List.pairwise_cons]
      refine ⟨?_, ih (s + 1)⟩
      intro j hj
      have := (maskPositions_lt j hj).1
      omega

theorem maskPositions_nodup (bs : List Bool) (s : Nat) : (maskPositions bs s).Nodup :=
  nodup_of_sorted_lt (maskPositions_sorted bs s)

/-- the selected positions are exactly the positions holding `True`, in increasing order -/
theorem maskPositions_spec (bs : List Bool) :
    maskPositions bs 0 = (List.range bs.length).filter (fun j => bs[j]?.getD false) := by
  apply eq_of_sorted_of_mem_iff (maskPositions_sorted bs 0) (List.pairwise_lt_range.filter _)
  intro j
  rw [mem_maskPositions, List.mem_filter, List.mem_range]
  simp only [Nat.zero_le, true_and, Nat.sub_zero]
  constructor
  · intro h
    exact ⟨(List.getElem?_eq_some_iff.1 h).1, by rw [h]; rfl⟩
  · rintro ⟨h1, h2⟩
    rw [List.getElem?_eq_getElem h1] at h2 ⊢
    simpa using h2

theorem maskPositions_length_le (bs : List Bool) (s : Nat) :
    (maskPositions bs s).length ≤ bs.length := by
  induction bs generalizing s with
  | nil => simp [maskPositions]
  | cons b bs ih =>
    cases b
    · have := ih (s + 1); simp only [maskPositions, List.length_cons]; omega
    · have := ih (s + 1); simp only [maskPositions, List.length_cons]; omega

end LazyDs

/-
  Facts about the index-resolution model (`LazyDs.Model.PySlice`) and `pyIndex`.

  * in-range facts for every form of selection (`pySliceIdx`, `resolveIdx`, `maskPositions`,
    `lastIndexOf`, `resolveKeys`, `resolveSlice`);
  * an independent specification of Python slicing: the positions selected by
    `slice(a, b, st)` on a sequence of length `n` are exactly the members of the arithmetic
    progression between the clamped bounds (`pySliceIdx_spec_pos/_none/_neg`), in increasing
    resp. decreasing order;
  * `pyIndex` facts;
  * list-slice algebra (`sliceList`, property C16).
  CORE LEAN ONLY.
-/
import LazyDs.Model.PySlice

namespace LazyDs

/-! ### generic list helper -/

/-- two strictly increasing lists of naturals with the same members are equal -/
theorem eq_of_sorted_of_mem_iff : ∀ {l₁ l₂ : List Nat},
    l₁.Pairwise (· < ·) → l₂.Pairwise (· < ·) → (∀ x, x ∈ l₁ ↔ x ∈ l₂) → l₁ = l₂
  | [], [], _, _, _ => rfl
  | [], b :: l₂, _, _, h => by have := (h b).2 (by simp); simp at this
  | a :: l₁, [], _, _, h => by have := (h a).1 (by simp); simp at this
  | a :: l₁, b :: l₂, h₁, h₂, h => by
    rw [List.pairwise_cons] at h₁ h₂
    have hab : a = b := by
      have h1 := (h a).1 (by simp)
      have h2 := (h b).2 (by simp)
      rw [List.mem_cons] at h1 h2
      rcases h1 with h1 | h1
      · exact h1
      · rcases h2 with h2 | h2
        · exact h2.symm
        · have := h₂.1 a h1; have := h₁.1 b h2; omega
    subst hab
    have : l₁ = l₂ := by
      apply eq_of_sorted_of_mem_iff h₁.2 h₂.2
      intro x
      constructor
      · intro hx
        have := (h x).1 (List.mem_cons_of_mem _ hx)
        rw [List.mem_cons] at this
        rcases this with rfl | h'
        · have := h₁.1 x hx; omega
        · exact h'
      · intro hx
        have := (h x).2 (List.mem_cons_of_mem _ hx)
        rw [List.mem_cons] at this
        rcases this with rfl | h'
        · have := h₂.1 x hx; omega
        · exact h'
    rw [this]

theorem nodup_of_sorted_lt {l : List Nat} (h : l.Pairwise (· < ·)) : l.Nodup :=
  h.imp (fun hab => Nat.ne_of_lt hab)

theorem nodup_of_sorted_gt {l : List Nat} (h : l.Pairwise (· > ·)) : l.Nodup :=
  h.imp (fun hab => (Nat.ne_of_lt hab).symm)

/-! ### `progression` -/

theorem progression_eq_map (a st : Int) (k : Nat) :
    progression a st k = (List.range k).map (fun t : Nat => (a + t * st).toNat) := by
  induction k generalizing a with
  | zero => rfl
  | succ k ih =>
    rw [progression, ih, List.range_succ_eq_map, List.map_cons, List.map_map]
    congr 1
    · simp
    · apply List.map_congr_left
      intro t _
      simp only [Function.comp, Nat.succ_eq_add_one]
      congr 1
      rw [Int.natCast_add, Int.add_mul]
      omega

theorem progression_length (a st : Int) (k : Nat) : (progression a st k).length = k := by
  simp [progression_eq_map]

theorem progression_getElem? {a st : Int} {k t : Nat} (h : t < k) :
    (progression a st k)[t]? = some (a + t * st).toNat := by
  simp [progression_eq_map, h]

theorem mem_progression {a st : Int} {k j : Nat} :
    j ∈ progression a st k ↔ ∃ t : Nat, t < k ∧ j = (a + t * st).toNat := by
  simp only [progression_eq_map, List.mem_map, List.mem_range]
  constructor
  · rintro ⟨t, ht, rfl⟩; exact ⟨t, ht, rfl⟩
  · rintro ⟨t, ht, rfl⟩; exact ⟨t, ht, rfl⟩

/-- increasing progression from a non-negative start is strictly increasing -/
theorem progression_sorted_pos {a st : Int} (k : Nat) (ha : 0 ≤ a) (hst : 0 < st) :
    (progression a st k).Pairwise (· < ·) := by
  rw [progression_eq_map, List.pairwise_map]
  apply List.pairwise_lt_range.imp
  intro s t hlt
  have h1 : (s : Int) * st < t * st :=
    Int.mul_lt_mul_of_pos_right (by omega) hst
  have h2 : 0 ≤ (s : Int) * st := Int.mul_nonneg (by omega) (by omega)
  omega

/-- decreasing progression that stays non-negative is strictly decreasing -/
theorem progression_sorted_neg {a st : Int} (k : Nat) (hst : st < 0)
    (hk : ∀ t : Nat, t < k → 0 ≤ a + t * st) :
    (progression a st k).Pairwise (· > ·) := by
  rw [progression_eq_map, List.pairwise_map]
  apply List.pairwise_lt_range.imp_of_mem
  intro s t hs ht hlt
  rw [List.mem_range] at hs ht
  have h1 : (s : Int) * (-st) < t * (-st) :=
    Int.mul_lt_mul_of_pos_right (by omega) (by omega)
  have h3 := hk s hs
  have h4 := hk t ht
  rw [Int.mul_neg, Int.mul_neg] at h1
  show (a + t * st).toNat < (a + s * st).toNat
  omega

/-! ### `clampBound` -/

@[simp] theorem clampBound_none (n dflt lo hi : Int) : clampBound n none dflt lo hi = dflt := rfl

/-- `clampBound n (some v)`: wrap `v` once, then clamp into `[lo, hi]` -/
theorem clampBound_spec (n v dflt lo hi : Int) (h : lo ≤ hi) :
    clampBound n (some v) dflt lo hi = max lo (min hi (if v < 0 then v + n else v)) := by
  simp only [clampBound]
  split <;> split <;> omega

/-- the same without the side condition, as a three-way case distinction -/
theorem clampBound_some (n v dflt lo hi : Int) :
    clampBound n (some v) dflt lo hi =
      (let w := if v < 0 then v + n else v
       if w < lo then lo else if hi < w then hi else w) := rfl

theorem clampBound_bounds {n dflt lo hi : Int} (b : Option Int) (h : lo ≤ hi)
    (hd : lo ≤ dflt ∧ dflt ≤ hi) :
    lo ≤ clampBound n b dflt lo hi ∧ clampBound n b dflt lo hi ≤ hi := by
  cases b with
  | none => exact hd
  | some v =>
    simp only [clampBound]
    split <;> split <;> omega

/-- an already in-range non-negative bound is kept -/
theorem clampBound_id {n v dflt lo hi : Int} (h0 : 0 ≤ v) (h1 : lo ≤ v) (h2 : v ≤ hi) :
    clampBound n (some v) dflt lo hi = v := by
  simp only [clampBound]
  split <;> split <;> omega

/-- number of elements of `range(lo, hi, st)` for `st > 0` -/
theorem mem_progression_pos {lo hi st : Int} {j : Nat} (hlo : 0 ≤ lo) (hst : 0 < st) :
    j ∈ progression lo st (if lo < hi then ((hi - lo - 1) / st + 1).toNat else 0) ↔
      lo ≤ (j : Int) ∧ (j : Int) < hi ∧ ((j : Int) - lo) % st = 0 := by
  rw [mem_progression]
  constructor
  · rintro ⟨t, ht, rfl⟩
    split at ht
    · rename_i hlt
      have hq : 0 ≤ (hi - lo - 1) / st := Int.ediv_nonneg (by omega) (by omega)
      have htq : (t : Int) ≤ (hi - lo - 1) / st := by omega
      have h1 : (t : Int) * st ≤ (hi - lo - 1) / st * st :=
        Int.mul_le_mul_of_nonneg_right htq (by omega)
      have h2 := Int.ediv_mul_le (hi - lo - 1) (b := st) (by omega)
      have h3 : 0 ≤ (t : Int) * st := Int.mul_nonneg (by omega) (by omega)
      have h4 : ((lo + t * st).toNat : Int) = lo + t * st := Int.toNat_of_nonneg (by omega)
      rw [h4]
      refine ⟨by omega, by omega, ?_⟩
      have : lo + t * st - lo = t * st := by omega
      rw [this, Int.mul_emod_left]
    · omega
  · rintro ⟨h1, h2, h3⟩
    have hq : 0 ≤ ((j : Int) - lo) / st := Int.ediv_nonneg (by omega) (by omega)
    have hmul := Int.ediv_mul_cancel_of_emod_eq_zero h3
    have hle : ((j : Int) - lo) / st ≤ (hi - lo - 1) / st :=
      Int.ediv_le_ediv hst (by omega)
    refine ⟨(((j : Int) - lo) / st).toNat, ?_, ?_⟩
    · rw [if_pos (by omega)]; omega
    · rw [Int.toNat_of_nonneg hq, hmul]
      have : lo + ((j : Int) - lo) = j := by omega
      rw [this]; rfl

/-- every term of the decreasing progression lies in `(hi, lo]` -/
theorem progression_neg_term {lo hi st : Int} {t : Nat} (hst : st < 0)
    (ht : t < (if hi < lo then ((lo - hi - 1) / (-st) + 1).toNat else 0)) :
    hi < lo + t * st ∧ lo + t * st ≤ lo := by
  split at ht
  · rename_i hlt
    have hq : 0 ≤ (lo - hi - 1) / (-st) := Int.ediv_nonneg (by omega) (by omega)
    have htq : (t : Int) ≤ (lo - hi - 1) / (-st) := by omega
    have h1 : (t : Int) * (-st) ≤ (lo - hi - 1) / (-st) * (-st) :=
      Int.mul_le_mul_of_nonneg_right htq (by omega)
    have h2 := Int.ediv_mul_le (lo - hi - 1) (b := -st) (by omega)
    have h3 : 0 ≤ (t : Int) * (-st) := Int.mul_nonneg (by omega) (by omega)
    rw [Int.mul_neg] at h1 h3
    omega
  · omega

theorem mem_progression_neg {lo hi st : Int} {j : Nat} (hhi : -1 ≤ hi) (hst : st < 0) :
    j ∈ progression lo st (if hi < lo then ((lo - hi - 1) / (-st) + 1).toNat else 0) ↔
      hi < (j : Int) ∧ (j : Int) ≤ lo ∧ (lo - (j : Int)) % (-st) = 0 := by
  rw [mem_progression]
  constructor
  · rintro ⟨t, ht, rfl⟩
    have hb := progression_neg_term hst ht
    have h4 : ((lo + t * st).toNat : Int) = lo + t * st := Int.toNat_of_nonneg (by omega)
    rw [h4]
    refine ⟨by omega, by omega, ?_⟩
    have : lo - (lo + t * st) = t * (-st) := by rw [Int.mul_neg]; omega
    rw [this, Int.mul_emod_left]
  · rintro ⟨h1, h2, h3⟩
    have hq : 0 ≤ (lo - (j : Int)) / (-st) := Int.ediv_nonneg (by omega) (by omega)
    have hmul := Int.ediv_mul_cancel_of_emod_eq_zero h3
    have hle : (lo - (j : Int)) / (-st) ≤ (lo - hi - 1) / (-st) :=
      Int.ediv_le_ediv (by omega) (by omega)
    refine ⟨((lo - (j : Int)) / (-st)).toNat, ?_, ?_⟩
    · rw [if_pos (by omega)]; omega
    · rw [Int.toNat_of_nonneg hq]
      rw [Int.mul_neg] at hmul
      have : lo + (lo - (j : Int)) / (-st) * st = j := by omega
      rw [this]; rfl

theorem pySliceIdx_pos_eq (n : Nat) (a b : Option Int) {st : Int} (hst : 0 < st) :
    pySliceIdx n a b (some st) =
      .ok (progression (clampBound n a 0 0 n) st
        (if clampBound n a 0 0 n < clampBound n b n 0 n then
          ((clampBound n b n 0 n - clampBound n a 0 0 n - 1) / st + 1).toNat else 0)) := by
  have h0 : ¬ st = 0 := by omega
  simp [pySliceIdx, h0, hst]

theorem pySliceIdx_neg_eq (n : Nat) (a b : Option Int) {st : Int} (hst : st < 0) :
    pySliceIdx n a b (some st) =
      .ok (progression (clampBound n a (n - 1) (-1) (n - 1)) st
        (if clampBound n b (-1) (-1) (n - 1) < clampBound n a (n - 1) (-1) (n - 1) then
          ((clampBound n a (n - 1) (-1) (n - 1) - clampBound n b (-1) (-1) (n - 1) - 1) / (-st)
            + 1).toNat else 0)) := by
  have h0 : ¬ st = 0 := by omega
  have h1 : ¬ 0 < st := by omega
  simp [pySliceIdx, h0, h1]

theorem pySliceIdx_none_eq (n : Nat) (a b : Option Int) :
    pySliceIdx n a b none = pySliceIdx n a b (some 1) := rfl

/-! ### `pySliceIdx`: errors -/

theorem pySliceIdx_step_zero (n : Nat) (a b : Option Int) :
    pySliceIdx n a b (some 0) = .error .valueError := rfl

theorem pySliceIdx_ok_of_step_ne_zero {n : Nat} {a b c : Option Int} (hc : c ≠ some 0) :
    ∃ sel, pySliceIdx n a b c = .ok sel := by
  cases c with
  | none => rw [pySliceIdx_none_eq, pySliceIdx_pos_eq n a b (by omega : (0 : Int) < 1)]; exact ⟨_, rfl⟩
  | some st =>
    have : st ≠ 0 := fun h => hc (by rw [h])
    rcases Int.lt_or_gt_of_ne this with h | h
    · rw [pySliceIdx_neg_eq n a b h]; exact ⟨_, rfl⟩
    · rw [pySliceIdx_pos_eq n a b h]; exact ⟨_, rfl⟩

theorem pySliceIdx_error {n : Nat} {a b c : Option Int} {e : Err}
    (h : pySliceIdx n a b c = .error e) : c = some 0 ∧ e = .valueError := by
  by_cases hc : c = some 0
  · subst hc; rw [pySliceIdx_step_zero] at h; cases h; exact ⟨rfl, rfl⟩
  · obtain ⟨sel, hs⟩ := pySliceIdx_ok_of_step_ne_zero (n := n) (a := a) (b := b) hc
    rw [hs] at h; cases h

/-! ### `pySliceIdx`: specification -/

private theorem lo_pos_bounds (n : Nat) (a : Option Int) :
    0 ≤ clampBound n a 0 0 n ∧ clampBound n a 0 0 n ≤ n :=
  clampBound_bounds a (by omega) (by omega)

private theorem hi_pos_bounds (n : Nat) (b : Option Int) :
    0 ≤ clampBound n b n 0 n ∧ clampBound n b n 0 n ≤ n :=
  clampBound_bounds b (by omega) (by omega)

private theorem lo_neg_bounds (n : Nat) (a : Option Int) :
    -1 ≤ clampBound n a (n - 1) (-1) (n - 1) ∧ clampBound n a (n - 1) (-1) (n - 1) ≤ n - 1 :=
  clampBound_bounds a (by omega) (by omega)

private theorem hi_neg_bounds (n : Nat) (b : Option Int) :
    -1 ≤ clampBound n b (-1) (-1) (n - 1) ∧ clampBound n b (-1) (-1) (n - 1) ≤ n - 1 :=
  clampBound_bounds b (by omega) (by omega)

/-- membership for a positive step -/
theorem pySliceIdx_mem_pos {n : Nat} {a b : Option Int} {st : Int} {sel : List Nat} (hst : 0 < st)
    (h : pySliceIdx n a b (some st) = .ok sel) (j : Nat) :
    j ∈ sel ↔ clampBound n a 0 0 n ≤ (j : Int) ∧ (j : Int) < clampBound n b n 0 n ∧
      ((j : Int) - clampBound n a 0 0 n) % st = 0 := by
  rw [pySliceIdx_pos_eq n a b hst] at h
  cases h
  exact mem_progression_pos (lo_pos_bounds n a).1 hst

/-- membership for a negative step -/
theorem pySliceIdx_mem_neg {n : Nat} {a b : Option Int} {st : Int} {sel : List Nat} (hst : st < 0)
    (h : pySliceIdx n a b (some st) = .ok sel) (j : Nat) :
    j ∈ sel ↔ clampBound n b (-1) (-1) (n - 1) < (j : Int) ∧
      (j : Int) ≤ clampBound n a (n - 1) (-1) (n - 1) ∧
      (clampBound n a (n - 1) (-1) (n - 1) - (j : Int)) % (-st) = 0 := by
  rw [pySliceIdx_neg_eq n a b hst] at h
  cases h
  exact mem_progression_neg (hi_neg_bounds n b).1 hst

theorem pySliceIdx_sorted_pos {n : Nat} {a b : Option Int} {st : Int} {sel : List Nat}
    (hst : 0 < st) (h : pySliceIdx n a b (some st) = .ok sel) : sel.Pairwise (· < ·) := by
  rw [pySliceIdx_pos_eq n a b hst] at h
  cases h
  exact progression_sorted_pos _ (lo_pos_bounds n a).1 hst

theorem pySliceIdx_sorted_none {n : Nat} {a b : Option Int} {sel : List Nat}
    (h : pySliceIdx n a b none = .ok sel) : sel.Pairwise (· < ·) :=
  pySliceIdx_sorted_pos (by omega : (0 : Int) < 1) h

theorem pySliceIdx_sorted_neg {n : Nat} {a b : Option Int} {st : Int} {sel : List Nat}
    (hst : st < 0) (h : pySliceIdx n a b (some st) = .ok sel) : sel.Pairwise (· > ·) := by
  rw [pySliceIdx_neg_eq n a b hst] at h
  cases h
  apply progression_sorted_neg _ hst
  intro t ht
  have := progression_neg_term hst ht
  have := (hi_neg_bounds n b).1
  omega

theorem pySliceIdx_nodup {n : Nat} {a b c : Option Int} {sel : List Nat}
    (h : pySliceIdx n a b c = .ok sel) : sel.Nodup := by
  cases c with
  | none => exact nodup_of_sorted_lt (pySliceIdx_sorted_none h)
  | some st =>
    rcases Int.lt_trichotomy st 0 with hs | hs | hs
    · exact nodup_of_sorted_gt (pySliceIdx_sorted_neg hs h)
    · subst hs; rw [pySliceIdx_step_zero] at h; cases h
    · exact nodup_of_sorted_lt (pySliceIdx_sorted_pos hs h)

/-- every selected position is a valid position -/
theorem pySliceIdx_lt {n : Nat} {a b c : Option Int} {sel : List Nat}
    (h : pySliceIdx n a b c = .ok sel) : ∀ j ∈ sel, j < n := by
  intro j hj
  cases c with
  | none =>
    have := (pySliceIdx_mem_pos (by omega : (0 : Int) < 1) h j).1 hj
    have := (hi_pos_bounds n b).2
    omega
  | some st =>
    rcases Int.lt_trichotomy st 0 with hs | hs | hs
    · have := (pySliceIdx_mem_neg hs h j).1 hj
      have := (lo_neg_bounds n a).2
      omega
    · subst hs; rw [pySliceIdx_step_zero] at h; cases h
    · have := (pySliceIdx_mem_pos hs h j).1 hj
      have := (hi_pos_bounds n b).2
      omega

/-- **Specification, positive step.**  The selection is the increasing list of the positions
    `j` of `range n` that lie in `[lo, hi)` and are congruent to `lo` modulo the step. -/
theorem pySliceIdx_spec_pos (n : Nat) (a b : Option Int) {st : Int} (hst : 0 < st) :
    pySliceIdx n a b (some st) =
      .ok ((List.range n).filter (fun j : Nat =>
        decide (clampBound n a 0 0 n ≤ (j : Int) ∧ (j : Int) < clampBound n b n 0 n ∧
          ((j : Int) - clampBound n a 0 0 n) % st = 0))) := by
  obtain ⟨sel, hsel⟩ := pySliceIdx_ok_of_step_ne_zero (n := n) (a := a) (b := b)
    (c := some st) (by intro h; cases h; omega)
  rw [hsel]
  congr 1
  apply eq_of_sorted_of_mem_iff (pySliceIdx_sorted_pos hst hsel)
    (List.pairwise_lt_range.filter _)
  intro j
  rw [List.mem_filter, List.mem_range, decide_eq_true_eq, pySliceIdx_mem_pos hst hsel]
  constructor
  · intro hj; exact ⟨pySliceIdx_lt hsel j ((pySliceIdx_mem_pos hst hsel j).2 hj), hj⟩
  · exact fun hj => hj.2

/-- **Specification, default step** (`step = None` means 1). -/
theorem pySliceIdx_spec_none (n : Nat) (a b : Option Int) :
    pySliceIdx n a b none =
      .ok ((List.range n).filter (fun j : Nat =>
        decide (clampBound n a 0 0 n ≤ (j : Int) ∧ (j : Int) < clampBound n b n 0 n))) := by
  rw [pySliceIdx_none_eq, pySliceIdx_spec_pos n a b (by omega : (0 : Int) < 1)]
  congr 1
  apply List.filter_congr
  intro j _
  simp [Int.emod_one]

/-- **Specification, negative step.**  The selection is the decreasing list of the positions
    `j` of `range n` that lie in `(hi, lo]` and are congruent to `lo` modulo `-step`. -/
theorem pySliceIdx_spec_neg (n : Nat) (a b : Option Int) {st : Int} (hst : st < 0) :
    pySliceIdx n a b (some st) =
      .ok ((List.range n).filter (fun j : Nat =>
        decide (clampBound n b (-1) (-1) (n - 1) < (j : Int) ∧
          (j : Int) ≤ clampBound n a (n - 1) (-1) (n - 1) ∧
          (clampBound n a (n - 1) (-1) (n - 1) - (j : Int)) % (-st) = 0))).reverse := by
  obtain ⟨sel, hsel⟩ := pySliceIdx_ok_of_step_ne_zero (n := n) (a := a) (b := b)
    (c := some st) (by intro h; cases h; omega)
  rw [hsel]
  congr 1
  rw [← List.reverse_reverse sel]
  congr 1
  apply eq_of_sorted_of_mem_iff
    (List.pairwise_reverse.2 (pySliceIdx_sorted_neg hst hsel))
    (List.pairwise_lt_range.filter _)
  intro j
  rw [List.mem_reverse, List.mem_filter, List.mem_range, decide_eq_true_eq,
    pySliceIdx_mem_neg hst hsel]
  constructor
  · intro hj; exact ⟨pySliceIdx_lt hsel j ((pySliceIdx_mem_neg hst hsel j).2 hj), hj⟩
  · exact fun hj => hj.2

/-- `l[:]` selects everything, in order -/
theorem pySliceIdx_full (n : Nat) : pySliceIdx n none none none = .ok (List.range n) := by
  rw [pySliceIdx_spec_none]
  congr 1
  rw [List.filter_eq_self]
  intro j hj
  rw [List.mem_range] at hj
  simp only [clampBound_none]
  apply decide_eq_true
  omega

/-- `l[::-1]` selects everything, in reverse order -/
theorem pySliceIdx_reverse (n : Nat) :
    pySliceIdx n none none (some (-1)) = .ok (List.range n).reverse := by
  rw [pySliceIdx_spec_neg n none none (by omega : (-1 : Int) < 0)]
  congr 2
  rw [List.filter_eq_self]
  intro j hj
  rw [List.mem_range] at hj
  simp only [clampBound_none, Int.neg_neg, Int.emod_one]
  apply decide_eq_true
  exact ⟨by omega, by omega, trivial⟩

/-! ### `resolveIdx` (numpy integer fancy indexing) -/

/-- the position denoted by the (possibly negative) index `i` -/
def wrapIdx (n : Nat) (i : Int) : Nat := (if i < 0 then i + (n : Int) else i).toNat

theorem resolveIdx_cons (n : Nat) (i : Int) (rest : List Int) :
    resolveIdx n (i :: rest) =
      if -(n : Int) ≤ i ∧ i < n then
        match resolveIdx n rest with
        | .ok r => .ok (wrapIdx n i :: r)
        | .error e => .error e
      else .error .indexError := by
  simp only [resolveIdx, wrapIdx]
  by_cases h : -(n : Int) ≤ i ∧ i < n
  · rw [if_pos h, if_neg (by
      simp only [Bool.or_eq_true, decide_eq_true_eq, not_or]
      split <;> omega)]
    cases resolveIdx n rest <;> rfl
  · rw [if_neg h, if_pos (by
      simp only [Bool.or_eq_true, decide_eq_true_eq]
      split <;> omega)]

theorem resolveIdx_spec {n : Nat} {is : List Int} {sel : List Nat} :
    resolveIdx n is = .ok sel ↔
      (∀ i ∈ is, -(n : Int) ≤ i ∧ i < n) ∧
        sel = is.map (fun i => (if i < 0 then i + (n : Int) else i).toNat) := by
  induction is generalizing sel with
  | nil => simp [resolveIdx, eq_comm]
  | cons i rest ih =>
    rw [resolveIdx_cons]
    by_cases h : -(n : Int) ≤ i ∧ i < n
    · rw [if_pos h]
      cases hr : resolveIdx n rest with
      | error e =>
        simp only [reduceCtorEq, false_iff]
        rintro ⟨hall, _⟩
        have := (ih (sel := rest.map _)).2 ⟨fun i hi => hall i (List.mem_cons_of_mem _ hi), rfl⟩
        rw [hr] at this; cases this
      | ok r =>
        have hr' := ih.1 hr
        simp only [Except.ok.injEq, List.map_cons, List.mem_cons, forall_eq_or_imp]
        constructor
        · rintro rfl
          exact ⟨⟨h, hr'.1⟩, by rw [hr'.2]; rfl⟩
        · rintro ⟨_, rfl⟩
          rw [hr'.2]; rfl
    · rw [if_neg h]
      simp only [reduceCtorEq, false_iff]
      rintro ⟨hall, _⟩
      exact h (hall i (by simp))

theorem resolveIdx_length {n : Nat} {is : List Int} {sel : List Nat}
    (h : resolveIdx n is = .ok sel) : sel.length = is.length := by
  rw [(resolveIdx_spec.1 h).2, List.length_map]

theorem resolveIdx_lt {n : Nat} {is : List Int} {sel : List Nat}
    (h : resolveIdx n is = .ok sel) : ∀ j ∈ sel, j < n := by
  obtain ⟨hall, rfl⟩ := resolveIdx_spec.1 h
  intro j hj
  rw [List.mem_map] at hj
  obtain ⟨i, hi, rfl⟩ := hj
  have := hall i hi
  split <;> omega

/-- the only possible failure is `IndexError` -/
theorem resolveIdx_error_kind {n : Nat} {is : List Int} {e : Err}
    (h : resolveIdx n is = .error e) : e = .indexError := by
  induction is with
  | nil => simp [resolveIdx] at h
  | cons i rest ih =>
    rw [resolveIdx_cons] at h
    split at h
    · cases hr : resolveIdx n rest with
      | error e' => rw [hr] at h; cases h; exact ih hr
      | ok r => rw [hr] at h; cases h
    · cases h; rfl

theorem resolveIdx_error {n : Nat} {is : List Int}
    (h : ∃ i ∈ is, i < -(n : Int) ∨ (n : Int) ≤ i) : resolveIdx n is = .error .indexError := by
  cases hr : resolveIdx n is with
  | error e => rw [resolveIdx_error_kind hr]
  | ok sel =>
    obtain ⟨i, hi, hbad⟩ := h
    have := (resolveIdx_spec.1 hr).1 i hi
    omega

/-- `resolveIdx` fails exactly when some index is out of range -/
theorem resolveIdx_error_iff {n : Nat} {is : List Int} :
    resolveIdx n is = .error .indexError ↔ ∃ i ∈ is, i < -(n : Int) ∨ (n : Int) ≤ i := by
  constructor
  · intro h
    apply Classical.byContradiction
    intro hne
    have hall : ∀ i ∈ is, -(n : Int) ≤ i ∧ i < n := by
      intro i hi
      apply Classical.byContradiction
      intro hb
      exact hne ⟨i, hi, by omega⟩
    have := (resolveIdx_spec (sel := is.map _)).2 ⟨hall, rfl⟩
    rw [h] at this; cases this
  · exact resolveIdx_error

theorem resolveIdx_ofNat {n : Nat} {l : List Nat} (h : ∀ j ∈ l, j < n) :
    resolveIdx n (l.map Int.ofNat) = .ok l := by
  rw [resolveIdx_spec]
  constructor
  · intro i hi
    rw [List.mem_map] at hi
    obtain ⟨j, hj, rfl⟩ := hi
    have := h j hj
    simp only [Int.ofNat_eq_natCast]
    omega
  · rw [List.map_map]
    conv => lhs; rw [← List.map_id l]
    apply List.map_congr_left
    intro j _
    simp only [Function.comp, Int.ofNat_eq_natCast, id]
    split <;> omega

/-! ### `maskPositions` (boolean mask indexing) -/

theorem mem_maskPositions {bs : List Bool} {s j : Nat} :
    j ∈ maskPositions bs s ↔ s ≤ j ∧ bs[j - s]? = some true := by
  induction bs generalizing s with
  | nil => simp [maskPositions]
  | cons b bs ih =>
    cases b
    · simp only [maskPositions, ih]
      constructor
      · rintro ⟨h1, h2⟩
        refine ⟨by omega, ?_⟩
        have : j - s = (j - (s + 1)) + 1 := by omega
        rw [this, List.getElem?_cons_succ]; exact h2
      · rintro ⟨h1, h2⟩
        by_cases hjs : j = s
        · subst hjs; simp at h2
        · refine ⟨by omega, ?_⟩
          have : j - s = (j - (s + 1)) + 1 := by omega
          rw [this, List.getElem?_cons_succ] at h2; exact h2
    · simp only [maskPositions, List.mem_cons, ih]
      constructor
      · rintro (rfl | ⟨h1, h2⟩)
        · simp
        · refine ⟨by omega, ?_⟩
          have : j - s = (j - (s + 1)) + 1 := by omega
          rw [this, List.getElem?_cons_succ]; exact h2
      · rintro ⟨h1, h2⟩
        by_cases hjs : j = s
        · exact Or.inl hjs
        · right
          refine ⟨by omega, ?_⟩
          have : j - s = (j - (s + 1)) + 1 := by omega
          rw [this, List.getElem?_cons_succ] at h2; exact h2

theorem maskPositions_lt {bs : List Bool} {s : Nat} :
    ∀ j ∈ maskPositions bs s, s ≤ j ∧ j < s + bs.length := by
  intro j hj
  obtain ⟨h1, h2⟩ := mem_maskPositions.1 hj
  have := (List.getElem?_eq_some_iff.1 h2).1
  omega

theorem maskPositions_sorted (bs : List Bool) (s : Nat) :
    (maskPositions bs s).Pairwise (· < ·) := by
  induction bs generalizing s with
  | nil => simp [maskPositions]
  | cons b bs ih =>
    cases b
    · exact ih (s + 1)
    · simp only [maskPositions, List.pairwise_cons]
      refine ⟨?_, ih (s + 1)⟩
      intro j hj
      have := (maskPositions_lt j hj).1
      omega

theorem maskPositions_nodup (bs : List Bool) (s : Nat) : (maskPositions bs s).Nodup :=
  nodup_of_sorted_lt (maskPositions_sorted bs s)

/-- the selected positions are exactly the positions holding `True`, in increasing order -/
theorem maskPositions_spec (bs : List Bool) :
    maskPositions bs 0 = (List.range bs.length).filter (fun j => bs[j]?.getD false) := by
  apply eq_of_sorted_of_mem_iff (maskPositions_sorted bs 0) (List.pairwise_lt_range.filter _)
  intro j
  rw [mem_maskPositions, List.mem_filter, List.mem_range]
  simp only [Nat.zero_le, true_and, Nat.sub_zero]
  constructor
  · intro h
    exact ⟨(List.getElem?_eq_some_iff.1 h).1, by rw [h]; rfl⟩
  · rintro ⟨h1, h2⟩
    rw [List.getElem?_eq_getElem h1] at h2 ⊢
    simpa using h2

theorem maskPositions_length_le (bs : List Bool) (s : Nat) :
    (maskPositions bs s).length ≤ bs.length := by
  induction bs generalizing s with
  | nil => simp [maskPositions]
  | cons b bs ih =>
    cases b
    · have := ih (s + 1); simp only [maskPositions, List.length_cons]; omega
    · have := ih (s + 1); simp only [maskPositions, List.length_cons]; omega

/-! ### `lastIndexOf` (the dict built by `{k: i for i, k in enumerate(keys)}`) -/

theorem lastIndexOf_go_of_not_mem {xs : List String} {k : String} (i : Nat) (acc : Option Nat)
    (h : k ∉ xs) : lastIndexOf.go k xs i acc = acc := by
  induction xs generalizing i acc with
  | nil => rfl
  | cons x xs ih =>
    rw [List.mem_cons, not_or] at h
    have hx : ¬ x = k := fun e => h.1 e.symm
    simp only [lastIndexOf.go, beq_iff_eq, hx, if_false]
    exact ih _ _ h.2

/-- result of the scan: either the accumulator (if `k` does not occur) or the last position -/
theorem lastIndexOf_go_spec {xs : List String} {k : String} (i : Nat) (acc : Option Nat) :
    (k ∉ xs ∧ lastIndexOf.go k xs i acc = acc) ∨
    (∃ j, lastIndexOf.go k xs i acc = some (i + j) ∧ xs[j]? = some k ∧
        ∀ j', j < j' → xs[j']? ≠ some k) := by
  induction xs generalizing i acc with
  | nil => left; exact ⟨by simp, rfl⟩
  | cons x xs ih =>
    simp only [lastIndexOf.go]
    rcases ih (i + 1) (if (x == k) = true then some i else acc) with ⟨hn, hg⟩ | ⟨j, hg, hj, hlast⟩
    · by_cases hx : x = k
      · right
        refine ⟨0, ?_, by simp [hx], ?_⟩
        · rw [hg]; simp [hx]
        · intro j' hj' hc
          obtain ⟨j'', rfl⟩ : ∃ j'', j' = j'' + 1 := ⟨j' - 1, by omega⟩
          rw [List.getElem?_cons_succ] at hc
          exact hn (List.mem_of_getElem? hc)
      · left
        refine ⟨?_, ?_⟩
        · rw [List.mem_cons, not_or]; exact ⟨fun e => hx e.symm, hn⟩
        · rw [hg]; simp [hx]
    · right
      refine ⟨j + 1, ?_, by simpa using hj, ?_⟩
      · rw [hg]; congr 1; omega
      · intro j' hj' hc
        obtain ⟨j'', rfl⟩ : ∃ j'', j' = j'' + 1 := ⟨j' - 1, by omega⟩
        rw [List.getElem?_cons_succ] at hc
        exact hlast j'' (by omega) hc

theorem lastIndexOf_none {ks : List String} {k : String} :
    lastIndexOf ks k = none ↔ k ∉ ks := by
  unfold lastIndexOf
  rcases lastIndexOf_go_spec (xs := ks) (k := k) 0 none with ⟨hn, hg⟩ | ⟨j, hg, hj, _⟩
  · simp [hn, hg]
  · rw [hg]
    simp only [reduceCtorEq, false_iff, Classical.not_not]
    exact List.mem_of_getElem? hj

/-- `lastIndexOf` returns a valid position holding `k`, and no later position holds `k` -/
theorem lastIndexOf_spec {ks : List String} {k : String} {i : Nat}
    (h : lastIndexOf ks k = some i) :
    i < ks.length ∧ ks[i]? = some k ∧ ∀ j, i < j → ks[j]? ≠ some k := by
  unfold lastIndexOf at h
  rcases lastIndexOf_go_spec (xs := ks) (k := k) 0 none with ⟨_, hg⟩ | ⟨j, hg, hj, hlast⟩
  · rw [hg] at h; cases h
  · rw [hg] at h
    simp only [Nat.zero_add, Option.some.injEq] at h
    subst h
    exact ⟨(List.getElem?_eq_some_iff.1 hj).1, hj, hlast⟩

theorem lastIndexOf_lt {ks : List String} {k : String} {i : Nat}
    (h : lastIndexOf ks k = some i) : i < ks.length ∧ ks[i]? = some k :=
  ⟨(lastIndexOf_spec h).1, (lastIndexOf_spec h).2.1⟩

/-- converse: the last position holding `k` is what `lastIndexOf` returns -/
theorem lastIndexOf_eq_of_last {ks : List String} {k : String} {i : Nat}
    (hi : ks[i]? = some k) (hlast : ∀ j, i < j → ks[j]? ≠ some k) :
    lastIndexOf ks k = some i := by
  cases h : lastIndexOf ks k with
  | none => exact absurd (List.mem_of_getElem? hi) (lastIndexOf_none.1 h)
  | some i' =>
    obtain ⟨_, h2, h3⟩ := lastIndexOf_spec h
    congr 1
    apply Classical.byContradiction
    intro hne
    rcases Nat.lt_or_gt_of_ne hne with hlt | hlt
    · exact h3 i hlt hi
    · exact hlast i' hlt h2

theorem lastIndexOf_nodup {ks : List String} {k : String} {i : Nat}
    (hnd : ks.Nodup) (hi : ks[i]? = some k) : lastIndexOf ks k = some i := by
  apply lastIndexOf_eq_of_last hi
  intro j hij hj
  have h1 := List.getElem?_eq_some_iff.1 hi
  have h2 := List.getElem?_eq_some_iff.1 hj
  obtain ⟨hi', hik⟩ := h1
  obtain ⟨hj', hjk⟩ := h2
  have := (List.getElem_inj (h₀ := hi') (h₁ := hj') hnd).1 (hik.trans hjk.symm)
  omega

/-! ### `resolveKeys` -/

theorem resolveKeys_cons (iks : List String) (k : String) (rest : List String) :
    resolveKeys iks (k :: rest) =
      match lastIndexOf iks k with
      | none => .error .keyError
      | some i => match resolveKeys iks rest with
        | .ok r => .ok (i :: r)
        | .error e => .error e := by
  rw [resolveKeys]
  cases lastIndexOf iks k with
  | none => rfl
  | some i => cases resolveKeys iks rest <;> rfl

theorem resolveKeys_ok_cons {iks : List String} {k : String} {rest : List String}
    {sel : List Nat} (h : resolveKeys iks (k :: rest) = .ok sel) :
    ∃ i r, lastIndexOf iks k = some i ∧ resolveKeys iks rest = .ok r ∧ sel = i :: r := by
  rw [resolveKeys_cons] at h
  cases hl : lastIndexOf iks k with
  | none => rw [hl] at h; cases h
  | some i =>
    rw [hl] at h
    cases hr : resolveKeys iks rest with
    | error e => rw [hr] at h; cases h
    | ok r => rw [hr] at h; cases h; exact ⟨i, r, rfl, rfl, rfl⟩

theorem resolveKeys_spec {iks ks : List String} {sel : List Nat}
    (h : resolveKeys iks ks = .ok sel) :
    sel.length = ks.length ∧
      ∀ t, t < ks.length → ∃ j, sel[t]? = some j ∧ iks[j]? = ks[t]? := by
  induction ks generalizing sel with
  | nil => simp [resolveKeys] at h; subst h; simp
  | cons k rest ih =>
    obtain ⟨i, r, hl, hr, rfl⟩ := resolveKeys_ok_cons h
    obtain ⟨ihl, iht⟩ := ih hr
    refine ⟨by simp [ihl], ?_⟩
    intro t ht
    cases t with
    | zero => exact ⟨i, by simp, by simpa using (lastIndexOf_lt hl).2⟩
    | succ t =>
      obtain ⟨j, h1, h2⟩ := iht t (by simpa using ht)
      exact ⟨j, by simpa using h1, by simpa using h2⟩

/-- exact form: each selected position is the *last* occurrence of the requested key -/
theorem resolveKeys_eq {iks ks : List String} {sel : List Nat} :
    resolveKeys iks ks = .ok sel ↔ ks.map (lastIndexOf iks) = sel.map some := by
  induction ks generalizing sel with
  | nil => cases sel <;> simp [resolveKeys]
  | cons k rest ih =>
    constructor
    · intro h
      obtain ⟨i, r, hl, hr, rfl⟩ := resolveKeys_ok_cons h
      simp [hl, ih.1 hr]
    · intro h
      cases sel with
      | nil => simp at h
      | cons i r =>
        simp only [List.map_cons, List.cons.injEq] at h
        rw [resolveKeys_cons, h.1, ih.2 h.2]

theorem resolveKeys_lt {iks ks : List String} {sel : List Nat}
    (h : resolveKeys iks ks = .ok sel) : ∀ j ∈ sel, j < iks.length := by
  induction ks generalizing sel with
  | nil => simp [resolveKeys] at h; subst h; simp
  | cons k rest ih =>
    obtain ⟨i, r, hl, hr, rfl⟩ := resolveKeys_ok_cons h
    intro j hj
    rw [List.mem_cons] at hj
    rcases hj with rfl | hj
    · exact (lastIndexOf_lt hl).1
    · exact ih hr j hj

theorem resolveKeys_error_kind {iks ks : List String} {e : Err}
    (h : resolveKeys iks ks = .error e) : e = .keyError := by
  induction ks with
  | nil => simp [resolveKeys] at h
  | cons k rest ih =>
    rw [resolveKeys_cons] at h
    cases hl : lastIndexOf iks k with
    | none => rw [hl] at h; cases h; rfl
    | some i =>
      rw [hl] at h
      cases hr : resolveKeys iks rest with
      | error e' => rw [hr] at h; cases h; exact ih hr
      | ok r => rw [hr] at h; cases h

theorem resolveKeys_absent {iks ks : List String} (h : ∃ k ∈ ks, k ∉ iks) :
    resolveKeys iks ks = .error .keyError := by
  cases hr : resolveKeys iks ks with
  | error e => rw [resolveKeys_error_kind hr]
  | ok sel =>
    exfalso
    obtain ⟨k, hk, hnot⟩ := h
    obtain ⟨t, ht, hkt⟩ := List.getElem_of_mem hk
    obtain ⟨_, hspec⟩ := resolveKeys_spec hr
    obtain ⟨j, _, hj⟩ := hspec t ht
    rw [List.getElem?_eq_getElem ht, hkt] at hj
    exact hnot (List.mem_of_getElem? hj)

/-- all keys present ⇒ success -/
theorem resolveKeys_ok_of_subset {iks ks : List String} (h : ∀ k ∈ ks, k ∈ iks) :
    ∃ sel, resolveKeys iks ks = .ok sel := by
  induction ks with
  | nil => exact ⟨[], rfl⟩
  | cons k rest ih =>
    obtain ⟨r, hr⟩ := ih (fun k hk => h k (List.mem_cons_of_mem _ hk))
    cases hl : lastIndexOf iks k with
    | none => exact absurd (h k (by simp)) (lastIndexOf_none.1 hl)
    | some i => exact ⟨i :: r, by rw [resolveKeys_cons, hl, hr]⟩

/-! ### `resolveSlice` -/

theorem resolveSlice_lt {n : Nat} {inputKeys : Res (List String)} {spec : SliceSpec}
    {sel : List Nat} (hk : ∀ ks, inputKeys = .ok ks → ks.length = n)
    (h : resolveSlice n inputKeys spec = .ok sel) : ∀ j ∈ sel, j < n := by
  cases spec with
  | range a b c => exact pySliceIdx_lt h
  | idx is => exact resolveIdx_lt h
  | mask bs =>
    simp only [resolveSlice] at h
    split at h
    · rename_i hlen
      cases h
      intro j hj
      have := maskPositions_lt j hj
      have : bs.length = n := by simpa using hlen
      omega
    · cases h
  | keys ks =>
    cases ks with
    | nil => simp only [resolveSlice] at h; cases h; simp
    | cons k rest =>
      simp only [resolveSlice] at h
      cases hi : inputKeys with
      | error e => rw [hi] at h; cases h
      | ok iks =>
        rw [hi] at h
        have hlen := hk iks hi
        intro j hj
        have := resolveKeys_lt h j hj
        omega

/-! ### `pyIndex` (Python `l[i]`) -/

/-- value form of `pyIndex` on an in-range index -/
theorem pyIndex_eq_ok {α} {l : List α} {i : Int} (h1 : -(l.length : Int) ≤ i)
    (h2 : i < l.length) :
    pyIndex l i = .ok (l[(if i < 0 then i + (l.length : Int) else i).toNat]'(by
      split <;> omega)) := by
  by_cases hi : i < 0
  · have hnn : ¬ (i + (l.length : Int) < 0) := by omega
    have hlt : (i + (l.length : Int)).toNat < l.length := by omega
    simp only [pyIndex, hi, if_true, hnn, if_false, List.getElem?_eq_getElem hlt]
  · have hlt : i.toNat < l.length := by omega
    simp only [pyIndex, hi, if_false, List.getElem?_eq_getElem hlt]

theorem pyIndex_oob {α} {l : List α} {i : Int}
    (h : i < -(l.length : Int) ∨ (l.length : Int) ≤ i) : pyIndex l i = .error .indexError := by
  by_cases hi : i < 0
  · have hneg : i + (l.length : Int) < 0 := by omega
    simp only [pyIndex, hi, if_true, hneg]
  · have hge : l.length ≤ i.toNat := by omega
    simp only [pyIndex, hi, if_false, List.getElem?_eq_none_iff.2 hge]

theorem pyIndex_lt' {α} {l : List α} {j : Nat} (h : j < l.length) :
    pyIndex l (j : Int) = .ok l[j] := by
  rw [pyIndex_eq_ok (by omega) (by omega)]
  have h0 : ¬ ((j : Int) < 0) := by omega
  simp only [h0, if_false, Int.toNat_natCast]

theorem pyIndex_neg {α} {l : List α} {i : Int} (h0 : 0 ≤ i) (h1 : i < l.length) :
    pyIndex l (i - l.length) = pyIndex l i := by
  have ha : i - (l.length : Int) < 0 := by omega
  have hb : ¬ (i < 0) := by omega
  have hc : i - (l.length : Int) + (l.length : Int) = i := by omega
  simp only [pyIndex, ha, hb, if_true, if_false, hc]

theorem pyIndex_error' {α} {l : List α} {i : Int} {e : Err} (h : pyIndex l i = .error e) :
    e = .indexError := by
  by_cases hr : -(l.length : Int) ≤ i ∧ i < l.length
  · rw [pyIndex_eq_ok hr.1 hr.2] at h; cases h
  · rw [pyIndex_oob (by omega)] at h; cases h; rfl

theorem pyIndex_ok_iff {α} {l : List α} {i : Int} :
    (∃ v, pyIndex l i = .ok v) ↔ -(l.length : Int) ≤ i ∧ i < l.length := by
  constructor
  · rintro ⟨v, hv⟩
    apply Classical.byContradiction
    intro hn
    rw [pyIndex_oob (by omega)] at hv
    cases hv
  · rintro ⟨h1, h2⟩
    exact ⟨_, pyIndex_eq_ok h1 h2⟩

theorem pyIndex_map' {α β} (f : α → β) (l : List α) (i : Int) :
    pyIndex (l.map f) i = (pyIndex l i).map f := by
  by_cases hr : -(l.length : Int) ≤ i ∧ i < l.length
  · rw [pyIndex_eq_ok hr.1 hr.2,
      pyIndex_eq_ok (by rw [List.length_map]; exact hr.1) (by rw [List.length_map]; exact hr.2)]
    simp only [List.getElem_map, List.length_map]
    rfl
  · rw [pyIndex_oob (l := l) (by omega), pyIndex_oob (l := l.map f) (by rw [List.length_map]; omega)]
    rfl

/-- `l[-1]` is the last element -/
theorem pyIndex_neg_one {α} {l : List α} (h : l ≠ []) :
    pyIndex l (-1) = .ok (l.getLast h) := by
  have hlen : 0 < l.length := List.length_pos_iff.2 h
  have := pyIndex_neg (l := l) (i := (l.length : Int) - 1) (by omega) (by omega)
  have e : (l.length : Int) - 1 - (l.length : Int) = -1 := by omega
  rw [e] at this
  rw [this]
  have e2 : (l.length : Int) - 1 = ((l.length - 1 : Nat) : Int) := by omega
  rw [e2, pyIndex_lt' (by omega), List.getLast_eq_getElem]

/-! ### list-slice algebra (C16) -/

/-- the sub-list of `l` selected by the positions `sel` (out-of-range positions are dropped) -/
def sliceList {α} (l : List α) (sel : List Nat) : List α := sel.filterMap (l[·]?)

@[simp] theorem sliceList_nil {α} (l : List α) : sliceList l [] = [] := rfl

theorem sliceList_cons_of_lt {α} {l : List α} {i : Nat} (sel : List Nat) (h : i < l.length) :
    sliceList l (i :: sel) = l[i] :: sliceList l sel := by
  simp [sliceList, List.getElem?_eq_getElem h]

theorem sliceList_cons_of_ge {α} {l : List α} {i : Nat} (sel : List Nat) (h : l.length ≤ i) :
    sliceList l (i :: sel) = sliceList l sel := by
  simp [sliceList, List.getElem?_eq_none_iff.2 h]

/-- with in-range positions, `sliceList` is a plain `map` -/
theorem sliceList_eq_map {α} [Inhabited α] {l : List α} {sel : List Nat}
    (h : ∀ j ∈ sel, j < l.length) : sliceList l sel = sel.map (fun j => l[j]!) := by
  induction sel with
  | nil => rfl
  | cons i sel ih =>
    have hi := h i (by simp)
    rw [sliceList_cons_of_lt sel hi, ih (fun j hj => h j (List.mem_cons_of_mem _ hj))]
    simp [hi]

theorem sliceList_length {α} {l : List α} {sel : List Nat} (h : ∀ j ∈ sel, j < l.length) :
    (sliceList l sel).length = sel.length := by
  induction sel with
  | nil => rfl
  | cons i sel ih =>
    rw [sliceList_cons_of_lt sel (h i (by simp)), List.length_cons, List.length_cons,
      ih (fun j hj => h j (List.mem_cons_of_mem _ hj))]

theorem sliceList_getElem? {α} {l : List α} {sel : List Nat} (h : ∀ j ∈ sel, j < l.length)
    (t : Nat) : (sliceList l sel)[t]? = sel[t]?.bind (l[·]?) := by
  induction sel generalizing t with
  | nil => simp
  | cons i sel ih =>
    have hi := h i (by simp)
    rw [sliceList_cons_of_lt sel hi]
    cases t with
    | zero => simp [hi]
    | succ t => simpa using ih (fun j hj => h j (List.mem_cons_of_mem _ hj)) t

theorem sliceList_map {α β} (f : α → β) (l : List α) (sel : List Nat) :
    sliceList (l.map f) sel = (sliceList l sel).map f := by
  induction sel with
  | nil => rfl
  | cons i sel ih =>
    by_cases hi : i < l.length
    · rw [sliceList_cons_of_lt sel (by simpa using hi), sliceList_cons_of_lt sel hi, ih]
      simp
    · rw [sliceList_cons_of_ge sel (by simpa using hi), sliceList_cons_of_ge sel (by omega), ih]

theorem sliceList_range {α} (l : List α) : sliceList l (List.range l.length) = l := by
  apply List.ext_getElem?
  intro t
  rw [sliceList_getElem? (by simp)]
  by_cases ht : t < l.length
  · simp [ht]
  · simp [ht]

theorem sliceList_append {α} (l : List α) (s₁ s₂ : List Nat) :
    sliceList l (s₁ ++ s₂) = sliceList l s₁ ++ sliceList l s₂ := by
  simp [sliceList, List.filterMap_append]

theorem sliceList_reverse_sel {α} (l : List α) (sel : List Nat) :
    sliceList l sel.reverse = (sliceList l sel).reverse := by
  simp [sliceList, List.filterMap_reverse]

/-- **Composition of selections**: selecting from a selection is selecting by the composed
    index list.  Needs only that the first selection is in range. -/
theorem sliceList_sliceList {α} {l : List α} {s₁ : List Nat} (h : ∀ j ∈ s₁, j < l.length)
    (s₂ : List Nat) : sliceList (sliceList l s₁) s₂ = sliceList l (sliceList s₁ s₂) := by
  induction s₂ with
  | nil => rfl
  | cons t s₂ ih =>
    have hlen := sliceList_length h
    by_cases ht : t < s₁.length
    · have hmem : s₁[t] < l.length := h _ (List.getElem_mem ht)
      rw [sliceList_cons_of_lt s₂ (by omega), sliceList_cons_of_lt s₂ ht,
        sliceList_cons_of_lt _ hmem, ih]
      congr 1
      have := sliceList_getElem? h t
      rw [List.getElem?_eq_getElem (by omega), List.getElem?_eq_getElem ht] at this
      simpa [List.getElem?_eq_getElem hmem] using this
    · rw [sliceList_cons_of_ge s₂ (by omega), sliceList_cons_of_ge s₂ (by omega), ih]

/-- **C16**: nested Python slices compose like list slices. -/
theorem slice_slice {α} {l : List α} {n : Nat} (hl : l.length = n)
    {a b c a' b' c' : Option Int} {s₁ s₂ : List Nat}
    (h₁ : pySliceIdx n a b c = .ok s₁) (_h₂ : pySliceIdx s₁.length a' b' c' = .ok s₂) :
    sliceList (sliceList l s₁) s₂ = sliceList l (sliceList s₁ s₂) :=
  sliceList_sliceList (fun j hj => by rw [hl]; exact pySliceIdx_lt h₁ j hj) s₂

/-- the same for any way of producing the first selection (`resolveSlice`) -/
theorem slice_resolveSlice {α} {l : List α} {n : Nat} (hl : l.length = n)
    {inputKeys : Res (List String)} {spec : SliceSpec} {s₁ : List Nat}
    (hk : ∀ ks, inputKeys = .ok ks → ks.length = n)
    (h₁ : resolveSlice n inputKeys spec = .ok s₁) (s₂ : List Nat) :
    sliceList (sliceList l s₁) s₂ = sliceList l (sliceList s₁ s₂) :=
  sliceList_sliceList (fun j hj => by rw [hl]; exact resolveSlice_lt hk h₁ j hj) s₂

/-- the composed selection stays in range -/
theorem sliceList_sel_lt {n : Nat} {s₁ s₂ : List Nat} (h : ∀ j ∈ s₁, j < n) :
    ∀ j ∈ sliceList s₁ s₂, j < n := by
  intro j hj
  simp only [sliceList, List.mem_filterMap] at hj
  obtain ⟨t, _, ht⟩ := hj
  exact h j (List.mem_of_getElem? ht)

/-- `l[:]` is `l` and `l[::-1]` is `l.reverse` -/
theorem sliceList_full {α} (l : List α) {sel : List Nat}
    (h : pySliceIdx l.length none none none = .ok sel) : sliceList l sel = l := by
  rw [pySliceIdx_full] at h; cases h; exact sliceList_range l

theorem sliceList_reversed {α} (l : List α) {sel : List Nat}
    (h : pySliceIdx l.length none none (some (-1)) = .ok sel) : sliceList l sel = l.reverse := by
  rw [pySliceIdx_reverse] at h; cases h
  rw [sliceList_reverse_sel, sliceList_range]

/-- indexing a slice: `l[sel][t] = l[sel[t]]` (for non-negative `t`) -/
theorem pyIndex_sliceList {α} {l : List α} {sel : List Nat} (h : ∀ j ∈ sel, j < l.length)
    {t : Nat} (ht : t < sel.length) :
    pyIndex (sliceList l sel) (t : Int) = pyIndex l (sel[t] : Nat) := by
  have hlen := sliceList_length h
  have hm : sel[t] < l.length := h _ (List.getElem_mem ht)
  rw [pyIndex_lt' (by omega), pyIndex_lt' hm]
  congr 1
  have := sliceList_getElem? h t
  rw [List.getElem?_eq_getElem (by omega), List.getElem?_eq_getElem ht] at this
  simpa [List.getElem?_eq_getElem hm] using this

/-! ### closed forms for length and entries of a slice selection -/

theorem pySliceIdx_length_pos {n : Nat} {a b : Option Int} {st : Int} {sel : List Nat}
    (hst : 0 < st) (h : pySliceIdx n a b (some st) = .ok sel) :
    sel.length = (if clampBound n a 0 0 n < clampBound n b n 0 n then
      ((clampBound n b n 0 n - clampBound n a 0 0 n - 1) / st + 1).toNat else 0) := by
  rw [pySliceIdx_pos_eq n a b hst] at h
  cases h
  rw [progression_length]

theorem pySliceIdx_length_neg {n : Nat} {a b : Option Int} {st : Int} {sel : List Nat}
    (hst : st < 0) (h : pySliceIdx n a b (some st) = .ok sel) :
    sel.length = (if clampBound n b (-1) (-1) (n - 1) < clampBound n a (n - 1) (-1) (n - 1) then
      ((clampBound n a (n - 1) (-1) (n - 1) - clampBound n b (-1) (-1) (n - 1) - 1) / (-st)
        + 1).toNat else 0) := by
  rw [pySliceIdx_neg_eq n a b hst] at h
  cases h
  rw [progression_length]

/-- the `t`-th selected position is `start + t * step` (clamped start) -/
theorem pySliceIdx_getElem?_pos {n : Nat} {a b : Option Int} {st : Int} {sel : List Nat}
    (hst : 0 < st) (h : pySliceIdx n a b (some st) = .ok sel) {t : Nat} (ht : t < sel.length) :
    sel[t]? = some (clampBound n a 0 0 n + t * st).toNat := by
  rw [pySliceIdx_pos_eq n a b hst] at h
  cases h
  rw [progression_length] at ht
  exact progression_getElem? ht

theorem pySliceIdx_getElem?_neg {n : Nat} {a b : Option Int} {st : Int} {sel : List Nat}
    (hst : st < 0) (h : pySliceIdx n a b (some st) = .ok sel) {t : Nat} (ht : t < sel.length) :
    sel[t]? = some (clampBound n a (n - 1) (-1) (n - 1) + t * st).toNat := by
  rw [pySliceIdx_neg_eq n a b hst] at h
  cases h
  rw [progression_length] at ht
  exact progression_getElem? ht

theorem pySliceIdx_length_le {n : Nat} {a b c : Option Int} {sel : List Nat}
    (h : pySliceIdx n a b c = .ok sel) : sel.length ≤ n := by
  cases c with
  | none =>
    rw [pySliceIdx_spec_none] at h; cases h
    simpa using List.length_filter_le _ (List.range n)
  | some st =>
    rcases Int.lt_trichotomy st 0 with hs | hs | hs
    · rw [pySliceIdx_spec_neg n a b hs] at h; cases h
      rw [List.length_reverse]
      simpa using List.length_filter_le _ (List.range n)
    · subst hs; rw [pySliceIdx_step_zero] at h; cases h
    · rw [pySliceIdx_spec_pos n a b hs] at h; cases h
      simpa using List.length_filter_le _ (List.range n)

/-! ### sanity checks against CPython (`list(range(n))[a:b:c]`) -/

example : pySliceIdx 10 (some 1) (some 8) (some 3) = .ok [1, 4, 7] := rfl
example : pySliceIdx 10 (some (-3)) none none = .ok [7, 8, 9] := rfl
example : pySliceIdx 10 none (some (-20)) (some (-4)) = .ok [9, 5, 1] := rfl
example : pySliceIdx 10 (some 7) (some 2) (some (-2)) = .ok [7, 5, 3] := rfl
example : pySliceIdx 10 (some 20) (some (-11)) (some (-3)) = .ok [9, 6, 3, 0] := rfl
example : pySliceIdx 10 (some 5) (some 2) none = .ok [] := rfl
example : pySliceIdx 0 none none (some (-1)) = .ok [] := rfl
example : pySliceIdx 5 (some (-1)) (some (-6)) (some (-1)) = .ok [4, 3, 2, 1, 0] := rfl
example : resolveIdx 5 [-1, 0, -5, 4] = .ok [4, 0, 0, 4] := rfl
example : resolveIdx 5 [5] = .error .indexError := rfl
example : resolveKeys ["a", "b", "a"] ["a", "b"] = .ok [2, 1] := rfl
example : pyIndex [10, 20, 30] (-3) = .ok 10 := rfl
example : pyIndex [10, 20, 30] (-4) = .error .indexError := rfl

end LazyDs

import LazyDs.Lemmas.Sound
import LazyDs.Props.C15
/-
  Helper lemmas for C16 ("structurally different pipelines that denote the same computation are
  observationally equal"), all on the reference data `RefDS` of `Spec/Ref.lean`:

  * generator loops compose (`mapM_mapM`, `ofOuts_mapM`, `ofOuts_append`, `append_mapM`);
  * `map` commutes with `map`, `concat`, `slice` (hence `mkSlice`, shuffle, split, shard, sort), `cache`;
  * `batch` then `unbatch` (`unbatch_batchStream`), `split` then `concat` (`concat_split_eq`),
    slice of a slice (`slice_slice_eq`, `mkSlice_mkSlice_eq`);
  * filter and order-preserving selection on plain lists (`sliceList_filter`, `filter_select_comm`);
  * `map` and `batch`: positionally (`map_batch_outs`) and for iteration (`map_batchStream_keep`,
    `map_batchStream_total`);
  * the transfer principle `obsEq_of_ref_eq`: two admissible pipelines with the same reference
    semantics build observationally equal model datasets (via `build_ref`).
-/
namespace LazyDs

/-! ### generator loops compose -/

theorem mapMAux_nil {α β} (f : α → Res β) (e : Option Err) : Stream.mapMAux f [] e = ⟨[], e⟩ := rfl

theorem mapMAux_mapMAux {α β γ} (f : α → Res β) (g : β → Res γ) (e : Option Err) :
    ∀ l : List α, Stream.mapMAux g (Stream.mapMAux f l e).vals (Stream.mapMAux f l e).err
      = Stream.mapMAux (fun a => f a >>= g) l e
  | [] => rfl
  | x :: l => by
    have ih := mapMAux_mapMAux f g e l
    cases hfx : f x with
    | error e' => simp [Stream.mapMAux, hfx, bind, Except.bind]
    | ok y =>
      simp only [Stream.mapMAux, hfx, bind, Except.bind]
      cases hgy : g y with
      | error e'' => rfl
      | ok z => simp only [ih]; rfl

theorem mapM_mapM {α β γ} (f : α → Res β) (g : β → Res γ) (s : Stream α) :
    (s.mapM f).mapM g = s.mapM (fun a => f a >>= g) := by
  unfold Stream.mapM
  exact mapMAux_mapMAux f g s.err s.vals

theorem ofOuts_mapM {α β} (f : α → Res β) : ∀ l : List (Res α),
    (Stream.ofOuts l).mapM f = Stream.ofOuts (l.map (· >>= f))
  | [] => rfl
  | .error e :: l => rfl
  | .ok v :: l => by
    have ih := ofOuts_mapM f l
    unfold Stream.mapM at ih ⊢
    simp only [Stream.ofOuts, List.map_cons, Stream.mapMAux, bind, Except.bind]
    cases hfv : f v with
    | error e => rfl
    | ok w => simp only [ih]; rfl

theorem ofOuts_append {α} : ∀ (a b : List (Res α)),
    Stream.ofOuts (a ++ b) = (Stream.ofOuts a).append (Stream.ofOuts b)
  | [], b => by simp [Stream.ofOuts, Stream.append]
  | .error e :: a, b => by simp [Stream.ofOuts, Stream.append]
  | .ok v :: a, b => by
    have ih := ofOuts_append a b
    simp only [List.cons_append, Stream.ofOuts, ih, Stream.append]
    cases (Stream.ofOuts a).err <;> simp

theorem ofOuts_flatten {α} : ∀ (ls : List (List (Res α))),
    ls.foldr (fun l acc => (Stream.ofOuts l).append acc) .nil = Stream.ofOuts ls.flatten
  | [] => rfl
  | l :: ls => by
    simp only [List.foldr_cons, List.flatten_cons, ofOuts_append, ofOuts_flatten ls]

theorem mapMAux_err_append {α β} (f : α → Res β) (l : List α) (e : Err) (t : Stream β) :
    (Stream.mapMAux f l (some e)).append t = Stream.mapMAux f l (some e) := by
  have h := mapMAux_err_some f l e
  unfold Stream.append
  cases he : (Stream.mapMAux f l (some e)).err with
  | none => exact absurd he h
  | some e' => simp [← he]

theorem mapMAux_append {α β} (f : α → Res β) (e : Option Err) : ∀ (l₁ l₂ : List α),
    Stream.mapMAux f (l₁ ++ l₂) e = (Stream.mapMAux f l₁ none).append (Stream.mapMAux f l₂ e)
  | [], l₂ => by simp [Stream.mapMAux, Stream.append]
  | x :: l₁, l₂ => by
    have ih := mapMAux_append f e l₁ l₂
    cases hfx : f x with
    | error e' => simp [Stream.mapMAux, hfx, Stream.append]
    | ok y =>
      simp only [List.cons_append, Stream.mapMAux, hfx, ih, Stream.append]
      cases (Stream.mapMAux f l₁ none).err <;> simp

theorem append_mapM {α β} (f : α → Res β) (s t : Stream α) :
    (s.append t).mapM f = (s.mapM f).append (t.mapM f) := by
  unfold Stream.mapM
  cases he : s.err with
  | some e =>
    rw [mapMAux_err_append]
    simp only [Stream.append, he]
  | none =>
    simp only [Stream.append, he]
    exact mapMAux_append f t.err s.vals t.vals

theorem foldr_append_mapM {α β} {ι} (f : α → Res β) (g : ι → Stream α) : ∀ (rs : List ι),
    (rs.foldr (fun r acc => (g r).append acc) .nil).mapM f
      = rs.foldr (fun r acc => ((g r).mapM f).append acc) .nil
  | [] => rfl
  | r :: rs => by
    simp only [List.foldr_cons, append_mapM, foldr_append_mapM f g rs]


/-! ### map ∘ map -/

theorem pairFn_comp (f g : Val → Res Val) :
    (fun kv : String × Val =>
      (do let v ← f kv.2; .ok (kv.1, v) : Res (String × Val)) >>=
        fun kv' => (do let v ← g kv'.2; .ok (kv'.1, v) : Res (String × Val)))
    = fun kv => (do let v ← (f kv.2 >>= g); .ok (kv.1, v) : Res (String × Val)) := by
  funext kv
  cases f kv.2 <;> rfl

theorem map_map_eq (f g : Val → Res Val) (r : RefDS) :
    Ref.map g (Ref.map f r) = Ref.map (fun v => f v >>= g) r := by
  unfold Ref.map
  simp only [RefDS.mk.injEq, true_and, and_true, List.map_map, mapM_mapM]
  refine ⟨?_, ?_⟩
  · apply List.map_congr_left
    intro o _
    cases o <;> rfl
  · rw [pairFn_comp]

/-! ### map over concat -/

theorem sumLens_map (f : Val → Res Val) : ∀ rs : List RefDS,
    Ref.sumLens (rs.map (Ref.map f)) = Ref.sumLens rs
  | [] => rfl
  | r :: rs => by
    simp only [List.map_cons, Ref.sumLens, sumLens_map f rs]
    rfl

theorem mapM_keys_map (f : Val → Res Val) : ∀ rs : List RefDS,
    (rs.map (Ref.map f)).mapM (·.keys) = rs.mapM (·.keys)
  | [] => rfl
  | r :: rs => by
    simp only [List.map_cons, List.mapM_cons, mapM_keys_map f rs]
    rfl

theorem map_concat_eq (f : Val → Res Val) (rs : List RefDS) :
    Ref.map f (Ref.concat rs) = Ref.concat (rs.map (Ref.map f)) := by
  simp only [Ref.map, Ref.concat, RefDS.mk.injEq]
  refine ⟨?_, ?_, ?_, ?_, ?_, ?_⟩
  · simp only [List.all_map]; rfl
  · simp only [List.map_flatten, List.map_map]; rfl
  · rw [foldr_append_mapM, List.foldr_map]; rfl
  · rw [foldr_append_mapM, List.foldr_map]; rfl
  · simp only [Ref.concatKeys, mapM_keys_map f rs]
  · exact (sumLens_map f rs).symm


/-! ### map over slices -/

theorem outAt_map_bind (f : Val → Res Val) (l : List (Res Val)) (i : Int) :
    outAt (l.map (· >>= f)) i = (outAt l i >>= f) :=
  outAt_map' (· >>= f) (fun _ => rfl) l i

theorem pair_bind (f : Val → Res Val) (K : Res String) (O : Res Val) :
    ((do let k ← K; let v ← O; .ok (k, v) : Res (String × Val)) >>=
        fun kv => (do let v ← f kv.2; .ok (kv.1, v) : Res (String × Val)))
    = (do let k ← K; let v ← (O >>= f); .ok (k, v) : Res (String × Val)) := by
  cases K with
  | error e => rfl
  | ok k =>
    cases O with
    | error e => rfl
    | ok v => cases h : f v <;> simp [bind, Except.bind, h]

theorem selectK_map (f : Val → Res Val) (keys : Res (List String)) (outs : List (Res Val)) (sel : List Nat) :
    Ref.selectK keys (outs.map (· >>= f)) sel
      = (Ref.selectK keys outs sel).mapM (fun kv => do let v ← f kv.2; .ok (kv.1, v)) := by
  unfold Ref.selectK
  cases keys with
  | error e => rfl
  | ok ks =>
    simp only [ofOuts_mapM, List.map_map]
    congr 1
    apply List.map_congr_left
    intro j _
    simp only [Function.comp, outAt_map_bind]
    exact (pair_bind f _ _).symm

theorem map_slice_eq (f : Val → Res Val) (sel : List Nat) (r : RefDS) :
    Ref.slice sel (Ref.map f r) = Ref.map f (Ref.slice sel r) := by
  have houts : sel.map (fun (j : Nat) => outAt (r.outs.map (· >>= f)) (j : Int))
      = (sel.map (fun (j : Nat) => outAt r.outs (j : Int))).map (· >>= f) := by
    rw [List.map_map]
    apply List.map_congr_left
    intro j _
    exact outAt_map_bind f r.outs j
  simp only [Ref.slice, Ref.map, RefDS.mk.injEq, true_and, and_true]
  refine ⟨houts, ?_, selectK_map f _ _ _⟩
  rw [ofOuts_mapM, houts]

/-- `Ref.mkSlice` without the `do` sugar -/
theorem mkSlice_unfold (spec : SliceSpec) (r : RefDS) :
    Ref.mkSlice spec r =
      if r.indexable = true then
        match r.len with
        | .error e => .error e
        | .ok n =>
          match resolveSlice n r.keys spec with
          | .error e => .error e
          | .ok sel => .ok (Ref.slice sel r)
      else .error .runtimeError := by
  unfold Ref.mkSlice
  cases r.indexable with
  | false => rfl
  | true =>
    simp only [Bool.not_true, Bool.false_eq_true, if_false, if_true, bind, Except.bind]
    cases r.len with
    | error e => rfl
    | ok n =>
      simp only []
      cases resolveSlice n r.keys spec <;> rfl

theorem map_mkSlice_eq (f : Val → Res Val) (spec : SliceSpec) (r : RefDS) :
    Ref.mkSlice spec (Ref.map f r) = (Ref.mkSlice spec r).map (Ref.map f) := by
  rw [mkSlice_unfold, mkSlice_unfold]
  have h1 : (Ref.map f r).indexable = r.indexable := rfl
  have h2 : (Ref.map f r).len = r.len := rfl
  have h3 : (Ref.map f r).keys = r.keys := rfl
  rw [h1, h2, h3]
  cases r.indexable with
  | false => rfl
  | true =>
    cases r.len with
    | error e => rfl
    | ok n =>
      simp only [if_true]
      cases resolveSlice n r.keys spec with
      | error e => rfl
      | ok sel => simp only [Except.map, map_slice_eq]

theorem map_mkShuffleOnce_eq (f : Val → Res Val) (perm : List Nat) (r : RefDS) :
    Ref.mkShuffleOnce perm (Ref.map f r) = (Ref.mkShuffleOnce perm r).map (Ref.map f) := by
  unfold Ref.mkShuffleOnce
  have h2 : (Ref.map f r).len = r.len := rfl
  rw [h2]
  cases r.len with
  | error e => rfl
  | ok n => simp only [bind, Except.bind, map_mkSlice_eq]

theorem mapM_map_res {α β γ} (g : α → Res β) (h : β → γ) : ∀ l : List α,
    l.mapM (fun a => (g a).map h) = (l.mapM g).map (List.map h)
  | [] => rfl
  | a :: l => by
    simp only [List.mapM_cons, mapM_map_res g h l]
    cases g a with
    | error e => rfl
    | ok b => cases l.mapM g <;> rfl

theorem map_mkSplit_eq (f : Val → Res Val) (k : Int) (r : RefDS) :
    Ref.mkSplit k (Ref.map f r) = (Ref.mkSplit k r).map (List.map (Ref.map f)) := by
  unfold Ref.mkSplit
  have h2 : (Ref.map f r).len = r.len := rfl
  rw [h2]
  by_cases hk : k < 1
  · simp [hk, bind, Except.bind, throw, throwThe, MonadExceptOf.throw, Except.map]
  · simp only [hk, if_false, bind, Except.bind]
    cases r.len with
    | error e => rfl
    | ok n =>
      by_cases hkn : k > (n : Int)
      · simp [hkn, throw, throwThe, MonadExceptOf.throw, Except.map]
      · simp only [hkn, if_false, map_mkSlice_eq]
        exact mapM_map_res _ _ _

theorem map_mkShard_eq (f : Val → Res Val) (k i : Int) (r : RefDS) :
    Ref.mkShard k i (Ref.map f r) = (Ref.mkShard k i r).map (Ref.map f) := by
  unfold Ref.mkShard
  rw [map_mkSplit_eq]
  cases Ref.mkSplit k r with
  | error e => rfl
  | ok parts =>
    simp only [Except.map, bind, Except.bind, pyIndex_map]

theorem map_mkSort_keys_eq (f : Val → Res Val) (rev : Bool) (r : RefDS) :
    Ref.mkSort none rev (Ref.map f r) = (Ref.mkSort none rev r).map (Ref.map f) := by
  unfold Ref.mkSort
  have h3 : (Ref.map f r).keys = r.keys := rfl
  simp only [h3]
  cases r.keys with
  | error e => simp only []; split <;> rfl
  | ok ks => simp only [map_mkSlice_eq]

/-! ### map over cache -/

theorem map_cache_eq (f : Val → Res Val) (r : RefDS) :
    Ref.cache (Ref.map f r) = Ref.map f (Ref.cache r) := by
  simp only [Ref.cache, Ref.map, RefDS.mk.injEq, true_and, and_true]
  refine ⟨?_, ?_⟩
  · cases r.len with
    | error e => rfl
    | ok n => simp only [ofOuts_mapM]
  · cases r.keys with
    | error e => rfl
    | ok ks =>
      cases r.len with
      | error e => rfl
      | ok n =>
        simp only [ofOuts_mapM, List.map_map, List.length_map]
        congr 1
        apply List.map_congr_left
        intro j _
        simp only [Function.comp, outAt_map_bind]
        exact (pair_bind f _ _).symm


/-! ### map over sort by a key function -/

theorem mapMAux_total_key {α β γ} (f : α → Res β) (key : β → Res γ) (key' : α → Res γ) (e : Option Err) :
    ∀ l : List α, (∀ v ∈ l, ∃ w, f v = .ok w ∧ key w = key' v) →
      ∃ ws, Stream.mapMAux f l e = ⟨ws, e⟩ ∧ ws.mapM key = l.mapM key'
  | [], _ => ⟨[], rfl, rfl⟩
  | x :: l, h => by
    obtain ⟨w, hw, hk⟩ := h x List.mem_cons_self
    obtain ⟨ws, hws, hks⟩ := mapMAux_total_key f key key' e l (fun v hv => h v (List.mem_cons_of_mem _ hv))
    refine ⟨w :: ws, ?_, ?_⟩
    · simp only [Stream.mapMAux, hw, hws]
    · simp only [List.mapM_cons, hk, hks]

theorem map_mkSort_key_eq (f key key' : Val → Res Val) (rev : Bool) (r : RefDS)
    (hf : ∀ v ∈ r.stream.vals, ∃ w, f v = .ok w ∧ key w = key' v) :
    Ref.mkSort (some key) rev (Ref.map f r) = (Ref.mkSort (some key') rev r).map (Ref.map f) := by
  obtain ⟨ws, hws, hks⟩ := mapMAux_total_key f key key' r.stream.err r.stream.vals hf
  unfold Ref.mkSort
  have hs : (Ref.map f r).stream = ⟨ws, r.stream.err⟩ := hws
  simp only [hs, streamToRes, bind, Except.bind, hks]
  cases r.stream.vals.mapM key' with
  | error e => rfl
  | ok kv =>
    simp only []
    cases r.stream.err with
    | some e => rfl
    | none =>
      simp only []
      cases asInts kv with
      | some is => simp only [map_mkSlice_eq]
      | none =>
        simp only []
        cases asStrs kv with
        | some ss => simp only [map_mkSlice_eq]
        | none =>
          simp only []
          split
          · simp only [map_mkSlice_eq]
          · rfl


/-! ### batch then unbatch -/

theorem unbatchAux_lists : ∀ (cs : List (List Val)) (e : Option Err),
    unbatchAux (cs.map Val.list) e = ⟨cs.flatten, e⟩
  | [], e => rfl
  | c :: cs, e => by
    simp only [List.map_cons, unbatchAux, unbatchAux_lists cs e, List.flatten_cons]

/-- the first `k` chunks of size `n` together are the first `k * n` elements -/
theorem chunks_take_flatten {α} {n : Nat} (hn : 1 ≤ n) : ∀ (fuel : Nat) (l : List α) (k : Nat), l.length < fuel →
    ((Ref.chunks n l fuel).take k).flatten = l.take (k * n)
  | 0, l, k, h => by omega
  | fuel + 1, [], k, _ => by simp [Ref.chunks]
  | fuel + 1, a :: l, 0, _ => by simp
  | fuel + 1, a :: l, k + 1, h => by
    simp only [Ref.chunks, List.isEmpty_cons, Bool.false_eq_true, if_false, List.take_succ_cons,
      List.flatten_cons]
    have hlen : ((a :: l).drop n).length < fuel := by
      simp only [List.length_drop, List.length_cons] at h ⊢; omega
    rw [chunks_take_flatten hn fuel _ k hlen, Nat.succ_mul, Nat.add_comm (k * n) n, List.take_add]

/-- with `drop_last` the batches together are the longest prefix whose length is a multiple of `n` -/
theorem chunkAux_true_flatten {α} {n : Nat} (hn : 1 ≤ n) (l : List α) :
    (chunkAux n true l []).flatten = l.take (l.length / n * n) := by
  rw [chunkAux_dropLast hn, chunks_filter_full hn _ _ (Nat.lt_add_one _),
    chunks_take_flatten hn _ _ _ (Nat.lt_add_one _)]

/-- `batch(n).unbatch()` on streams, general form -/
theorem unbatch_batchStream {n : Nat} (hn : 1 ≤ n) (dl : Bool) (s : Stream Val) :
    unbatchAux (batchStream n dl s).vals (batchStream n dl s).err =
      if dl = false ∧ s.err = none then ⟨s.vals, none⟩
      else ⟨s.vals.take (s.vals.length / n * n), s.err⟩ := by
  unfold batchStream
  cases he : s.err with
  | some e =>
    simp only [unbatchAux_lists, chunkAux_true_flatten hn]
    simp
  | none =>
    cases dl with
    | false => simp only [unbatchAux_lists, chunkAux_flatten hn]; simp
    | true => simp only [unbatchAux_lists, chunkAux_true_flatten hn]; simp


/-! ### split then concatenate -/

theorem ref_mkSlice_idx_ok {r : RefDS} {n : Nat} (hi : r.indexable = true) (hl : r.len = .ok n)
    (l : List Nat) (h : ∀ x ∈ l, x < n) :
    Ref.mkSlice (.idx (l.map Int.ofNat)) r = .ok (Ref.slice l r) := by
  rw [mkSlice_unfold]
  simp only [hi, if_true, hl, resolveSlice, resolveIdx_ofNat h]

/-- `split(k)` of an indexable reference dataset: the parts are the slices by the sections of
    `np.array_split` (the reference-level counterpart of `C15_split_parts`) -/
theorem ref_mkSplit_parts {r : RefDS} {n : Nat} (hi : r.indexable = true) (hl : r.len = .ok n)
    {k : Int} {parts : List RefDS} (h : Ref.mkSplit k r = .ok parts) :
    1 ≤ k ∧ k ≤ (n : Int) ∧
      parts = (List.range k.toNat).map (fun i => Ref.slice (sectionIdx n k.toNat i) r) := by
  unfold Ref.mkSplit at h
  by_cases h1 : k < 1
  · simp [h1, bind, Except.bind, throw, throwThe, MonadExceptOf.throw] at h
  · by_cases h2 : k > (n : Int)
    · simp [h1, h2, hl, bind, Except.bind, throw, throwThe, MonadExceptOf.throw] at h
    · simp only [h1, h2, hl, bind, Except.bind, if_false] at h
      refine ⟨by omega, by omega, ?_⟩
      have hk' : 1 ≤ k.toNat := by omega
      have := ShardSort.mapM_ok
        (fun i => Ref.mkSlice (.idx ((sectionIdx n k.toNat i).map Int.ofNat)) r)
        (fun i => Ref.slice (sectionIdx n k.toNat i) r) (List.range k.toNat) (by
          intro i hi'
          have hi'' : i < k.toNat := List.mem_range.mp hi'
          apply ref_mkSlice_idx_ok hi hl
          intro x hx
          have h3 := (ShardSort.mem_sectionIdx.mp hx).2
          have h4 := ShardSort.sectionStart_le n k.toNat (i + 1) hk' hi''
          omega)
      rw [this] at h
      injection h with h
      exact h.symm

theorem sumLens_slices (r : RefDS) : ∀ (sels : List (List Nat)),
    Ref.sumLens (sels.map (fun s => Ref.slice s r)) = .ok sels.flatten.length
  | [] => rfl
  | s :: sels => by
    have ih := sumLens_slices r sels
    simp only [List.map_cons, Ref.sumLens, bind, Except.bind, List.flatten_cons, List.length_append]
    rw [ih]
    rfl

theorem concat_split_eq {r : RefDS} (hi : r.indexable = true) (hl : r.len = .ok r.outs.length)
    {k : Int} {parts : List RefDS} (h : Ref.mkSplit k r = .ok parts) :
    (Ref.concat parts).outs = r.outs ∧ (Ref.concat parts).stream = .ofOuts r.outs ∧
      (Ref.concat parts).len = r.len ∧ (Ref.concat parts).indexable = true := by
  obtain ⟨hk1, hkn, rfl⟩ := ref_mkSplit_parts hi hl h
  have hk' : 1 ≤ k.toNat := by omega
  have hcat := C15_sections_concat r.outs.length k.toNat hk'
  have houts : ((List.range k.toNat).map (fun i =>
      (sectionIdx r.outs.length k.toNat i).map (fun (j : Nat) => outAt r.outs (j : Int)))).flatten = r.outs := by
    have : (List.range k.toNat).map (fun i =>
        (sectionIdx r.outs.length k.toNat i).map (fun (j : Nat) => outAt r.outs (j : Int)))
        = ((List.range k.toNat).map (sectionIdx r.outs.length k.toNat)).map
            (List.map (fun (j : Nat) => outAt r.outs (j : Int))) := by
      rw [List.map_map]; rfl
    rw [this, ← List.map_flatten, hcat, range_map_outAt]
  refine ⟨?_, ?_, ?_, ?_⟩
  · simp only [Ref.concat, List.map_map]
    exact houts
  · simp only [Ref.concat, List.foldr_map]
    have := ofOuts_flatten ((List.range k.toNat).map (fun i =>
      (sectionIdx r.outs.length k.toNat i).map (fun (j : Nat) => outAt r.outs (j : Int))))
    rw [houts, List.foldr_map] at this
    exact this
  · have := sumLens_slices r ((List.range k.toNat).map (sectionIdx r.outs.length k.toNat))
    rw [hcat, List.map_map, List.length_range] at this
    simp only [Ref.concat, hl]
    exact this
  · simp [Ref.concat, Ref.slice]


/-! ### slice of a slice -/

theorem pyIndex_map_lt {α β} (g : α → β) (l : List α) (j : Nat) (h : j < l.length) :
    pyIndex (l.map g) (j : Int) = .ok (g l[j]) := by
  rw [pyIndex_lt (l.map g) j (by simpa using h)]
  simp

theorem getElem!_lt {l : List Nat} {j : Nat} (h : j < l.length) : l[j]! = l[j] := by
  simp [h]

theorem selectKeys_ok_eq (ks : List String) (sel : List Nat) (hsel : ∀ j ∈ sel, j < ks.length) :
    Ref.selectKeys (.ok ks) sel = .ok (sel.map (fun j => ks[j]?.getD "")) := by
  unfold Ref.selectKeys
  simp only [bind, Except.bind]
  apply ShardSort.mapM_ok
  intro j hj
  have := hsel j hj
  rw [pyIndex_lt ks j this]
  simp [this]

theorem slice_slice_eq {r : RefDS} {s₁ s₂ : List Nat}
    (hk : ∀ ks, r.keys = .ok ks → ks.length = r.outs.length)
    (h₁ : ∀ j ∈ s₁, j < r.outs.length) (h₂ : ∀ j ∈ s₂, j < s₁.length) :
    Ref.slice s₂ (Ref.slice s₁ r) = Ref.slice (s₂.map (fun j => s₁[j]!)) r := by
  have houts : s₂.map (fun (j : Nat) => outAt (s₁.map (fun (j : Nat) => outAt r.outs (j : Int))) (j : Int))
      = (s₂.map (fun j => s₁[j]!)).map (fun (j : Nat) => outAt r.outs (j : Int)) := by
    rw [List.map_map]
    apply List.map_congr_left
    intro j hj
    have hj' := h₂ j hj
    simp only [Function.comp, outAt, pyIndex_map_lt _ s₁ j hj', getElem!_lt hj']
  simp only [Ref.slice, RefDS.mk.injEq, true_and, List.length_map, and_true]
  refine ⟨houts, by rw [houts], ?_, ?_⟩
  · -- kstream
    cases hks : r.keys with
    | error e => rfl
    | ok ks =>
      have hlen := hk ks hks
      rw [selectKeys_ok_eq ks s₁ (by rw [hlen]; exact h₁)]
      simp only [Ref.selectK, List.map_map]
      congr 1
      apply List.map_congr_left
      intro j hj
      have hj' := h₂ j hj
      simp only [Function.comp, outAt, pyIndex_map_lt _ s₁ j hj', getElem!_lt hj']
      have hlt : s₁[j] < ks.length := by rw [hlen]; exact h₁ _ (List.getElem_mem _)
      rw [pyIndex_lt ks s₁[j] hlt]
      simp [hlt]
  · -- keys
    cases hks : r.keys with
    | error e => rfl
    | ok ks =>
      have hlen := hk ks hks
      rw [selectKeys_ok_eq ks s₁ (by rw [hlen]; exact h₁)]
      rw [selectKeys_ok_eq _ s₂ (by simpa using h₂)]
      rw [selectKeys_ok_eq ks _ (by
        intro j hj
        simp only [List.mem_map] at hj
        obtain ⟨t, ht, rfl⟩ := hj
        rw [hlen, getElem!_lt (h₂ t ht)]
        exact h₁ _ (List.getElem_mem _))]
      congr 1
      rw [List.map_map]
      apply List.map_congr_left
      intro j hj
      have hj' := h₂ j hj
      simp [hj']


/-! ### the key table of the concatenated parts of `split` -/

theorem range_map_getD_str (ks : List String) :
    (List.range ks.length).map (fun j => ks[j]?.getD "") = ks := by
  apply List.ext_getElem
  · simp
  · intro t h1 h2
    simp [h2]

/-- the key table of the concatenated parts of `split(k)`: the key table of the input, unless it has
    duplicates (then `ConcatenateDataset.keys()` raises its `AssertionError`) -/
theorem concat_split_keys {r : RefDS} (hi : r.indexable = true) (hl : r.len = .ok r.outs.length)
    (hk : ∀ ks, r.keys = .ok ks → ks.length = r.outs.length)
    {k : Int} {parts : List RefDS} (h : Ref.mkSplit k r = .ok parts) :
    (Ref.concat parts).keys =
      match r.keys with
      | .error e => .error e
      | .ok ks => if hasDup ks then .error .assertionError else .ok ks := by
  obtain ⟨hk1, hkn, rfl⟩ := ref_mkSplit_parts hi hl h
  have hk' : 1 ≤ k.toNat := by omega
  have hcat := C15_sections_concat r.outs.length k.toNat hk'
  simp only [Ref.concat, Ref.concatKeys, List.mapM_map]
  cases hks : r.keys with
  | error e =>
    obtain ⟨m, hm⟩ : ∃ m, k.toNat = m + 1 := ⟨k.toNat - 1, by omega⟩
    rw [hm, List.range_succ_eq_map, List.mapM_cons]
    simp only [Function.comp, Ref.slice, Ref.selectKeys, hks]
    rfl
  | ok ks =>
    have hlen := hk ks hks
    have hm := ShardSort.mapM_ok
      ((fun x : RefDS => x.keys) ∘ fun i => Ref.slice (sectionIdx r.outs.length k.toNat i) r)
      (fun i => (sectionIdx r.outs.length k.toNat i).map (fun j => ks[j]?.getD ""))
      (List.range k.toNat) (by
        intro i hi'
        have hi'' : i < k.toNat := List.mem_range.mp hi'
        simp only [Function.comp, Ref.slice, hks]
        apply selectKeys_ok_eq
        intro x hx
        have h3 := (ShardSort.mem_sectionIdx.mp hx).2
        have h4 := ShardSort.sectionStart_le r.outs.length k.toNat (i + 1) hk' hi''
        omega)
    rw [hm]
    have hflat : ((List.range k.toNat).map (fun i =>
        (sectionIdx r.outs.length k.toNat i).map (fun j => ks[j]?.getD ""))).flatten = ks := by
      have : (List.range k.toNat).map (fun i =>
          (sectionIdx r.outs.length k.toNat i).map (fun j => ks[j]?.getD ""))
          = ((List.range k.toNat).map (sectionIdx r.outs.length k.toNat)).map
              (List.map (fun j => ks[j]?.getD "")) := by
        rw [List.map_map]; rfl
      rw [this, ← List.map_flatten, hcat, ← hlen, range_map_getD_str]
    simp only [bind, Except.bind, hflat]

theorem mkSlice_ok_inv {spec : SliceSpec} {r r' : RefDS} (h : Ref.mkSlice spec r = .ok r') :
    r.indexable = true ∧ ∃ n sel, r.len = .ok n ∧ resolveSlice n r.keys spec = .ok sel ∧
      r' = Ref.slice sel r := by
  rw [mkSlice_unfold] at h
  cases hi : r.indexable with
  | false => simp [hi] at h
  | true =>
    simp only [hi, if_true] at h
    cases hl : r.len with
    | error e => simp [hl] at h
    | ok n =>
      simp only [hl] at h
      cases hs : resolveSlice n r.keys spec with
      | error e => simp [hs] at h
      | ok sel =>
        simp only [hs] at h
        injection h with h
        exact ⟨rfl, n, sel, rfl, hs, h.symm⟩

/-- `ds[spec₁][spec₂]` is `ds[composed selection]` -/
theorem mkSlice_mkSlice_eq {r r₁ r₂ : RefDS} (hw : RefWF2 r) {spec₁ spec₂ : SliceSpec}
    (h1 : Ref.mkSlice spec₁ r = .ok r₁) (h2 : Ref.mkSlice spec₂ r₁ = .ok r₂) :
    ∃ s₁ s₂, resolveSlice r.outs.length r.keys spec₁ = .ok s₁ ∧
      resolveSlice s₁.length r₁.keys spec₂ = .ok s₂ ∧
      r₁ = Ref.slice s₁ r ∧ r₂ = Ref.slice (sliceList s₁ s₂) r ∧
      (∀ j ∈ sliceList s₁ s₂, j < r.outs.length) := by
  obtain ⟨hi, n, s₁, hl, hs₁, rfl⟩ := mkSlice_ok_inv h1
  obtain ⟨_, n', s₂, hl', hs₂, rfl⟩ := mkSlice_ok_inv h2
  have hn : n = r.outs.length := by
    have := hw.lenOuts hi
    rw [this] at hl
    injection hl with hl
    exact hl.symm
  subst hn
  have hn' : n' = s₁.length := by
    simp only [Ref.slice] at hl'
    injection hl' with hl'
    exact hl'.symm
  subst hn'
  have hlt₁ : ∀ j ∈ s₁, j < r.outs.length :=
    resolveSlice_lt (fun ks hk => hw.keysLen hi ks hk) hs₁
  have hw₁ : RefWF2 (Ref.slice s₁ r) := wf2_slice s₁ hw hi hlt₁
  have hlt₂ : ∀ j ∈ s₂, j < s₁.length :=
    resolveSlice_lt (fun ks hk => by
      have := hw₁.keysLen rfl ks hk
      simpa [Ref.slice] using this) hs₂
  refine ⟨s₁, s₂, hs₁, hs₂, rfl, ?_, sliceList_sel_lt hlt₁⟩
  rw [slice_slice_eq (fun ks hk => hw.keysLen hi ks hk) hlt₁ hlt₂, sliceList_eq_map hlt₂]


/-! ### filter and order-preserving selection -/

/-- filtering a selection = selecting by the filtered index list (any index list) -/
theorem sliceList_filter {α} [Inhabited α] (l : List α) (p : α → Bool) : ∀ (sel : List Nat),
    (sliceList l sel).filter p = sliceList l (sel.filter (fun j => p l[j]!))
  | [] => rfl
  | i :: sel => by
    have ih := sliceList_filter l p sel
    by_cases hi : i < l.length
    · rw [sliceList_cons_of_lt sel hi, List.filter_cons, List.filter_cons]
      have : l[i]! = l[i] := by simp [hi]
      rw [this]
      split
      · rw [sliceList_cons_of_lt _ hi, ih]
      · exact ih
    · have hge : l.length ≤ i := by omega
      rw [sliceList_cons_of_ge sel hge, List.filter_cons]
      split
      · rw [sliceList_cons_of_ge _ hge, ih]
      · exact ih

/-- `filter` is the selection of the positions that satisfy the predicate -/
theorem filter_eq_sliceList {α} [Inhabited α] (l : List α) (p : α → Bool) :
    l.filter p = sliceList l ((List.range l.length).filter (fun j => p l[j]!)) := by
  rw [← sliceList_filter, sliceList_range]

/-- a strictly increasing in-range index list is the mask selection of its members -/
theorem sorted_eq_range_filter {sel : List Nat} {n : Nat} (hs : sel.Pairwise (· < ·))
    (hlt : ∀ j ∈ sel, j < n) : sel = (List.range n).filter (sel.contains ·) := by
  apply eq_of_sorted_of_mem_iff hs (List.Pairwise.filter _ List.pairwise_lt_range)
  intro x
  simp only [List.mem_filter, List.mem_range, List.contains_iff_mem]
  exact ⟨fun h => ⟨hlt x h, h⟩, fun h => h.2⟩

/-- filter commutes with order-preserving selection, on index lists -/
theorem filter_select_comm {α} [Inhabited α] (l : List α) (p : α → Bool) {sel : List Nat}
    (hs : sel.Pairwise (· < ·)) (hlt : ∀ j ∈ sel, j < l.length) :
    sel.filter (fun j => p l[j]!)
      = ((List.range l.length).filter (fun j => p l[j]!)).filter (sel.contains ·) := by
  conv => lhs; rw [sorted_eq_range_filter hs hlt]
  rw [List.filter_filter, List.filter_filter]
  apply List.filter_congr
  intro x _
  exact Bool.and_comm _ _

theorem filterMAux_total {α} (f : α → Res Bool) (q : α → Bool) (e : Option Err) : ∀ (l : List α),
    (∀ v ∈ l, f v = .ok (q v)) → Stream.filterMAux f l e = ⟨l.filter q, e⟩
  | [], _ => rfl
  | x :: l, h => by
    have hx := h x List.mem_cons_self
    have ih := filterMAux_total f q e l (fun v hv => h v (List.mem_cons_of_mem _ hv))
    simp only [Stream.filterMAux, hx, List.filter_cons]
    cases q x <;> simp [ih]

theorem slice_outs_ok {vs : List Val} {sel : List Nat} (hsel : ∀ j ∈ sel, j < vs.length) :
    sel.map (fun (j : Nat) => outAt (vs.map Except.ok) (j : Int)) = (sliceList vs sel).map .ok := by
  rw [sliceList_eq_map hsel, List.map_map]
  apply List.map_congr_left
  intro j hj
  have hj' := hsel j hj
  simp only [Function.comp, outAt, pyIndex_map_lt _ vs j hj']
  simp [hj']

theorem filter_slice_stream {r : RefDS} {vs : List Val} {sel : List Nat} {p : Val → Res Bool} {q : Val → Bool}
    (hok : r.outs = vs.map .ok) (hp : ∀ v ∈ vs, p v = .ok (q v)) (hsel : ∀ j ∈ sel, j < vs.length) :
    (Ref.filter p (Ref.slice sel r)).stream = ⟨(sliceList vs sel).filter q, none⟩ := by
  simp only [Ref.filter, Ref.slice, hok, slice_outs_ok hsel, ofOuts_map_ok, Stream.filterM]
  apply filterMAux_total
  intro v hv
  simp only [sliceList, List.mem_filterMap] at hv
  obtain ⟨j, _, hj⟩ := hv
  exact hp v (List.mem_of_getElem? hj)


/-! ### map and batch -/

/-- the function a `map` after `batch` has to apply to get the effect of `map f` before `batch`:
    apply `f` to every member of the batch, left to right -/
def batchMap (f : Val → Res Val) : Val → Res Val := fun v =>
  match v with
  | .list xs => (xs.mapM f).map .list
  | _ => .error .typeError

theorem chunks_map {α β} (g : α → β) (n : Nat) : ∀ (fuel : Nat) (l : List α),
    Ref.chunks n (l.map g) fuel = (Ref.chunks n l fuel).map (List.map g)
  | 0, _ => rfl
  | fuel + 1, [] => by simp [Ref.chunks]
  | fuel + 1, a :: l => by
    have ih := chunks_map g n fuel ((a :: l).drop n)
    simp only [Ref.chunks, List.map_cons, List.isEmpty_cons, Bool.false_eq_true, if_false]
    rw [← List.map_cons, ← List.map_take, ← List.map_drop, ih]

theorem chunks_mem {α} (n : Nat) : ∀ (fuel : Nat) (l : List α), ∀ c ∈ Ref.chunks n l fuel, ∀ o ∈ c, o ∈ l
  | 0, _, c, hc, _, _ => by simp [Ref.chunks] at hc
  | fuel + 1, l, c, hc, o, ho => by
    unfold Ref.chunks at hc
    split at hc
    · simp at hc
    · rcases List.mem_cons.mp hc with rfl | hc
      · exact List.mem_of_mem_take ho
      · exact List.mem_of_mem_drop (chunks_mem n fuel _ c hc o ho)

theorem mapM_id_map_bind (f : Val → Res Val) : ∀ (c : List (Res Val)),
    (∀ v e, .ok v ∈ c → .error e ∈ c → ∃ w, f v = .ok w) →
    (c.map (· >>= f)).mapM id = (c.mapM id >>= fun vs => vs.mapM f)
  | [], _ => rfl
  | .error e :: c, _ => rfl
  | .ok v :: c, h => by
    have ih := mapM_id_map_bind f c
      (fun v e hv he => h v e (List.mem_cons_of_mem _ hv) (List.mem_cons_of_mem _ he))
    simp only [List.map_cons, List.mapM_cons, id, ih]
    cases hc : c.mapM id with
    | error e2 =>
      have := mapM_id_error c e2 hc
      obtain ⟨w, hw⟩ := h v e2 List.mem_cons_self (List.mem_cons_of_mem _ this)
      simp [hw, bind, Except.bind]
    | ok vs =>
      cases hfv : f v <;> simp [bind, Except.bind, List.mapM_cons, hfv, pure, Except.pure]

theorem chunkOut_map_bind (f : Val → Res Val) (c : List (Res Val))
    (h : ∀ v e, .ok v ∈ c → .error e ∈ c → ∃ w, f v = .ok w) :
    Ref.chunkOut (c.map (· >>= f)) = (Ref.chunkOut c >>= batchMap f) := by
  unfold Ref.chunkOut
  rw [mapM_id_map_bind f c h]
  cases c.mapM id with
  | error e => rfl
  | ok vs =>
    simp only [bind, Except.bind, batchMap, Except.map]

/-- the hypothesis of the positional law: if some example of `r` fails, `f` succeeds on the others -/
def MapBatchOk (f : Val → Res Val) (outs : List (Res Val)) : Prop :=
  ∀ v e, .ok v ∈ outs → .error e ∈ outs → ∃ w, f v = .ok w

theorem mapBatchOk_of_allOk {f : Val → Res Val} {outs : List (Res Val)}
    (h : ∀ o ∈ outs, ∃ v, o = .ok v) : MapBatchOk f outs := by
  intro v e _ he
  obtain ⟨v', hv'⟩ := h _ he
  cases hv'

theorem mapBatchOk_of_total {f : Val → Res Val} {outs : List (Res Val)}
    (h : ∀ v, ∃ w, f v = .ok w) : MapBatchOk f outs := fun v _ _ _ => h v

theorem map_batch_outs {f : Val → Res Val} {r : RefDS} (n : Nat) (dl : Bool) (h : MapBatchOk f r.outs) :
    (Ref.batch n dl (Ref.map f r)).outs = (Ref.map (batchMap f) (Ref.batch n dl r)).outs := by
  have hchunk : ∀ c ∈ Ref.chunks n r.outs (r.outs.length + 1),
      Ref.chunkOut (c.map (· >>= f)) = (Ref.chunkOut c >>= batchMap f) := by
    intro c hc
    apply chunkOut_map_bind
    intro v e hv he
    exact h v e (chunks_mem n _ _ c hc _ hv) (chunks_mem n _ _ c hc _ he)
  simp only [Ref.batch, Ref.map, List.length_map, chunks_map]
  cases dl with
  | false =>
    simp only [Bool.false_eq_true, if_false, List.map_map]
    apply List.map_congr_left
    intro c hc
    exact hchunk c hc
  | true =>
    have hpred : ((fun x : List (Res Val) => x.length == n) ∘ List.map fun x => x >>= f)
        = fun x => x.length == n := by
      funext x; simp
    simp only [if_true, List.filter_map, List.map_map, hpred]
    apply List.map_congr_left
    intro c hc
    have hc' := (List.mem_filter.mp hc).1
    exact hchunk c hc'


/-! #### the stream version -/

/-- the value `f` returns, when it returns -/
def okVal (f : Val → Res Val) (v : Val) : Val :=
  match f v with
  | .ok w => w
  | .error _ => .none

theorem okVal_eq {f : Val → Res Val} {v w : Val} (h : f v = .ok w) : f v = .ok (okVal f v) := by
  simp only [okVal, h]

theorem mapMAux_total {α β} (f : α → Res β) (f' : α → β) (e : Option Err) : ∀ (l : List α),
    (∀ v ∈ l, f v = .ok (f' v)) → Stream.mapMAux f l e = ⟨l.map f', e⟩
  | [], _ => rfl
  | x :: l, h => by
    have hx := h x List.mem_cons_self
    have ih := mapMAux_total f f' e l (fun v hv => h v (List.mem_cons_of_mem _ hv))
    simp only [Stream.mapMAux, hx, ih, List.map_cons]

/-- the batch `batchMap f` returns, when it returns -/
def batchOk (f : Val → Res Val) : Val → Val
  | .list c => .list (c.map (okVal f))
  | v => v

theorem batchMap_list_ok (f : Val → Res Val) (c : List Val) (h : ∀ v ∈ c, ∃ w, f v = .ok w) :
    batchMap f (.list c) = .ok (batchOk f (.list c)) := by
  have := ShardSort.mapM_ok f (okVal f) c (fun v hv => by
    obtain ⟨w, hw⟩ := h v hv
    exact okVal_eq hw)
  simp only [batchMap, this, Except.map, batchOk]

/-- `f` succeeds on everything that is iterated: any `drop_last`, any way the input ends -/
theorem map_batchStream_total {n : Nat} (hn : 1 ≤ n) (dl : Bool) (f : Val → Res Val) (s : Stream Val)
    (h : ∀ v ∈ s.vals, ∃ w, f v = .ok w) :
    batchStream n dl (s.mapM f) = (batchStream n dl s).mapM (batchMap f) := by
  have hs : s.mapM f = ⟨s.vals.map (okVal f), s.err⟩ :=
    mapMAux_total f (okVal f) s.err s.vals (fun v hv => by
      obtain ⟨w, hw⟩ := h v hv
      exact okVal_eq hw)
  have hfalse : chunkAux n false (s.vals.map (okVal f)) [] = (chunkAux n false s.vals []).map (List.map (okVal f)) := by
    rw [chunkAux_eq_chunks hn, chunkAux_eq_chunks hn, List.length_map, chunks_map]
  have htrue : chunkAux n true (s.vals.map (okVal f)) [] = (chunkAux n true s.vals []).map (List.map (okVal f)) := by
    have hpred : ((fun x : List Val => x.length == n) ∘ List.map (okVal f)) = fun x => x.length == n := by
      funext x; simp
    rw [chunkAux_dropLast hn, chunkAux_dropLast hn, List.length_map, chunks_map, List.filter_map, hpred]
  have hmemF : ∀ c ∈ chunkAux n false s.vals [], ∀ v ∈ c, v ∈ s.vals := by
    rw [chunkAux_eq_chunks hn]
    exact chunks_mem n _ _
  have hmemT : ∀ c ∈ chunkAux n true s.vals [], ∀ v ∈ c, v ∈ s.vals := by
    rw [chunkAux_dropLast hn]
    intro c hc
    exact chunks_mem n _ _ c (List.mem_filter.mp hc).1
  have hrun : ∀ (cs : List (List Val)) (e : Option Err), (∀ c ∈ cs, ∀ v ∈ c, v ∈ s.vals) →
      Stream.mapMAux (batchMap f) (cs.map Val.list) e = ⟨(cs.map (List.map (okVal f))).map Val.list, e⟩ := by
    intro cs e hcs
    rw [mapMAux_total (batchMap f) (batchOk f) e (cs.map Val.list) (by
      intro v hv
      simp only [List.mem_map] at hv
      obtain ⟨c, hc, rfl⟩ := hv
      exact batchMap_list_ok f c (fun v hv => h v (hcs c hc v hv)))]
    simp only [List.map_map]
    rfl
  rw [hs]
  unfold batchStream Stream.mapM
  cases s.err with
  | some e => simp only [htrue, hrun _ _ hmemT]
  | none =>
    cases dl with
    | false => simp only [hfalse, hrun _ _ hmemF]
    | true => simp only [htrue, hrun _ _ hmemT]


/-- `batchStream` with the batch collected so far as a parameter -/
def bsAux (n : Nat) (s : Stream Val) (cur : List Val) : Stream Val :=
  match s.err with
  | none => ⟨(chunkAux n false s.vals cur).map Val.list, none⟩
  | some e => ⟨(chunkAux n true s.vals cur).map Val.list, some e⟩

theorem batchStream_eq_bsAux (n : Nat) (s : Stream Val) : batchStream n false s = bsAux n s [] := rfl

theorem bsAux_cons (n : Nat) (y : Val) (vals : List Val) (err : Option Err) (cur : List Val) :
    bsAux n ⟨y :: vals, err⟩ cur =
      if cur.length + 1 ≥ n then Stream.cons (.list (y :: cur).reverse) (bsAux n ⟨vals, err⟩ [])
      else bsAux n ⟨vals, err⟩ (y :: cur) := by
  unfold bsAux
  cases err with
  | none =>
    simp only [chunkAux, List.length_cons, ge_iff_le]
    split <;> simp [Stream.cons]
  | some e =>
    simp only [chunkAux, List.length_cons, ge_iff_le]
    split <;> simp [Stream.cons]

theorem mapM_append_error {α β} (f : α → Res β) (a b : List α) (e : Err) (h : a.mapM f = .error e) :
    (a ++ b).mapM f = .error e := by
  rw [List.mapM_append, h]
  rfl

theorem mapM_snoc_error (f : Val → Res Val) (a : List Val) (x : Val) (e : Err)
    (ha : ∀ v ∈ a, ∃ w, f v = .ok w) (hx : f x = .error e) : (a ++ [x]).mapM f = .error e := by
  have := ShardSort.mapM_ok f (okVal f) a (fun v hv => by
    obtain ⟨w, hw⟩ := ha v hv
    exact okVal_eq hw)
  rw [List.mapM_append, this]
  simp only [List.mapM_cons, hx, bind, Except.bind]

/-- once the batch under construction contains an example on which `f` fails, the mapped batch fails -/
theorem map_chunks_fail {n : Nat} (f : Val → Res Val) (e : Err) : ∀ (l cur : List Val),
    cur.reverse.mapM f = .error e →
    Stream.mapMAux (batchMap f) ((chunkAux n false l cur).map Val.list) none = ⟨[], some e⟩
  | [], cur, h => by
    cases cur with
    | nil => simp only [List.reverse_nil, List.mapM_nil] at h; cases h
    | cons c cs =>
      simp only [chunkAux, List.length_cons, Nat.zero_lt_succ, decide_true, Bool.not_false, Bool.and_self,
        if_true, List.map_cons, List.map_nil, Stream.mapMAux, batchMap, h, Except.map]
  | x :: xs, cur, h => by
    have h' : (x :: cur).reverse.mapM f = .error e := by
      rw [List.reverse_cons]; exact mapM_append_error f _ _ e h
    unfold chunkAux
    simp only [List.length_cons, ge_iff_le]
    split
    · simp only [List.map_cons, Stream.mapMAux, batchMap, h', Except.map]
    · exact map_chunks_fail (n := n) f e xs (x :: cur) h'

theorem map_bsAux {n : Nat} (f : Val → Res Val) : ∀ (l cur : List Val),
    (∀ v ∈ cur, ∃ w, f v = .ok w) → cur.length < n →
    bsAux n (Stream.mapMAux f l none) (cur.map (okVal f))
      = Stream.mapMAux (batchMap f) ((chunkAux n false l cur).map Val.list) none
  | [], cur, hcur, _ => by
    cases cur with
    | nil => rfl
    | cons c cs =>
      have hb := batchMap_list_ok f (c :: cs).reverse (fun v hv => hcur v (List.mem_reverse.mp hv))
      simp only [Stream.mapMAux, bsAux, chunkAux, List.length_cons, List.length_map, Nat.zero_lt_succ, decide_true,
        Bool.not_false, Bool.and_self, if_true, List.map_cons, List.map_nil, hb, batchOk,
        List.map_reverse]
  | x :: xs, cur, hcur, hlen => by
    cases hfx : f x with
    | error e =>
      have hfail : (x :: cur).reverse.mapM f = .error e := by
        rw [List.reverse_cons]
        exact mapM_snoc_error f _ x e (fun v hv => hcur v (List.mem_reverse.mp hv)) hfx
      have hl : Stream.mapMAux f (x :: xs) none = ⟨[], some e⟩ := by
        simp only [Stream.mapMAux, hfx]
      rw [hl]
      have hlhs : bsAux n ⟨[], some e⟩ (cur.map (okVal f)) = ⟨[], some e⟩ := by
        simp [bsAux, chunkAux]
      rw [hlhs]
      unfold chunkAux
      simp only [List.length_cons, ge_iff_le]
      split
      · simp only [List.map_cons, Stream.mapMAux, batchMap, hfail, Except.map]
      · exact (map_chunks_fail f e xs (x :: cur) hfail).symm
    | ok y =>
      have hy : okVal f x = y := by simp only [okVal, hfx]
      have hl : Stream.mapMAux f (x :: xs) none
          = ⟨y :: (Stream.mapMAux f xs none).vals, (Stream.mapMAux f xs none).err⟩ := by
        simp only [Stream.mapMAux, hfx]
      have hcur' : ∀ v ∈ x :: cur, ∃ w, f v = .ok w := by
        intro v hv
        rcases List.mem_cons.mp hv with rfl | hv
        · exact ⟨y, hfx⟩
        · exact hcur v hv
      rw [hl, bsAux_cons]
      unfold chunkAux
      simp only [List.length_cons, List.length_map, ge_iff_le]
      split
      · have hb := batchMap_list_ok f (x :: cur).reverse (fun v hv => hcur' v (List.mem_reverse.mp hv))
        have ih := map_bsAux (n := n) f xs [] (fun v hv => by cases hv) (by simp only [List.length_nil]; omega)
        simp only [List.map_nil] at ih
        simp only [List.map_cons, Stream.mapMAux, hb, batchOk, List.map_reverse, hy, ← ih, Stream.cons]
      · have ih := map_bsAux (n := n) f xs (x :: cur) hcur' (by simp only [List.length_cons]; omega)
        simp only [List.map_cons, hy] at ih
        exact ih

/-- `f` may raise: without `drop_last`, on an input that ends normally, mapping before batching is
    mapping the batches -/
theorem map_batchStream_keep {n : Nat} (hn : 1 ≤ n) (f : Val → Res Val) (s : Stream Val) (he : s.err = none) :
    batchStream n false (s.mapM f) = (batchStream n false s).mapM (batchMap f) := by
  have := map_bsAux (n := n) f s.vals [] (fun v hv => by cases hv) (by simp only [List.length_nil]; omega)
  simp only [List.map_nil] at this
  rw [batchStream_eq_bsAux]
  unfold Stream.mapM
  rw [he, this]
  simp only [batchStream, he]


/-! ### transfer to the model of the lazy code -/

/-- what a user can observe of a (model) dataset: iteration with and without keys, `len`, `keys`,
    and, when indexable, integer indexing -/
structure ObsEq (d₁ d₂ : DS) : Prop where
  indexable : d₁.indexable = d₂.indexable
  iter : d₁.iter = d₂.iter
  iterK : d₁.iterK = d₂.iterK
  len : d₁.len = d₂.len
  keys : d₁.keys = d₂.keys
  getInt : d₁.indexable = true → ∀ i, d₁.getInt i = d₂.getInt i

/-- two model datasets that refine the same reference data are observationally equal -/
theorem obsEq_of_rel {d₁ d₂ : DS} {r : RefDS} (h₁ : Rel d₁ r) (h₂ : Rel d₂ r) : ObsEq d₁ d₂ where
  indexable := by rw [h₁.indexable, h₂.indexable]
  iter := by rw [h₁.iter, h₂.iter]
  iterK := by rw [h₁.iterK, h₂.iterK]
  len := by rw [h₁.len, h₂.len]
  keys := by rw [h₁.keys, h₂.keys]
  getInt := by
    intro hi i
    have hri : r.indexable = true := by rw [← h₁.indexable]; exact hi
    rw [(h₁.idx hri).2 i, (h₂.idx hri).2 i]

/-- **transfer principle**: admissible pipelines with the same reference semantics build
    observationally equal datasets -/
theorem obsEq_of_ref_eq {ρ : Env} (hρ : EnvOK ρ) {p₁ p₂ : Pipeline} (ha₁ : Adm ρ p₁) (ha₂ : Adm ρ p₂)
    (h : ref ρ p₁ = ref ρ p₂) {d₁ d₂ : DS} (h₁ : build ρ p₁ = .ok d₁) (h₂ : build ρ p₂ = .ok d₂) :
    ObsEq d₁ d₂ := by
  obtain ⟨r₁, hr₁, hrel₁⟩ := build_ref ρ hρ p₁ ha₁ d₁ h₁
  obtain ⟨r₂, hr₂, hrel₂⟩ := build_ref ρ hρ p₂ ha₂ d₂ h₂
  rw [h, hr₂] at hr₁
  injection hr₁ with hr₁
  subst hr₁
  exact obsEq_of_rel hrel₁ hrel₂

/-! #### reference semantics of the rewritten pipelines -/

theorem ref_slice_map (ρ : Env) (f : FnSym) (s : SliceSpec) (p : Pipeline) :
    ref ρ (.slice s (.map f p)) = ref ρ (.map f (.slice s p)) := by
  simp only [ref]
  cases ref ρ p with
  | error e => rfl
  | ok r =>
    simp only [bind, Except.bind, map_mkSlice_eq]
    cases Ref.mkSlice s r <;> rfl

theorem ref_shuffle_map (ρ : Env) (f : FnSym) (perm : List Nat) (p : Pipeline) :
    ref ρ (.shuffleOnce perm (.map f p)) = ref ρ (.map f (.shuffleOnce perm p)) := by
  simp only [ref]
  cases ref ρ p with
  | error e => rfl
  | ok r =>
    simp only [bind, Except.bind, map_mkShuffleOnce_eq]
    cases Ref.mkShuffleOnce perm r <;> rfl

theorem ref_shard_map (ρ : Env) (f : FnSym) (k i : Int) (p : Pipeline) :
    ref ρ (.shard k i (.map f p)) = ref ρ (.map f (.shard k i p)) := by
  simp only [ref]
  cases ref ρ p with
  | error e => rfl
  | ok r =>
    simp only [bind, Except.bind, map_mkShard_eq]
    cases Ref.mkShard k i r <;> rfl

theorem ref_cache_map (ρ : Env) (f : FnSym) (p : Pipeline) :
    ref ρ (.cache (.map f p)) = ref ρ (.map f (.cache p)) := by
  simp only [ref]
  cases ref ρ p with
  | error e => rfl
  | ok r =>
    simp only [bind, Except.bind, Ref.mkCache]
    have : (Ref.map (ρ.fn f) r).indexable = r.indexable := rfl
    rw [this]
    cases r.indexable with
    | false => rfl
    | true => simp only [if_true, map_cache_eq]

theorem ref_map_map (ρ : Env) (f g h : FnSym) (hh : ∀ v, ρ.fn h v = (ρ.fn f v >>= ρ.fn g)) (p : Pipeline) :
    ref ρ (.map g (.map f p)) = ref ρ (.map h p) := by
  have : ρ.fn h = fun v => ρ.fn f v >>= ρ.fn g := funext hh
  simp only [ref]
  cases ref ρ p with
  | error e => rfl
  | ok r => simp only [bind, Except.bind, map_map_eq, this]

theorem ref_map_concat2 (ρ : Env) (f : FnSym) (p q : Pipeline) :
    ref ρ (.map f (.concat (.cons p (.cons q .nil))))
      = ref ρ (.concat (.cons (.map f p) (.cons (.map f q) .nil))) := by
  simp only [ref, refAll]
  cases ref ρ p with
  | error e => rfl
  | ok r =>
    cases ref ρ q with
    | error e => rfl
    | ok r' =>
      simp only [bind, Except.bind, Ref.mkConcat, map_concat_eq, List.map_cons, List.map_nil]

/-- `tile(n)` is literally built as the `n`-fold concatenation -/
theorem buildAll_replicate (ρ : Env) (p : Pipeline) : ∀ (n : Nat),
    buildAll ρ (Pipelines.ofList (List.replicate (n + 1) p)) = (build ρ p).map (List.replicate (n + 1))
  | 0 => by
    simp only [List.replicate, Pipelines.ofList, buildAll]
    cases build ρ p <;> rfl
  | n + 1 => by
    have ih := buildAll_replicate ρ p n
    rw [List.replicate_succ, Pipelines.ofList, buildAll, ih]
    cases build ρ p <;> rfl

theorem build_tile_eq_concat (ρ : Env) (p : Pipeline) (n : Nat) (hn : 1 ≤ n) :
    build ρ (.tile n p) = build ρ (.concat (Pipelines.ofList (List.replicate n p))) := by
  obtain ⟨m, rfl⟩ : ∃ m, n = m + 1 := ⟨n - 1, by omega⟩
  simp only [build, buildAll_replicate]
  cases build ρ p with
  | error e => rfl
  | ok d =>
    cases m with
    | zero => rfl
    | succ m => rfl


/-! #### nested slices of a pipeline -/

theorem model_mkSlice_ok_inv {spec : SliceSpec} {d d' : DS} (h : mkSlice spec d = .ok d') :
    d.sliceGuard = .ok () ∧ d.indexable = true ∧ ∃ n, d.len = .ok n := by
  unfold mkSlice at h
  cases hg : d.sliceGuard with
  | error e => simp [hg, bind, Except.bind] at h
  | ok u =>
    simp only [hg, bind, Except.bind] at h
    cases hi : d.indexable with
    | false => simp [hi, throw, throwThe, MonadExceptOf.throw] at h
    | true =>
      simp only [hi, Bool.not_true] at h
      cases hl : d.len with
      | error e => simp [hl] at h
      | ok n => exact ⟨rfl, rfl, n, rfl⟩

/-- `ds[s₁][s₂]` and `ds[composed index list]` have the same reference semantics -/
theorem ref_slice_slice {ρ : Env} {p : Pipeline} (ha : Adm ρ p) {s₁ s₂ : SliceSpec} {r₂ : RefDS}
    (h : ref ρ (.slice s₂ (.slice s₁ p)) = .ok r₂) :
    ∃ r sel₁ sel₂, ref ρ p = .ok r ∧ r.indexable = true ∧
      resolveSlice r.outs.length r.keys s₁ = .ok sel₁ ∧
      resolveSlice sel₁.length (Ref.slice sel₁ r).keys s₂ = .ok sel₂ ∧
      (∀ j ∈ sliceList sel₁ sel₂, j < r.outs.length) ∧
      ref ρ (.slice (.idx ((sliceList sel₁ sel₂).map Int.ofNat)) p) = .ok r₂ := by
  simp only [ref] at h
  cases hr : ref ρ p with
  | error e => simp [hr, bind, Except.bind] at h
  | ok r =>
    simp only [hr, bind, Except.bind] at h
    cases hr₁ : Ref.mkSlice s₁ r with
    | error e => simp [hr₁] at h
    | ok r₁ =>
      simp only [hr₁] at h
      have hw := ref_wf ρ p ha r hr
      obtain ⟨sel₁, sel₂, hs₁, hs₂, rfl, rfl, hlt⟩ := mkSlice_mkSlice_eq hw hr₁ h
      have hi := (mkSlice_ok_inv hr₁).1
      refine ⟨r, sel₁, sel₂, rfl, hi, hs₁, hs₂, hlt, ?_⟩
      simp only [ref, hr, bind, Except.bind]
      exact ref_mkSlice_idx_ok hi (hw.lenOuts hi) _ hlt

theorem model_slice_slice {ρ : Env} (hρ : EnvOK ρ) {p : Pipeline} (ha : Adm ρ p) {s₁ s₂ : SliceSpec} {d₂ : DS}
    (h₂ : build ρ (.slice s₂ (.slice s₁ p)) = .ok d₂) :
    ∃ r sel₁ sel₂ d₃, ref ρ p = .ok r ∧
      resolveSlice r.outs.length r.keys s₁ = .ok sel₁ ∧
      resolveSlice sel₁.length (Ref.slice sel₁ r).keys s₂ = .ok sel₂ ∧
      build ρ (.slice (.idx ((sliceList sel₁ sel₂).map Int.ofNat)) p) = .ok d₃ ∧ ObsEq d₂ d₃ := by
  have ha₂ : Adm ρ (.slice s₂ (.slice s₁ p)) := ha
  obtain ⟨r₂, hr₂, hrel₂⟩ := build_ref ρ hρ _ ha₂ d₂ h₂
  obtain ⟨r, sel₁, sel₂, hr, hi, hs₁, hs₂, hlt, hr₃⟩ := ref_slice_slice ha hr₂
  -- the composed slice builds
  simp only [build] at h₂
  cases hd : build ρ p with
  | error e => simp [hd, bind, Except.bind] at h₂
  | ok d =>
    simp only [hd, bind, Except.bind] at h₂
    cases hd₁ : mkSlice s₁ d with
    | error e => simp [hd₁] at h₂
    | ok d₁ =>
      obtain ⟨hg, hix, n, hn⟩ := model_mkSlice_ok_inv hd₁
      obtain ⟨r', hr', hrel⟩ := build_ref ρ hρ p ha d hd
      rw [hr] at hr'
      injection hr' with hr'
      subst hr'
      have hnn : n = r.outs.length := by
        have := (hrel.idx hi).1
        rw [← hrel.len, hn] at this
        injection this
      subst hnn
      have hd₃ : build ρ (.slice (.idx ((sliceList sel₁ sel₂).map Int.ofNat)) p)
          = .ok (sliceDS (sliceList sel₁ sel₂) d) := by
        simp only [build, hd, bind, Except.bind]
        exact ShardSort.mkSlice_idx_ok d _ _ hix hg hn hlt
      have ha₃ : Adm ρ (.slice (.idx ((sliceList sel₁ sel₂).map Int.ofNat)) p) := ha
      obtain ⟨r₃, hr₃', hrel₃⟩ := build_ref ρ hρ _ ha₃ _ hd₃
      rw [hr₃] at hr₃'
      injection hr₃' with hr₃'
      subst hr₃'
      exact ⟨r, sel₁, sel₂, _, hr, hs₁, hs₂, hd₃, obsEq_of_rel hrel₂ hrel₃⟩

/-! #### batch then unbatch of a pipeline -/

theorem model_batch_unbatch {ρ : Env} (hρ : EnvOK ρ) {p : Pipeline} (ha : Adm ρ p) {n : Nat} (hn : 1 ≤ n)
    {d d' : DS} (hd : build ρ p = .ok d) (he : d.iter.err = none)
    (hd' : build ρ (.unbatch (.batch n false p)) = .ok d') : d'.iter = d.iter := by
  obtain ⟨r, hr, hrel⟩ := build_ref ρ hρ p ha d hd
  have ha' : Adm ρ (.unbatch (.batch n false p)) := ⟨ha, hn, fun _ _ _ h => by cases h⟩
  obtain ⟨r', hr', hrel'⟩ := build_ref ρ hρ _ ha' d' hd'
  simp only [ref, hr, bind, Except.bind] at hr'
  injection hr' with hr'
  subst hr'
  rw [hrel'.iter, hrel.iter]
  rw [hrel.iter] at he
  simp only [Ref.unbatch, Ref.batch]
  rw [unbatch_batchStream hn false r.stream]
  simp only [he, and_self, if_true]
  cases hs : r.stream with
  | mk vals err =>
    rw [hs] at he
    simp only at he
    simp [he]

end LazyDs

import LazyDs.Lemmas.Sound
/-
  Helper lemmas for property C14 ("exception-based filtering drops exactly the failing examples"):
  what `catchOuts E` computes as a list operation, how it splits over `++`, the subclass relation
  `Err.isA`, and the three ways of filtering (lazy filter, eager filter, `catch(FilterException)` over
  a raising map) on reference data.  The final statements are in `LazyDs/Props/C14.lean`.
-/
namespace LazyDs

/-! ### `catchOuts` as a list operation -/

/-- the successful outcomes of a list of outcomes, in order -/
def okVals {α} (l : List (Res α)) : List α :=
  l.filterMap (fun o => match o with | .ok v => some v | .error _ => none)

@[simp] theorem okVals_nil {α} : okVals ([] : List (Res α)) = [] := rfl

@[simp] theorem okVals_cons_ok {α} (v : α) (l : List (Res α)) : okVals (.ok v :: l) = v :: okVals l := rfl

@[simp] theorem okVals_cons_error {α} (e : Err) (l : List (Res α)) : okVals (.error e :: l) = okVals l := rfl

theorem okVals_map_ok {α} (l : List α) : okVals (l.map (Except.ok : α → Res α)) = l := by
  induction l with
  | nil => rfl
  | cons a l ih => simp [ih]

/-- a list of outcomes without failures is `map ok` of its values -/
theorem outs_eq_map_okVals {α} : ∀ (l : List (Res α)), (∀ o ∈ l, ∃ v, o = .ok v) → l = (okVals l).map .ok
  | [], _ => rfl
  | o :: l, h => by
    obtain ⟨v, rfl⟩ := h o (List.mem_cons_self ..)
    have ih := outs_eq_map_okVals l (fun o' ho' => h o' (List.mem_cons_of_mem _ ho'))
    rw [okVals_cons_ok, List.map_cons, ← ih]

/-- `catchOuts E` = run the outcomes that `except E` does not swallow -/
theorem catchOuts_eq_ofOuts_filter {α} (E : List Err) (l : List (Res α)) :
    catchOuts E l =
      Stream.ofOuts (l.filter (fun o => match o with | .error e => !e.isAny E | .ok _ => true)) := by
  induction l with
  | nil => rfl
  | cons o l ih =>
    cases o with
    | ok v =>
      simp only [catchOuts, List.filter_cons, if_true, Stream.ofOuts, Stream.cons, ih]
    | error e =>
      cases h : e.isAny E with
      | true => simp [catchOuts, h, ih]
      | false => simp [catchOuts, h, Stream.ofOuts, Stream.fail]

/-- if every failure is caught, exactly the successes come out and nothing is raised -/
theorem catchOuts_all_caught {α} (E : List Err) : ∀ (l : List (Res α)),
    (∀ o ∈ l, ∀ e, o = .error e → e.isAny E = true) → catchOuts E l = ⟨okVals l, none⟩
  | [], _ => rfl
  | .ok v :: l, h => by
    have ih := catchOuts_all_caught E l (fun o ho => h o (List.mem_cons_of_mem _ ho))
    simp only [catchOuts, Stream.cons, ih, okVals_cons_ok]
  | .error e :: l, h => by
    have ih := catchOuts_all_caught E l (fun o ho => h o (List.mem_cons_of_mem _ ho))
    have he : e.isAny E = true := h _ (List.mem_cons_self ..) e rfl
    simp only [catchOuts, he, if_true, ih, okVals_cons_error]

/-- `catchOuts` over `a ++ b`: run `a`, and `b` only if `a` did not raise -/
theorem catchOuts_append {α} (E : List Err) (a b : List (Res α)) :
    catchOuts E (a ++ b) = (catchOuts E a).append (catchOuts E b) := by
  induction a with
  | nil => rfl
  | cons o a ih =>
    cases o with
    | ok v =>
      simp only [List.cons_append, catchOuts, ih, Stream.cons, Stream.append]
      cases (catchOuts E a).err <;> rfl
    | error e =>
      cases h : e.isAny E with
      | true => simp only [List.cons_append, catchOuts, h, if_true, ih]
      | false => simp [catchOuts, h, Stream.fail, Stream.append]

/-- an uncaught failure after a prefix that ran through: it is raised, after the prefix' examples -/
theorem catchOuts_uncaught {α} (E : List Err) (pre post : List (Res α)) (e : Err)
    (he : e.isAny E = false) (hpre : (catchOuts E pre).err = none) :
    (catchOuts E (pre ++ [.error e] ++ post)).err = some e ∧
    (catchOuts E (pre ++ [.error e] ++ post)).vals = (catchOuts E pre).vals := by
  rw [List.append_assoc, catchOuts_append]
  have h1 : catchOuts E ([.error e] ++ post) = (.fail e : Stream α) := by
    simp [catchOuts, he]
  rw [h1]
  simp [Stream.append, hpre, Stream.fail]

/-! ### the pipeline statement -/

/-- what `build` produces for `catch(E)` over an admissible pipeline, in terms of the positional
    outcomes of the reference of the WHOLE upstream pipeline -/
theorem catch_pipeline (ρ : Env) (hρ : EnvOK ρ) (E : List Err) (p : Pipeline) (ha : Adm ρ (.catch E p))
    (d : DS) (hb : build ρ (.catch E p) = .ok d) :
    ∃ r, ref ρ p = .ok r ∧ RefWF2 r ∧ r.indexable = true ∧ d.iter = catchOuts E r.outs ∧
      (∀ ks, r.keys = .ok ks → d.iterK = catchOuts E ((List.range ks.length).map (fun (j : Nat) => (do
          let k ← pyIndex ks (j : Int)
          let v ← outAt r.outs (j : Int)
          .ok (k, v) : Res (String × Val))))) := by
  obtain ⟨r', hr', hrel⟩ := build_ref ρ hρ (.catch E p) ha d hb
  simp only [ref, bind, Except.bind] at hr'
  cases hr : ref ρ p with
  | error e => simp [hr] at hr'
  | ok r =>
    simp only [hr] at hr'
    injection hr' with hr'
    subst hr'
    have hwf := ref_wf ρ p ha.1 r hr
    have hi := ha.2 r hr
    refine ⟨r, rfl, hwf, hi, ?_, ?_⟩
    · rw [hrel.iter]
      simp only [Ref.catch_, hwf.lenOuts hi]
    · intro ks hks
      rw [hrel.iterK]
      simp only [Ref.catch_, hks]

/-! ### the class tree -/

theorem isA_refl (e : Err) : e.isA e = true := by
  cases e <;> rfl

theorem isA_trans (a b c : Err) (hab : a.isA b = true) (hbc : b.isA c = true) : a.isA c = true := by
  cases a <;> cases b <;>
    first
    | exact absurd hab (by decide)
    | (cases c <;> first | exact absurd hbc (by decide) | rfl)

theorem isAny_singleton (e c : Err) : e.isAny [c] = e.isA c := by
  simp [Err.isAny]

theorem isAny_cons (e c : Err) (cs : List Err) : e.isAny (c :: cs) = (e.isA c || e.isAny cs) := by
  simp [Err.isAny]

/-! ### three ways to filter with a total predicate -/

theorem c14_filterMAux_total {α} (q : α → Bool) (e : Option Err) : ∀ (l : List α),
    Stream.filterMAux (fun v => (.ok (q v) : Res Bool)) l e = ⟨l.filter q, e⟩
  | [] => rfl
  | x :: l => by
    have ih := c14_filterMAux_total q e l
    cases hq : q x <;> simp [Stream.filterMAux, hq, ih]

/-- `catch(FilterException)` over `map(lambda x: x if q(x) else raise FilterException)` -/
theorem catchOuts_filterException (q : Val → Bool) : ∀ (l : List Val),
    catchOuts [Err.filterException]
      (l.map (fun v => (if q v then .ok v else .error .filterException : Res Val))) = ⟨l.filter q, none⟩
  | [] => rfl
  | x :: l => by
    have ih := catchOuts_filterException q l
    have hc : Err.filterException.isAny [Err.filterException] = true := by decide
    cases hq : q x <;> simp [catchOuts, hq, ih, hc, Stream.cons]

/-- the index list of the eager filter selects exactly the examples that satisfy the predicate -/
theorem filterIdx_total (q : Val → Bool) : ∀ (vs pre : List Val),
    ∃ idx, filterIdx (fun v => (.ok (q v) : Res Bool)) vs pre.length = .ok idx ∧
      (∀ j ∈ idx, j < pre.length + vs.length) ∧
      idx.map (fun (j : Nat) => outAt ((pre ++ vs).map Except.ok) (j : Int)) = (vs.filter q).map Except.ok
  | [], pre => ⟨[], rfl, by simp, by simp⟩
  | v :: vs, pre => by
    obtain ⟨rest, h1, h2, h3⟩ := filterIdx_total q vs (pre ++ [v])
    have hl : (pre ++ [v]).length = pre.length + 1 := by simp
    rw [hl] at h1 h2
    have happ : pre ++ [v] ++ vs = pre ++ v :: vs := by simp
    rw [happ] at h3
    have hhead : outAt ((pre ++ v :: vs).map Except.ok) (pre.length : Int) = .ok v := by
      rw [outAt_lt _ _ (by simp)]
      simp
    refine ⟨if q v then pre.length :: rest else rest, ?_, ?_, ?_⟩
    · simp only [filterIdx, bind, Except.bind, h1]
    · intro j hj
      simp only [List.length_cons]
      cases hq : q v with
      | true =>
        simp only [hq, if_true, List.mem_cons] at hj
        rcases hj with rfl | hj
        · omega
        · have := h2 j hj; omega
      | false =>
        simp only [hq, Bool.false_eq_true, if_false] at hj
        have := h2 j hj; omega
    · cases hq : q v with
      | true => simp only [if_true, List.map_cons, hhead, h3, List.filter_cons, hq]
      | false => simp only [Bool.false_eq_true, if_false, h3, List.filter_cons, hq]

theorem filter_lazy_total (q : Val → Bool) (r : RefDS) (vals : List Val) (hs : r.stream = ⟨vals, none⟩) :
    (Ref.filter (fun v => .ok (q v)) r).stream = ⟨vals.filter q, none⟩ := by
  simp only [Ref.filter, Stream.filterM, hs, c14_filterMAux_total]

theorem filter_eager_total (q : Val → Bool) (r : RefDS) (hi : r.indexable = true) (hw : RefWF2 r)
    (vals : List Val) (ho : r.outs = vals.map .ok) (hs : r.stream = ⟨vals, none⟩) :
    ∃ r', Ref.mkFilterEager (fun v => .ok (q v)) r = .ok r' ∧ r'.stream = ⟨vals.filter q, none⟩ := by
  obtain ⟨idx, hidx, hlt, hmap⟩ := filterIdx_total q vals []
  simp only [List.length_nil, Nat.zero_add, List.nil_append] at hidx hlt hmap
  have hlen : r.len = .ok vals.length := by
    rw [hw.lenOuts hi, ho, List.length_map]
  have hres : resolveIdx vals.length (idx.map Int.ofNat) = .ok idx := resolveIdx_ofNat hlt
  refine ⟨Ref.slice idx r, ?_, ?_⟩
  · unfold Ref.mkFilterEager
    simp only [hi, Bool.not_true, Bool.false_eq_true, if_false, streamToRes, hs, bind, Except.bind, hidx, hlen,
      Ref.mkSlice, resolveSlice, hres]
  · simp only [Ref.slice, ho, hmap, ofOuts_map_ok]

theorem filter_catch_total (q : Val → Bool) (r : RefDS) (hi : r.indexable = true) (hw : RefWF2 r)
    (vals : List Val) (ho : r.outs = vals.map .ok) :
    (Ref.catch_ [.filterException]
      (Ref.map (fun v => if q v then .ok v else .error .filterException) r)).stream = ⟨vals.filter q, none⟩ := by
  have hlen : r.len = .ok r.outs.length := hw.lenOuts hi
  simp only [Ref.catch_, Ref.map, hlen, ho, List.map_map]
  exact catchOuts_filterException q vals

/-- for an indexable well-formed reference dataset whose iteration ends normally, iteration is the
    run of the outcome list (C02: then every outcome is a success) -/
theorem stream_eq_ofOuts_of_err_none (r : RefDS) (hi : r.indexable = true) (hw : RefWF2 r)
    (he : r.stream.err = none) : r.stream = .ofOuts r.outs := by
  obtain ⟨_, p2, p3⟩ := hw.pos hi
  have hlen := p3 he
  have hv : r.outs = r.stream.vals.map .ok := by
    apply List.ext_getElem?
    intro t
    by_cases ht : t < r.stream.vals.length
    · rw [p2 t ht]; simp [ht]
    · rw [List.getElem?_eq_none (by omega), List.getElem?_eq_none (by simp; omega)]
  rw [hv, ofOuts_map_ok]
  cases hr : r.stream with
  | mk vals err =>
    rw [hr] at he
    simp only at he
    subst he
    rfl

/-! ### a small environment for the concrete examples of `Props/C14.lean` -/

/-- every user function raises `userB` on the example `2` and is the identity otherwise -/
def c14Env : Env where
  fn := fun _ v => match v with
    | .int i => if i = 2 then .error .userB else .ok v
    | _ => .ok v
  pred := fun _ _ => .ok true

theorem c14Env_ok : EnvOK c14Env := by
  intro f v
  cases v <;> simp only [c14Env] <;> try (intro h; cases h)
  split <;> (intro h; cases h)

/-- `ds.map(f).catch(E)` over a list source -/
def c14Pipe (E : List Err) : Pipeline :=
  .catch E (.map .identity (.listSrc [.int 1, .int 2, .int 3]))

theorem c14Pipe_adm (E : List Err) : Adm c14Env (c14Pipe E) := by
  refine ⟨trivial, ?_⟩
  intro r hr
  simp only [ref, bind, Except.bind] at hr
  injection hr with hr
  subst hr
  rfl

end LazyDs

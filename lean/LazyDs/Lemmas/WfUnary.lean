import LazyDs.Lemmas.RefWF
import LazyDs.Lemmas.RelItems
/-
  The C02 / C03 statements on the reference data (`RefWF2`) are preserved by the unary combinators
  of `Spec/Ref.lean`: map, lazy filter, unbatch, slice, items, cache, catch, prefetch, parallel map
  and the eager cache.

  First the generic facts about the generator loops (`Stream.ofOuts`, `mapMAux`, `filterMAux`,
  `catchOuts`), in particular that pairing outcomes with keys commutes with each of them.
-/
namespace LazyDs

/-! ### `Stream.ofOuts` -/

theorem ofOuts_pos' {α} (l : List (Res α)) :
    (Stream.ofOuts l).vals.length ≤ l.length ∧
    (∀ (t : Nat) (h : t < (Stream.ofOuts l).vals.length), l[t]? = some (.ok (Stream.ofOuts l).vals[t])) ∧
    ((Stream.ofOuts l).err = none → (Stream.ofOuts l).vals.length = l.length) ∧
    (∀ e, (Stream.ofOuts l).err = some e → l[(Stream.ofOuts l).vals.length]? = some (.error e)) := by
  induction l with
  | nil => simp [Stream.ofOuts]
  | cons o l ih =>
    cases o with
    | error e => simp [Stream.ofOuts]
    | ok v =>
      obtain ⟨h1, h2, h3, h4⟩ := ih
      simp only [Stream.ofOuts, List.length_cons]
      refine ⟨by omega, ?_, ?_, ?_⟩
      · intro t h
        cases t with
        | zero => simp
        | succ t => simpa using h2 t (by simpa using h)
      · intro h; rw [h3 h]
      · intro e h; simpa using h4 e h

/-- running a list of outcomes: the yielded values are the leading successes, a normal end means
    every outcome was a success, an error is the first failure -/
theorem ofOuts_pos {α} : ∀ (l : List (Res α)), let s := Stream.ofOuts l;
    s.vals.length ≤ l.length ∧
    (∀ (t : Nat) (h : t < s.vals.length), l[t]? = some (.ok s.vals[t])) ∧
    (s.err = none → s.vals.length = l.length) ∧
    (∀ e, s.err = some e → l[s.vals.length]? = some (.error e)) :=
  fun l => ofOuts_pos' l

/-! ### pairing outcomes with keys -/

/-- `zip(keys, outcomes)` where a failed outcome stays that failure -/
def pairOuts (ks : List String) (l : List (Res Val)) : List (Res (String × Val)) :=
  List.zipWith (fun k o => o >>= fun v => .ok (k, v)) ks l

theorem pairOuts_nil : pairOuts [] [] = [] := rfl

theorem pairOuts_cons (k : String) (ks : List String) (o : Res Val) (l : List (Res Val)) :
    pairOuts (k :: ks) (o :: l) = (o >>= fun v => .ok (k, v)) :: pairOuts ks l := rfl

/-- the keyed walk over a selection of in-range positions is `pairOuts` of the selected keys and
    the selected outcomes -/
theorem sel_map_pair (ks : List String) (l : List (Res Val)) (sel : List Nat)
    (hk : ∀ j ∈ sel, j < ks.length) :
    sel.map (fun (j : Nat) => (do
        let k ← pyIndex ks (j : Int)
        let v ← outAt l (j : Int)
        .ok (k, v) : Res (String × Val)))
      = pairOuts (sel.map (fun j => ks[j]?.getD "")) (sel.map (fun (j : Nat) => outAt l (j : Int))) := by
  induction sel with
  | nil => rfl
  | cons j sel ih =>
    have hj : j < ks.length := hk j (by simp)
    rw [List.map_cons, List.map_cons, List.map_cons, pairOuts_cons,
      ih (fun j' hj' => hk j' (by simp [hj']))]
    congr 1
    rw [pyIndex_lt ks j hj]
    simp [hj, ok_bind]

theorem range_map_getD (ks : List String) :
    (List.range ks.length).map (fun j => ks[j]?.getD "") = ks := by
  apply List.ext_getElem
  · simp
  · intro i h1 h2
    simp [h2]

theorem range_map_pair (ks : List String) (l : List (Res Val)) (h : ks.length = l.length) :
    (List.range l.length).map (fun (j : Nat) => (do
        let k ← pyIndex ks (j : Int)
        let v ← outAt l (j : Int)
        .ok (k, v) : Res (String × Val))) = pairOuts ks l := by
  rw [sel_map_pair ks l (List.range l.length) (by intro j hj; simpa [h] using hj)]
  rw [range_map_outAt, ← h, range_map_getD]

theorem ofOuts_pairOuts : ∀ (ks : List String) (l : List (Res Val)), ks.length = l.length →
    (Stream.ofOuts (pairOuts ks l)).err = (Stream.ofOuts l).err ∧
    (Stream.ofOuts (pairOuts ks l)).vals.map (·.2) = (Stream.ofOuts l).vals ∧
    (Stream.ofOuts (pairOuts ks l)).vals.map (·.1) = ks.take (Stream.ofOuts (pairOuts ks l)).vals.length
  | [], [], _ => by simp [pairOuts, Stream.ofOuts]
  | [], _ :: _, h => by simp at h
  | _ :: _, [], h => by simp at h
  | k :: ks, .error e :: l, _ => by simp [pairOuts_cons, error_bind, Stream.ofOuts]
  | k :: ks, .ok v :: l, h => by
    obtain ⟨h1, h2, h3⟩ := ofOuts_pairOuts ks l (by simpa using h)
    simp only [pairOuts_cons, ok_bind, Stream.ofOuts, List.map_cons, List.length_cons, List.take_succ_cons]
    exact ⟨h1, by rw [h2], by rw [← h3]⟩

/-- C03 on a positional walk: pairing position `j` with `ks[j]` does not change when the walk
    fails, yields the same examples, and the keys are the leading keys -/
theorem ofOuts_pair (l : List (Res Val)) (ks : List String) (h : ks.length = l.length) :
    (Stream.ofOuts ((List.range l.length).map (fun (j : Nat) => (do
        let k ← pyIndex ks (j : Int)
        let v ← outAt l (j : Int)
        .ok (k, v) : Res (String × Val))))).err = (Stream.ofOuts l).err ∧
    (Stream.ofOuts ((List.range l.length).map (fun (j : Nat) => (do
        let k ← pyIndex ks (j : Int)
        let v ← outAt l (j : Int)
        .ok (k, v) : Res (String × Val))))).vals.map (·.2) = (Stream.ofOuts l).vals ∧
    (Stream.ofOuts ((List.range l.length).map (fun (j : Nat) => (do
        let k ← pyIndex ks (j : Int)
        let v ← outAt l (j : Int)
        .ok (k, v) : Res (String × Val))))).vals.map (·.1)
      = ks.take (Stream.ofOuts ((List.range l.length).map (fun (j : Nat) => (do
        let k ← pyIndex ks (j : Int)
        let v ← outAt l (j : Int)
        .ok (k, v) : Res (String × Val))))).vals.length := by
  rw [range_map_pair ks l h]
  exact ofOuts_pairOuts ks l h

/-! ### `catchOuts` -/

/-- pairing outcomes with keys commutes with `catchOuts E` -/
theorem catchOuts_pairOuts (E : List Err) : ∀ (ks : List String) (l : List (Res Val)), ks.length = l.length →
    (catchOuts E (pairOuts ks l)).err = (catchOuts E l).err ∧
    (catchOuts E (pairOuts ks l)).vals.map (·.2) = (catchOuts E l).vals
  | [], [], _ => by simp [pairOuts, catchOuts, Stream.nil]
  | [], _ :: _, h => by simp at h
  | _ :: _, [], h => by simp at h
  | k :: ks, .error e :: l, h => by
    have ih := catchOuts_pairOuts E ks l (by simpa using h)
    simp only [pairOuts_cons, error_bind, catchOuts]
    cases e.isAny E with
    | true => simpa using ih
    | false => simp [Stream.fail]
  | k :: ks, .ok v :: l, h => by
    obtain ⟨h1, h2⟩ := catchOuts_pairOuts E ks l (by simpa using h)
    simp only [pairOuts_cons, ok_bind, catchOuts, Stream.cons, List.map_cons]
    exact ⟨h1, by rw [h2]⟩

theorem catchOuts_pair (E : List Err) (l : List (Res Val)) (ks : List String) (h : ks.length = l.length) :
    (catchOuts E ((List.range ks.length).map (fun (j : Nat) => (do
        let k ← pyIndex ks (j : Int)
        let v ← outAt l (j : Int)
        .ok (k, v) : Res (String × Val))))).err = (catchOuts E l).err ∧
    (catchOuts E ((List.range ks.length).map (fun (j : Nat) => (do
        let k ← pyIndex ks (j : Int)
        let v ← outAt l (j : Int)
        .ok (k, v) : Res (String × Val))))).vals.map (·.2) = (catchOuts E l).vals := by
  rw [h, range_map_pair ks l h]
  exact catchOuts_pairOuts E ks l h

/-! ### `Stream.mapMAux` -/

theorem mapMAux_spec {α β} (f : α → Res β) (e : Option Err) : ∀ (l : List α),
    (Stream.mapMAux f l e).vals.length ≤ l.length ∧
    (∀ (t : Nat) (_ : t < (Stream.mapMAux f l e).vals.length) (_ : t < l.length),
        f l[t] = .ok (Stream.mapMAux f l e).vals[t]) ∧
    ((Stream.mapMAux f l e).err = none → e = none ∧ (Stream.mapMAux f l e).vals.length = l.length)
  | [] => by simp [Stream.mapMAux]
  | x :: l => by
    obtain ⟨h1, h2, h3⟩ := mapMAux_spec f e l
    cases hfx : f x with
    | error e' => simp [Stream.mapMAux, hfx]
    | ok y =>
      simp only [Stream.mapMAux, hfx, List.length_cons]
      refine ⟨by omega, ?_, ?_⟩
      · intro t h h'
        cases t with
        | zero => simpa using hfx
        | succ t => simpa using h2 t (by simpa using h) (by simpa using h')
      · intro h
        obtain ⟨a, b⟩ := h3 h
        exact ⟨a, by rw [b]⟩

/-- the values of `for x in s: yield f(x)` are `f` of a prefix of the input -/
theorem mapMAux_vals {α β} (f : α → Res β) (e : Option Err) (l : List α) :
    (Stream.mapMAux f l e).vals.map .ok = (l.take (Stream.mapMAux f l e).vals.length).map f := by
  obtain ⟨h1, h2, _⟩ := mapMAux_spec f e l
  apply List.ext_getElem
  · simp [Nat.min_eq_left h1]
  · intro t a b
    simp only [List.length_map] at a
    simp only [List.getElem_map, List.getElem_take]
    exact (h2 t a (by omega)).symm

/-- the result ends normally iff the input does and `f` succeeds on every element -/
theorem mapMAux_err_none_iff {α β} (f : α → Res β) (e : Option Err) : ∀ (l : List α),
    (Stream.mapMAux f l e).err = none ↔ e = none ∧ ∀ x ∈ l, ∃ y, f x = .ok y
  | [] => by simp [Stream.mapMAux]
  | x :: l => by
    have ih := mapMAux_err_none_iff f e l
    cases hfx : f x with
    | error e' =>
      simp only [Stream.mapMAux, hfx, List.mem_cons]
      constructor
      · intro h; cases h
      · rintro ⟨_, h⟩
        obtain ⟨y, hy⟩ := h x (Or.inl rfl)
        rw [hfx] at hy; cases hy
    | ok y =>
      simp only [Stream.mapMAux, hfx, List.mem_cons, ih]
      constructor
      · rintro ⟨a, b⟩
        refine ⟨a, ?_⟩
        rintro x' (rfl | hx')
        · exact ⟨y, hfx⟩
        · exact b x' hx'
      · rintro ⟨a, b⟩
        exact ⟨a, fun x' hx' => b x' (Or.inr hx')⟩

theorem mapMAux_err_some {α β} (f : α → Res β) (l : List α) (e : Err) :
    (Stream.mapMAux f l (some e)).err ≠ none := by
  intro h
  have := ((mapMAux_spec f (some e) l).2.2 h).1
  cases this

/-- a shorter input yields a prefix -/
theorem mapMAux_prefix {α β} (f : α → Res β) (e1 e2 : Option Err) : ∀ (p l : List α), p <+: l →
    (Stream.mapMAux f p e1).vals <+: (Stream.mapMAux f l e2).vals
  | [], l, _ => by simp [Stream.mapMAux]
  | x :: p, [], h => by simp at h
  | x :: p, x' :: l, h => by
    rw [List.cons_prefix_cons] at h
    obtain ⟨rfl, h⟩ := h
    have ih := mapMAux_prefix f e1 e2 p l h
    cases hfx : f x with
    | error e' => simp [Stream.mapMAux, hfx]
    | ok y =>
      simp only [Stream.mapMAux, hfx, List.cons_prefix_cons, true_and]
      exact ih

/-- mapping the example of a `(key, example)` pair commutes with dropping the keys, and the keys
    stay the leading keys -/
theorem mapMAux_pair {κ α β} (f : α → Res β) (e : Option Err) : ∀ (kvs : List (κ × α)),
    (Stream.mapMAux (fun kv : κ × α => (do let v ← f kv.2; .ok (kv.1, v) : Res (κ × β))) kvs e).err
      = (Stream.mapMAux f (kvs.map (·.2)) e).err ∧
    (Stream.mapMAux (fun kv : κ × α => (do let v ← f kv.2; .ok (kv.1, v) : Res (κ × β))) kvs e).vals.map (·.2)
      = (Stream.mapMAux f (kvs.map (·.2)) e).vals ∧
    (Stream.mapMAux (fun kv : κ × α => (do let v ← f kv.2; .ok (kv.1, v) : Res (κ × β))) kvs e).vals.map (·.1)
      = (kvs.map (·.1)).take
          (Stream.mapMAux (fun kv : κ × α => (do let v ← f kv.2; .ok (kv.1, v) : Res (κ × β))) kvs e).vals.length
  | [] => by simp [Stream.mapMAux]
  | kv :: kvs => by
    obtain ⟨h1, h2, h3⟩ := mapMAux_pair f e kvs
    cases hfx : f kv.2 with
    | error e' => simp [Stream.mapMAux, hfx, bind, Except.bind]
    | ok y =>
      simp only [Stream.mapMAux, hfx, bind, Except.bind, List.map_cons, List.length_cons,
        List.take_succ_cons]
      simp only [bind, Except.bind] at h1 h2 h3
      exact ⟨h1, by rw [h2], by rw [← h3]⟩

/-! ### `Stream.filterMAux` -/

theorem filterMAux_err_none {α} (f : α → Res Bool) (e : Option Err) : ∀ (l : List α),
    (Stream.filterMAux f l e).err = none → e = none
  | [] => by simp [Stream.filterMAux]
  | x :: l => by
    have ih := filterMAux_err_none f e l
    cases hfx : f x with
    | error e' => simp [Stream.filterMAux, hfx]
    | ok b =>
      cases b with
      | true => simpa [Stream.filterMAux, hfx] using ih
      | false => simpa [Stream.filterMAux, hfx] using ih

/-- the result ends normally iff the input does and the predicate never raises -/
theorem filterMAux_err_none_iff {α} (f : α → Res Bool) (e : Option Err) : ∀ (l : List α),
    (Stream.filterMAux f l e).err = none ↔ e = none ∧ ∀ x ∈ l, ∃ b, f x = .ok b
  | [] => by simp [Stream.filterMAux]
  | x :: l => by
    have ih := filterMAux_err_none_iff f e l
    cases hfx : f x with
    | error e' =>
      simp only [Stream.filterMAux, hfx, List.mem_cons]
      constructor
      · intro h; cases h
      · rintro ⟨_, h⟩
        obtain ⟨y, hy⟩ := h x (Or.inl rfl)
        rw [hfx] at hy; cases hy
    | ok b =>
      have key : (Stream.filterMAux f (x :: l) e).err = (Stream.filterMAux f l e).err := by
        cases b <;> simp [Stream.filterMAux, hfx]
      rw [key, ih]
      constructor
      · rintro ⟨a, c⟩
        refine ⟨a, ?_⟩
        intro x' hx'
        rcases List.mem_cons.mp hx' with rfl | hx'
        · exact ⟨b, hfx⟩
        · exact c x' hx'
      · rintro ⟨a, c⟩
        exact ⟨a, fun x' hx' => c x' (List.mem_cons_of_mem _ hx')⟩

/-- the values of `for x in s: if f(x): yield x` are a sublist of the input -/
theorem filterMAux_sublist {α} (f : α → Res Bool) (e : Option Err) : ∀ (l : List α),
    (Stream.filterMAux f l e).vals.Sublist l
  | [] => by simp [Stream.filterMAux]
  | x :: l => by
    have ih := filterMAux_sublist f e l
    cases hfx : f x with
    | error e' => simp [Stream.filterMAux, hfx]
    | ok b =>
      cases b with
      | true => simpa [Stream.filterMAux, hfx] using ih
      | false => simpa [Stream.filterMAux, hfx] using List.Sublist.cons x ih

theorem filterMAux_prefix {α} (f : α → Res Bool) (e1 e2 : Option Err) : ∀ (p l : List α), p <+: l →
    (Stream.filterMAux f p e1).vals <+: (Stream.filterMAux f l e2).vals
  | [], l, _ => by simp [Stream.filterMAux]
  | x :: p, [], h => by simp at h
  | x :: p, x' :: l, h => by
    rw [List.cons_prefix_cons] at h
    obtain ⟨rfl, h⟩ := h
    have ih := filterMAux_prefix f e1 e2 p l h
    cases hfx : f x with
    | error e' => simp [Stream.filterMAux, hfx]
    | ok b =>
      cases b with
      | true =>
        simp only [Stream.filterMAux, hfx, List.cons_prefix_cons, true_and]
        exact ih
      | false =>
        simp only [Stream.filterMAux, hfx]
        exact ih

/-- filtering `(key, example)` pairs on the example commutes with dropping the keys -/
theorem filterMAux_pair {κ α} (f : α → Res Bool) (e : Option Err) : ∀ (kvs : List (κ × α)),
    (Stream.filterMAux (fun kv : κ × α => f kv.2) kvs e).err = (Stream.filterMAux f (kvs.map (·.2)) e).err ∧
    (Stream.filterMAux (fun kv : κ × α => f kv.2) kvs e).vals.map (·.2)
      = (Stream.filterMAux f (kvs.map (·.2)) e).vals
  | [] => by simp [Stream.filterMAux]
  | kv :: kvs => by
    obtain ⟨h1, h2⟩ := filterMAux_pair f e kvs
    cases hfx : f kv.2 with
    | error e' => simp [Stream.filterMAux, hfx]
    | ok b =>
      cases b with
      | true =>
        simp only [Stream.filterMAux, hfx, List.map_cons]
        exact ⟨h1, by rw [h2]⟩
      | false =>
        simp only [Stream.filterMAux, hfx, List.map_cons]
        exact ⟨h1, h2⟩

/-! ### the same facts for `Stream.mapM` / `Stream.filterM` -/

theorem mapM_vals {α β} (f : α → Res β) (s : Stream α) :
    (s.mapM f).vals.map .ok = (s.vals.take (s.mapM f).vals.length).map f :=
  mapMAux_vals f s.err s.vals

theorem mapM_err_none_iff {α β} (f : α → Res β) (s : Stream α) :
    (s.mapM f).err = none ↔ s.err = none ∧ ∀ x ∈ s.vals, ∃ y, f x = .ok y :=
  mapMAux_err_none_iff f s.err s.vals

theorem mapM_length_of_err_none {α β} (f : α → Res β) (s : Stream α) (h : (s.mapM f).err = none) :
    (s.mapM f).vals.length = s.vals.length :=
  ((mapMAux_spec f s.err s.vals).2.2 h).2

theorem filterM_sublist {α} (f : α → Res Bool) (s : Stream α) : (s.filterM f).vals.Sublist s.vals :=
  filterMAux_sublist f s.err s.vals

theorem filterM_err_none_iff {α} (f : α → Res Bool) (s : Stream α) :
    (s.filterM f).err = none ↔ s.err = none ∧ ∀ x ∈ s.vals, ∃ b, f x = .ok b :=
  filterMAux_err_none_iff f s.err s.vals

/-! ### map -/

theorem wf2_map (f : Val → Res Val) {r : RefDS} (h : RefWF2 r) : RefWF2 (Ref.map f r) := by
  obtain ⟨⟨hpos, hlen, hpairs, hkeyed⟩, hlo, hkl⟩ := h
  obtain ⟨s1, s2, s3⟩ := mapMAux_spec f r.stream.err r.stream.vals
  obtain ⟨k1, k2, k3⟩ := mapMAux_pair (κ := String) f r.kstream.err r.kstream.vals
  refine { pos := ?_, len := ?_, pairs := ?_, keyed := ?_, lenOuts := ?_, keysLen := ?_ }
  · intro hi
    obtain ⟨p1, p2, p3⟩ := hpos hi
    simp only [Ref.map, Stream.mapM, List.length_map]
    refine ⟨by omega, ?_, ?_⟩
    · intro t ht
      have ht' : t < r.stream.vals.length := by omega
      rw [List.getElem?_map, p2 t ht']
      simp only [Option.map_some, ok_bind]
      rw [s2 t ht ht']
    · intro he
      obtain ⟨a, b⟩ := s3 he
      rw [b]; exact p3 a
  · intro n hn he
    simp only [Ref.map, Stream.mapM] at hn he ⊢
    obtain ⟨a, b⟩ := s3 he
    rw [b]; exact hlen n hn a
  · simp only [Ref.map, Stream.mapM]
    constructor
    · rw [k2]; exact mapMAux_prefix f _ _ _ _ hpairs.1
    · intro he
      rw [k1] at he
      have a := ((mapMAux_spec f _ _).2.2 he).1
      obtain ⟨b, c⟩ := hpairs.2 a
      rw [b, a] at he
      rw [k2, b, a, c]
      exact ⟨rfl, he⟩
  · intro ks hks hi
    obtain ⟨q1, q2, q3⟩ := hkeyed ks hks hi
    simp only [Ref.map, Stream.mapM]
    refine ⟨by rw [k1, q2, q1], by rw [k2, q2, q1], ?_⟩
    rw [k3, q3, List.take_take]
    congr 1
    have := (mapMAux_spec (fun kv : String × Val => (do let v ← f kv.2; .ok (kv.1, v) : Res (String × Val)))
      r.kstream.err r.kstream.vals).1
    omega
  · intro hi
    simp only [Ref.map, List.length_map]
    exact hlo hi
  · intro hi ks hks
    simp only [Ref.map, List.length_map]
    exact hkl hi ks hks

/-! ### lazy filter, unbatch -/

theorem wf2_filter (f : Val → Res Bool) {r : RefDS} (h : RefWF2 r) : RefWF2 (Ref.filter f r) := by
  obtain ⟨⟨_, _, hpairs, _⟩, _, _⟩ := h
  obtain ⟨k1, k2⟩ := filterMAux_pair (κ := String) f r.kstream.err r.kstream.vals
  refine { pos := ?_, len := ?_, pairs := ?_, keyed := ?_, lenOuts := ?_, keysLen := ?_ }
  · intro hi; cases hi
  · intro n hn; cases hn
  · simp only [Ref.filter, Stream.filterM]
    constructor
    · rw [k2]; exact filterMAux_prefix f _ _ _ _ hpairs.1
    · intro he
      rw [k1] at he
      have a := filterMAux_err_none f _ _ he
      obtain ⟨b, c⟩ := hpairs.2 a
      rw [b, a] at he
      rw [k2, b, a, c]
      exact ⟨rfl, he⟩
  · intro ks hks; cases hks
  · intro hi; cases hi
  · intro hi; cases hi

theorem wf2_unbatch {r : RefDS} (_h : RefWF2 r) : RefWF2 (Ref.unbatch r) := by
  refine { pos := ?_, len := ?_, pairs := ?_, keyed := ?_, lenOuts := ?_, keysLen := ?_ }
  · intro hi; cases hi
  · intro n hn; cases hn
  · simp [Ref.unbatch, Stream.fail]
  · intro ks hks; cases hks
  · intro hi; cases hi
  · intro hi; cases hi

/-! ### slice -/

/-- a successful `itemgetter(*sel)(keys)` is the selected keys -/
theorem selectKeys_ok (ks ks' : List String) (sel : List Nat) (hsel : ∀ j ∈ sel, j < ks.length)
    (h : Ref.selectKeys (.ok ks) sel = .ok ks') : ks' = sel.map (fun j => ks[j]?.getD "") := by
  obtain ⟨hlen, hget⟩ := mapM_ok _ sel ks' h
  apply List.ext_getElem
  · simp [hlen]
  · intro t h1 h2
    have ht : t < sel.length := by omega
    have hlt : sel[t] < ks.length := hsel _ (List.getElem_mem _)
    have := hget t ht h1
    rw [pyIndex_lt ks sel[t] hlt] at this
    injection this with this
    simp [← this, hlt]

theorem wf2_slice (sel : List Nat) {r : RefDS} (h : RefWF2 r) (hi : r.indexable = true)
    (hsel : ∀ j ∈ sel, j < r.outs.length) : RefWF2 (Ref.slice sel r) := by
  have hkl := h.keysLen hi
  have hsel' : ∀ ks, r.keys = .ok ks → ∀ j ∈ sel, j < ks.length := by
    intro ks hks j hj; rw [hkl ks hks]; exact hsel j hj
  have key : ∀ ks, r.keys = .ok ks → (Ref.slice sel r).kstream =
      Stream.ofOuts (pairOuts (sel.map (fun j => ks[j]?.getD ""))
        (sel.map (fun (j : Nat) => outAt r.outs (j : Int)))) := by
    intro ks hks
    simp only [Ref.slice, Ref.selectK, hks]
    rw [sel_map_pair ks r.outs sel (hsel' ks hks)]
  have hs : (Ref.slice sel r).stream = Stream.ofOuts (sel.map (fun (j : Nat) => outAt r.outs (j : Int))) := rfl
  have ho : (Ref.slice sel r).outs = sel.map (fun (j : Nat) => outAt r.outs (j : Int)) := rfl
  obtain ⟨o1, o2, o3, _⟩ := ofOuts_pos' (sel.map (fun (j : Nat) => outAt r.outs (j : Int)))
  have hpair : ∀ ks, r.keys = .ok ks → _ := fun ks (_ : r.keys = .ok ks) =>
    ofOuts_pairOuts (sel.map (fun j => ks[j]?.getD "")) (sel.map (fun (j : Nat) => outAt r.outs (j : Int)))
      (by simp)
  refine { pos := ?_, len := ?_, pairs := ?_, keyed := ?_, lenOuts := ?_, keysLen := ?_ }
  · intro _
    rw [hs, ho]
    exact ⟨o1, o2, o3⟩
  · intro n hn he
    rw [hs] at he ⊢
    simp only [Ref.slice] at hn
    injection hn with hn
    rw [o3 he, ← hn, List.length_map]
  · cases hks : r.keys with
    | error e => simp [Ref.slice, Ref.selectK, hks, Stream.fail]
    | ok ks =>
      obtain ⟨a, b, _⟩ := hpair ks hks
      rw [key ks hks, hs, b]
      exact ⟨List.prefix_refl _, fun he => ⟨rfl, by rw [← a]; exact he⟩⟩
  · intro ks' hks' _
    simp only [Ref.slice] at hks'
    cases hks : r.keys with
    | error e => rw [hks] at hks'; cases hks'
    | ok ks =>
      rw [hks] at hks'
      have e := selectKeys_ok ks ks' sel (hsel' ks hks) hks'
      rw [key ks hks, hs, e]
      exact hpair ks hks
  · intro _
    simp [Ref.slice]
  · intro _ ks' hks'
    simp only [Ref.slice] at hks' ⊢
    cases hks : r.keys with
    | error e => rw [hks] at hks'; cases hks'
    | ok ks =>
      rw [hks] at hks'
      rw [selectKeys_ok ks ks' sel (hsel' ks hks) hks']
      simp

/-! ### items -/

theorem mapErr_eq_none (e : Option Err) : Ref.mapErr e = none ↔ e = none := by
  cases e <;> simp [Ref.mapErr]

theorem wf2_items {r : RefDS} (h : RefWF2 r) (hk : r.indexable = true → ∃ ks, r.keys = .ok ks) :
    RefWF2 (Ref.items r) := by
  have e2 : (r.kstream.vals.map (fun kv => (kv.1, pairVal kv))).map (·.2) = r.kstream.vals.map pairVal := by
    simp [List.map_map, Function.comp_def]
  have e1 : (r.kstream.vals.map (fun kv => (kv.1, pairVal kv))).map (·.1) = r.kstream.vals.map (·.1) := by
    simp [List.map_map, Function.comp_def]
  refine { pos := ?_, len := ?_, pairs := ?_, keyed := ?_, lenOuts := ?_, keysLen := ?_ }
  · intro hi
    change r.indexable = true at hi
    obtain ⟨ks, hks⟩ := hk hi
    obtain ⟨q1, q2, q3⟩ := h.keyed ks hks hi
    obtain ⟨p1, p2, p3⟩ := h.pos hi
    have hkl := h.keysLen hi ks hks
    have hlen : r.kstream.vals.length = r.stream.vals.length := by rw [← q2, List.length_map]
    rw [items_outs r ks hks]
    simp only [Ref.items, List.length_map, List.length_range]
    refine ⟨by omega, ?_, ?_⟩
    · intro t ht
      have ht1 : t < r.stream.vals.length := by omega
      have ht2 : t < r.outs.length := by omega
      have ht3 : t < ks.length := by omega
      have ho : r.outs[t] = .ok r.stream.vals[t] := by
        have := p2 t ht1
        rw [List.getElem?_eq_getElem ht2] at this
        injection this
      have hv : r.stream.vals[t] = r.kstream.vals[t].2 := by
        have := congrArg (fun l => l[t]?) q2
        simp only [List.getElem?_map, List.getElem?_eq_getElem ht, List.getElem?_eq_getElem ht1,
          Option.map_some] at this
        injection this with this
        exact this.symm
      have hkt : ks[t] = r.kstream.vals[t].1 := by
        have := congrArg (fun l => l[t]?) q3
        simp only [List.getElem?_map, List.getElem?_eq_getElem ht, List.getElem?_take_of_lt ht,
          List.getElem?_eq_getElem ht3, Option.map_some] at this
        injection this with this
        exact this.symm
      rw [List.getElem?_map, List.getElem?_range ht2]
      simp only [Option.map_some]
      rw [itemAt_lt ks r.outs t ht3 ht2, ho, ok_bind, hkt, hv]
      simp
    · intro he
      have a := (mapErr_eq_none _).mp he
      rw [hlen]
      exact p3 (by rw [← q1]; exact a)
  · intro n hn he
    simp only [Ref.items] at hn he ⊢
    have a := (mapErr_eq_none _).mp he
    obtain ⟨b, c⟩ := h.pairs.2 a
    have := h.len n hn c
    rw [← b] at this
    simpa using this
  · simp only [Ref.items]
    rw [e2]
    exact ⟨List.prefix_refl _, fun he => ⟨rfl, he⟩⟩
  · intro ks hks hi
    obtain ⟨_, _, q3⟩ := h.keyed ks hks hi
    refine ⟨rfl, e2, ?_⟩
    show (r.kstream.vals.map (fun kv => (kv.1, pairVal kv))).map (·.1)
      = ks.take (r.kstream.vals.map (fun kv => (kv.1, pairVal kv))).length
    rw [e1, List.length_map]
    exact q3
  · intro hi
    have := h.lenOuts hi
    simp only [Ref.items]
    cases r.keys <;> simp [this]
  · intro hi ks hks
    have := h.keysLen hi ks hks
    change r.keys = .ok ks at hks
    simp [Ref.items, hks, this]

/-! ### cache -/

theorem wf2_cache {r : RefDS} (h : RefWF2 r) (hi : r.indexable = true) : RefWF2 (Ref.cache r) := by
  have hlo := h.lenOuts hi
  have hs : (Ref.cache r).stream = Stream.ofOuts r.outs := by simp only [Ref.cache, hlo]
  have hk : ∀ ks, r.keys = .ok ks → (Ref.cache r).kstream =
      Stream.ofOuts ((List.range r.outs.length).map (fun (j : Nat) => (do
        let k ← pyIndex ks (j : Int)
        let v ← outAt r.outs (j : Int)
        .ok (k, v) : Res (String × Val)))) := by
    intro ks hks
    simp only [Ref.cache, hks, hlo]
  obtain ⟨o1, o2, o3, _⟩ := ofOuts_pos' r.outs
  refine { pos := ?_, len := ?_, pairs := ?_, keyed := ?_, lenOuts := ?_, keysLen := ?_ }
  · intro _
    rw [hs]
    exact ⟨o1, o2, o3⟩
  · intro n hn he
    change r.len = .ok n at hn
    rw [hlo] at hn
    injection hn with hn
    rw [hs] at he ⊢
    rw [o3 he]; exact hn
  · cases hks : r.keys with
    | error e => simp [Ref.cache, hks, Stream.fail]
    | ok ks =>
      obtain ⟨a, b, _⟩ := ofOuts_pair r.outs ks (h.keysLen hi ks hks)
      rw [hk ks hks, hs, b]
      exact ⟨List.prefix_refl _, fun he => ⟨rfl, by rw [← a]; exact he⟩⟩
  · intro ks hks _
    change r.keys = .ok ks at hks
    rw [hk ks hks, hs]
    exact ofOuts_pair r.outs ks (h.keysLen hi ks hks)
  · intro _; exact hlo
  · intro _ ks hks; exact h.keysLen hi ks hks

theorem wf2_mkCache {r r' : RefDS} (h : RefWF2 r) (hr : Ref.mkCache r = .ok r') : RefWF2 r' := by
  unfold Ref.mkCache at hr
  by_cases hi : r.indexable = true
  · rw [if_pos hi] at hr
    injection hr with hr
    subst hr
    exact wf2_cache h hi
  · rw [if_neg hi] at hr
    cases hr

/-! ### catch -/

theorem wf2_catch (E : List Err) {r : RefDS} (h : RefWF2 r) (hi : r.indexable = true) :
    RefWF2 (Ref.catch_ E r) := by
  have hlo := h.lenOuts hi
  have hs : (Ref.catch_ E r).stream = catchOuts E r.outs := by simp only [Ref.catch_, hlo]
  refine { pos := ?_, len := ?_, pairs := ?_, keyed := ?_, lenOuts := ?_, keysLen := ?_ }
  · intro hc; cases hc
  · intro n hn; cases hn
  · cases hks : r.keys with
    | error e => simp [Ref.catch_, hks, Stream.fail]
    | ok ks =>
      have hk : (Ref.catch_ E r).kstream = catchOuts E ((List.range ks.length).map (fun (j : Nat) => (do
          let k ← pyIndex ks (j : Int)
          let v ← outAt r.outs (j : Int)
          .ok (k, v) : Res (String × Val)))) := by
        simp only [Ref.catch_, hks]
      obtain ⟨a, b⟩ := catchOuts_pair E r.outs ks (h.keysLen hi ks hks)
      rw [hk, hs, b]
      exact ⟨List.prefix_refl _, fun he => ⟨rfl, by rw [← a]; exact he⟩⟩
  · intro ks hks; cases hks
  · intro hc; cases hc
  · intro hc; cases hc

/-! ### prefetch (sequential meaning) -/

theorem wf2_prefetch (w : Nat) (t : Bool) (ce : Option (List Err)) {r : RefDS} (h : RefWF2 r)
    (hidx : (ce.isSome ∨ ¬(w = 1 ∧ t = true)) → r.indexable = true) :
    RefWF2 (Ref.prefetch w t ce r) := by
  refine { pos := ?_, len := ?_, pairs := ?_, keyed := ?_, lenOuts := ?_, keysLen := ?_ }
  · intro hc; cases hc
  · intro n hn he
    cases ce with
    | some E => simp only [Ref.prefetch] at hn; cases hn
    | none =>
      simp only [Ref.prefetch] at hn he ⊢
      by_cases hs : (w == 1 && t) = true
      · simp only [hs, if_true] at he ⊢
        exact h.len n hn he
      · simp only [hs] at he ⊢
        have hi : r.indexable = true := by
          apply hidx
          right
          intro ⟨h1, h2⟩
          apply hs
          simp [h1, h2]
        have hlo := h.lenOuts hi
        rw [hlo] at hn he ⊢
        injection hn with hn
        simp only [Bool.false_eq_true, if_false] at he ⊢
        rw [(ofOuts_pos' r.outs).2.2.1 he]
        exact hn
  · simp only [Ref.prefetch]
    by_cases hs : (w == 1 && t) = true
    · simp only [hs, if_true]
      cases ce with
      | none => exact h.pairs
      | some E => exact (wf2_catch E h (hidx (Or.inl rfl))).pairs
    · simp [hs, Stream.fail]
  · intro ks hks; cases hks
  · intro hc; cases hc
  · intro hc; cases hc

theorem wf2_mkPrefetch (w b : Nat) (t : Bool) (ce : Option (List Err)) {r r' : RefDS} (h : RefWF2 r)
    (hidx : (ce.isSome ∨ ¬(w = 1 ∧ t = true)) → r.indexable = true)
    (hr : Ref.mkPrefetch w b t ce r = .ok r') : RefWF2 r' := by
  have e : r' = Ref.prefetch w t ce r := by
    unfold Ref.mkPrefetch at hr
    by_cases hs : (w == 1 && t) = true <;> by_cases h1 : w < 1 <;> by_cases h2 : b < w <;>
      cases hl : r.len <;>
      simp [hs, h1, h2, hl, bind, Except.bind, throw, throwThe, MonadExceptOf.throw] at hr <;>
      exact hr.symm
  rw [e]
  exact wf2_prefetch w t ce h hidx

/-! ### parallel map: a map after the queue dropped the last `b` results of a failing input -/

theorem parMap_eq (f : Val → Res Val) (b : Nat) (r : RefDS) :
    Ref.parMap f b r = Ref.map f r := by
  simp only [Ref.parMap, Ref.map, parMapStream]

theorem wf2_parMap (f : Val → Res Val) (b : Nat) {r : RefDS} (h : RefWF2 r) :
    RefWF2 (Ref.parMap f b r) := by
  rw [parMap_eq]
  exact wf2_map f h

/-! ### eager cache: the result is a list source or a dict source -/

theorem wf2_mkCacheEager {r r' : RefDS} {o : Bool} (_h : RefWF2 r) (hr : Ref.mkCacheEager r o = .ok r') :
    RefWF2 r' := by
  unfold Ref.mkCacheEager at hr
  by_cases hg : (r.indexable || o) = true
  · simp only [hg, Bool.not_true, Bool.false_eq_true, if_false] at hr
    simp only [bind, Except.bind] at hr
    cases he : r.kstream.err with
    | some e =>
      simp only [he] at hr
      by_cases hee : (e == Err.itemsNotDefinedInternal) = true
      · simp only [hee, if_true] at hr
        cases hv : streamToRes r.stream with
        | error e' => simp only [hv] at hr; cases hr
        | ok vs =>
          simp only [hv] at hr
          injection hr with hr
          subst hr
          exact wf2_listSrc vs
      · simp only [hee] at hr
        cases hr
    | none =>
      simp only [he] at hr
      by_cases hdup : hasDup (r.kstream.vals.map (·.1)) = true
      · simp only [hdup, if_true] at hr
        injection hr with hr
        subst hr
        exact wf2_listSrc _
      · simp only [hdup] at hr
        injection hr with hr
        subst hr
        exact wf2_dictSrc _
  · simp [hg, bind, Except.bind, throw, throwThe, MonadExceptOf.throw] at hr

end LazyDs

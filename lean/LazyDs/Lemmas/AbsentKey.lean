import LazyDs.Lemmas.RelIntersperse
/-
  Key lookup of an absent key (part of property C03).

  `AbsentErr d`: whenever `d` has a key table, looking up a key that the table does not list raises.
  The statement is about the model of the lazy code (`DS`, `LazyDs/Model/Stage.lean`): it is proved
  stage by stage where it holds, and refuted for `SliceDataset` (known defect F15) and for an
  `IntersperseDataset` whose order table does not cover its parts (never built by the constructor).
-/
namespace LazyDs

/-- looking up a key that `keys()` does not list raises -/
def AbsentErr (d : DS) : Prop :=
  ∀ ks, d.keys = .ok ks → ∀ k, k ∉ ks → ∃ e, d.getKey k = .error e

/-! ### sources -/

theorem dictLookup_absent (kvs : List (String × Val)) (k : String) (h : k ∉ kvs.map (·.1)) :
    dictLookup kvs k = .error .keyError := by
  unfold dictLookup
  have hf : kvs.find? (·.1 == k) = none := by
    rw [List.find?_eq_none]
    intro kv hkv hc
    apply h
    have : kv.1 = k := by simpa using hc
    exact List.mem_map.2 ⟨kv, hkv, this⟩
  rw [hf]

/-- `DictDataset`: `self.examples[key]` raises `KeyError` (no distinctness of keys needed) -/
theorem absent_dictSrc' (kvs : List (String × Val)) : AbsentErr (dictSrc kvs) := by
  intro ks hks k hk
  have hks' : kvs.map (·.1) = ks := by
    have : (Except.ok (kvs.map (·.1)) : Res (List String)) = .ok ks := hks
    injection this
  subst hks'
  exact ⟨.keyError, dictLookup_absent kvs k hk⟩

theorem absent_dictSrc (kvs : List (String × Val)) (_hn : (kvs.map (·.1)).Nodup) : AbsentErr (dictSrc kvs) :=
  absent_dictSrc' kvs

/-- `ListDataset` has no key table (and every key lookup raises) -/
theorem absent_listSrc (xs : List Val) : AbsentErr (listSrc xs) := by
  intro ks hks; cases hks

/-! ### stages that forward the lookup -/

theorem absent_map (f : Val → Res Val) {d : DS} (h : AbsentErr d) : AbsentErr (mapDS f d) := by
  intro ks hks k hk
  obtain ⟨e, he⟩ := h ks hks k hk
  exact ⟨e, by simp only [mapDS, he, error_bind]⟩

theorem absent_parMap (f : Val → Res Val) (b : Nat) {d : DS} (h : AbsentErr d) : AbsentErr (parMapDS f b d) := by
  intro ks hks k hk
  obtain ⟨e, he⟩ := h ks hks k hk
  exact ⟨e, by simp only [parMapDS, mapDS, he, error_bind]⟩

theorem absent_cycle {d : DS} (h : AbsentErr d) : AbsentErr (cycleDS d) := h

/-! ### stages that go through `keys().index(key)` -/

theorem keyIndex_absent (ks : List String) (k : String) (h : k ∉ ks) : keyIndex ks k = .error .valueError := by
  unfold keyIndex
  have hf : ks.findIdx? (· == k) = none := by
    rw [List.findIdx?_eq_none_iff]
    intro x hx
    cases hc : x == k with
    | false => rfl
    | true =>
      have : x = k := by simpa using hc
      subst this
      exact absurd hx h
  rw [hf]

/-- `ItemsDataset.__getitem__(str)`: `self.input.keys().index(key)` raises `ValueError`, whatever
    the input does -/
theorem absent_items (d : DS) : AbsentErr (itemsDS d) := by
  intro ks hks k hk
  have hks' : d.keys = .ok ks := hks
  refine ⟨.valueError, ?_⟩
  simp only [itemsDS, hks', keyIndex_absent ks k hk, bind, Except.bind]

/-- `CacheDataset.__getitem__(str)`: `self.keys().index(key)` raises `ValueError`, whatever the input
    does -/
theorem absent_cache (d : DS) : AbsentErr (cacheDS d) := by
  intro ks hks k hk
  have hks' : d.keys = .ok ks := hks
  refine ⟨.valueError, ?_⟩
  simp only [cacheDS, hks', keyIndex_absent ks k hk, bind, Except.bind]

/-! ### concatenation: `KeyError` after the search -/

/-- the search `for dataset in input_datasets: if item in dataset.keys()` finds nothing when no part
    lists the key -/
theorem firstWithKey_none (k : String) : ∀ (ds : List DS),
    (∀ d ∈ ds, ∃ kl, d.keys = .ok kl ∧ k ∉ kl) → firstWithKey ds k = none
  | [], _ => rfl
  | d :: ds, h => by
    obtain ⟨kl, hkl, hk⟩ := h d (List.mem_cons_self ..)
    have hc : kl.contains k = false := by
      cases hcc : kl.contains k with
      | false => rfl
      | true => exact absurd (by simpa using hcc) hk
    simp only [firstWithKey, hkl, hc, Bool.false_eq_true, if_false]
    exact firstWithKey_none k ds (fun d' hd' => h d' (List.mem_cons_of_mem _ hd'))

theorem concatKeysRaw_ok : ∀ (ds : List DS) (ks : List String), concatKeysRaw ds = .ok ks →
    ∀ d ∈ ds, ∃ kl, d.keys = .ok kl ∧ ∀ x ∈ kl, x ∈ ks
  | [], _, _ => by intro d hd; cases hd
  | d0 :: ds, ks, h => by
    simp only [concatKeysRaw, bind, Except.bind] at h
    cases h0 : d0.keys with
    | error e => simp [h0] at h
    | ok a =>
      simp only [h0] at h
      cases h1 : concatKeysRaw ds with
      | error e => simp [h1] at h
      | ok b =>
        simp only [h1] at h
        injection h with h
        subst h
        intro d hd
        rcases List.mem_cons.1 hd with rfl | hd
        · exact ⟨a, h0, fun x hx => List.mem_append_left _ hx⟩
        · obtain ⟨kl, hkl, hsub⟩ := concatKeysRaw_ok ds b h1 d hd
          exact ⟨kl, hkl, fun x hx => List.mem_append_right _ (hsub x hx)⟩

/-- `ConcatenateDataset.__getitem__(str)`: no part lists the key, so the loop ends and `KeyError` is
    raised; nothing about the parts is needed -/
theorem absent_concat' (ds : List DS) : AbsentErr (concatDS ds) := by
  intro ks hks k hk
  have hks' : concatKeys ds = .ok ks := hks
  have hraw : concatKeysRaw ds = .ok ks := by
    unfold concatKeys at hks'
    cases h1 : concatKeysRaw ds with
    | error e => simp [h1, bind, Except.bind] at hks'
    | ok ks' =>
      simp only [h1, bind, Except.bind] at hks'
      cases hd : hasDup ks' with
      | true => simp [hd] at hks'
      | false =>
        simp only [hd, Bool.false_eq_true, if_false] at hks'
        injection hks' with hks'
        rw [hks']
  have hfw : firstWithKey ds k = none := by
    apply firstWithKey_none
    intro d hd
    obtain ⟨kl, hkl, hsub⟩ := concatKeysRaw_ok ds ks hraw d hd
    exact ⟨kl, hkl, fun hx => hk (hsub k hx)⟩
  refine ⟨.keyError, ?_⟩
  simp only [concatDS, hks', hfw, bind, Except.bind]

theorem absent_concat (ds : List DS) (_h : ∀ d ∈ ds, AbsentErr d) : AbsentErr (concatDS ds) :=
  absent_concat' ds

/-! ### intersperse (after the fix of F1: `KeyError` instead of `return None`)

  `IntersperseDataset.keys()` lists `keys[e.d][e.j]` along the order table, while `__getitem__(str)`
  searches the parts.  The two agree on which keys exist only if the table covers every position of
  every part; `intersperseOrder` does (`absent_mkIntersperse`), an arbitrary table does not
  (`absent_intersperse_counterexample`). -/

theorem mapM_mem_ok {α β} (f : α → Res β) (l : List α) (out : List β) (h : l.mapM f = .ok out)
    (a : α) (ha : a ∈ l) : ∃ b ∈ out, f a = .ok b := by
  obtain ⟨t, ht⟩ := List.getElem?_of_mem ha
  obtain ⟨b, hb, hfb⟩ := (isp_mapM_ok_getElem? f l out h).2 t a ht
  exact ⟨b, List.mem_of_getElem? hb, hfb⟩

theorem absent_intersperse_partial (ds : List DS) (order : List OrdEntry)
    (hcov : ∀ i d, ds[i]? = some d → ∀ kl, d.keys = .ok kl → ∀ j, j < kl.length →
      ∃ e ∈ order, e.d = i ∧ e.j = j) :
    AbsentErr (intersperseDS ds order) := by
  intro ks hks k hk
  have hks' : intersperseKeys ds order = .ok ks := hks
  have hks2 := hks'
  unfold intersperseKeys at hks2
  cases hm : ds.mapM (·.keys) with
  | error e => rw [hm] at hks2; cases hks2
  | ok kss =>
    rw [hm, ok_bind] at hks2
    cases ho : order.mapM (fun e => do let kl ← pyIndex kss (e.d : Int); pyIndex kl (e.j : Int)) with
    | error e => rw [ho] at hks2; cases hks2
    | ok ks' =>
      rw [ho, ok_bind] at hks2
      cases hd : hasDup ks' with
      | true => rw [hd] at hks2; cases hks2
      | false =>
        rw [hd] at hks2
        simp only [Bool.false_eq_true, if_false] at hks2
        injection hks2 with hks2
        subst hks2
        have hfw : firstWithKey ds k = none := by
          apply firstWithKey_none
          intro d hd
          obtain ⟨i, hi⟩ := List.getElem?_of_mem hd
          obtain ⟨kl, hkl, hdk⟩ := (isp_mapM_ok_getElem? _ ds kss hm).2 i d hi
          have hdk' : d.keys = .ok kl := hdk
          refine ⟨kl, hdk', ?_⟩
          intro hmem
          obtain ⟨j, hj, hjk⟩ := List.getElem_of_mem hmem
          obtain ⟨e, he, hed, hej⟩ := hcov i d hi kl hdk' j hj
          have hfe : (do let kl ← pyIndex kss (e.d : Int); pyIndex kl (e.j : Int)) = (Except.ok k : Res String) := by
            rw [isp_keyAt_ok_iff]
            refine ⟨kl, by rw [hed]; exact hkl, ?_⟩
            rw [hej, List.getElem?_eq_getElem hj, hjk]
          obtain ⟨b, hb, hfb⟩ := mapM_mem_ok _ order ks' ho e he
          rw [hfe] at hfb
          injection hfb with hfb
          subst hfb
          exact hk hb
        refine ⟨.keyError, ?_⟩
        simp only [intersperseDS, hks', hfw, bind, Except.bind]

/-- an order table that leaves out a position: the key table does not list the key, the lookup
    finds it -/
theorem absent_intersperse_counterexample :
    (intersperseDS [dictSrc [("a", .int 1)]] []).keys = .ok [] ∧
    (intersperseDS [dictSrc [("a", .int 1)]] []).getKey "a" = .ok (.int 1) ∧
    ¬ AbsentErr (intersperseDS [dictSrc [("a", .int 1)]] []) := by
  refine ⟨rfl, rfl, ?_⟩
  intro h
  obtain ⟨e, he⟩ := h [] rfl "a" (by simp)
  cases he

theorem allLens_getElem? : ∀ (ds : List DS) (lens : List Nat), allLens ds = .ok lens →
    ∀ (i : Nat) (d : DS), ds[i]? = some d → ∃ n, d.len = .ok n ∧ lens[i]? = some n
  | [], _, _ => by intro i d h; simp at h
  | d0 :: ds, lens, h => by
    simp only [allLens, bind, Except.bind] at h
    cases h0 : d0.len with
    | error e => simp [h0] at h
    | ok a =>
      simp only [h0] at h
      cases h1 : allLens ds with
      | error e => simp [h1] at h
      | ok b =>
        simp only [h1] at h
        injection h with h
        subst h
        intro i d hi
        cases i with
        | zero =>
          simp only [List.getElem?_cons_zero, Option.some.injEq] at hi
          subst hi
          exact ⟨a, h0, rfl⟩
        | succ i =>
          simp only [List.getElem?_cons_succ] at hi ⊢
          exact allLens_getElem? ds b h1 i d hi

/-- what `IntersperseDataset.__init__` builds: the table covers the parts as soon as every part's
    key table has one key per position (C03 of the parts) -/
theorem absent_mkIntersperse (ds : List DS) (d : DS) (h : mkIntersperse ds = .ok d)
    (hlen : ∀ d' ∈ ds, ∀ kl n, d'.keys = .ok kl → d'.len = .ok n → kl.length = n) : AbsentErr d := by
  unfold mkIntersperse at h
  cases he : ds.isEmpty with
  | true => simp [he, throw, throwThe, MonadExceptOf.throw, bind, Except.bind] at h
  | false =>
    simp only [he, Bool.false_eq_true, if_false, bind, Except.bind] at h
    cases hl : allLens ds with
    | error e => simp [hl] at h
    | ok lens =>
      simp only [hl] at h
      cases hz : lens.any (· == 0) with
      | true => simp [hz, throw, throwThe, MonadExceptOf.throw] at h
      | false =>
        simp only [hz, Bool.false_eq_true, if_false] at h
        have hd : intersperseDS ds (intersperseOrder lens) = d := by simpa using h
        rw [← hd]
        apply absent_intersperse_partial
        intro i d' hi kl hkl j hj
        obtain ⟨n, hn, hln⟩ := allLens_getElem? ds lens hl i d' hi
        have hkn := hlen d' (List.mem_of_getElem? hi) kl n hkl hn
        refine ⟨⟨j + 1, n, i, j⟩, ?_, rfl, rfl⟩
        rw [mem_order]
        exact ⟨hln, by simpa [hkn] using hj, rfl⟩

/-! ### key zip: the first part is asked first -/

/-- `KeyZipDataset.__getitem__(str)` builds `tuple(ds[key] for ds in self.input_datasets)`; the key
    table is the first part's, and the first part is evaluated first -/
theorem absent_keyZip (ds : List DS) (hne : ds ≠ []) (h : AbsentErr ds.head!) : AbsentErr (keyZipDS ds) := by
  cases ds with
  | nil => exact absurd rfl hne
  | cons d rest =>
    have hd : (d :: rest).head! = d := rfl
    rw [hd] at h
    intro ks hks k hk
    have hks' : d.keys = .ok ks := hks
    obtain ⟨e, he⟩ := h ks hks' k hk
    refine ⟨e, ?_⟩
    simp only [keyZipDS, tupleGet, List.mapM_cons, he, bind, Except.bind]

/-! ### stages without a key table (vacuous) -/

theorem absent_filter (f : Val → Res Bool) (d : DS) : AbsentErr (filterDS f d) := by
  intro ks hks; cases hks

theorem absent_catch (E : List Err) (d : DS) : AbsentErr (catchDS E d) := by
  intro ks hks; cases hks

theorem absent_batch (bs : Nat) (dropLast : Bool) (d : DS) : AbsentErr (batchDS bs dropLast d) := by
  intro ks hks; cases hks

theorem absent_zip (ds : List DS) : AbsentErr (zipDS ds) := by
  intro ks hks; cases hks

theorem absent_unbatch (d : DS) : AbsentErr (unbatchDS d) := by
  intro ks hks; cases hks

theorem absent_prefetch (w : Nat) (t : Bool) (ce : Option (List Err)) (d : DS) :
    AbsentErr (prefetchDS w t ce d) := by
  intro ks hks; cases hks

/-! ### slices: the statement fails (known defect F15)

  `SliceDataset.__getitem__(str)` forwards to its input without consulting the selection, so a key
  that the slice does not list is still found. -/

theorem absent_slice_counterexample :
    (sliceDS [1] (dictSrc [("a", .int 1), ("b", .int 2)])).keys = .ok ["b"] ∧
    (sliceDS [1] (dictSrc [("a", .int 1), ("b", .int 2)])).getKey "a" = .ok (.int 1) ∧
    AbsentErr (dictSrc [("a", .int 1), ("b", .int 2)]) ∧
    ¬ AbsentErr (sliceDS [1] (dictSrc [("a", .int 1), ("b", .int 2)])) := by
  refine ⟨rfl, rfl, absent_dictSrc' _, ?_⟩
  intro h
  obtain ⟨e, he⟩ := h ["b"] rfl "a" (by decide)
  cases he

/-- what does hold for a slice: a key that the INPUT does not list raises -/
theorem absent_slice_partial (sel : List Nat) {d : DS} (h : AbsentErr d) :
    ∀ ks0, d.keys = .ok ks0 → ∀ k, k ∉ ks0 → ∃ e, (sliceDS sel d).getKey k = .error e :=
  fun ks0 hks0 k hk => h ks0 hks0 k hk

end LazyDs

import LazyDs.Model.Db
/-
  Helper lemmas for C19 (`lazy_dataset/database.py`): association lists (`lookup`, `update`,
  `keysOf`, `intersects`), well-formedness `WF` (the association lists model Python dicts),
  `collectAlias`, `mergeInto`, and the weak memo (`mstep`, `mrun`, `MemoWF`).
  CORE LEAN ONLY.
-/
namespace LazyDs.Db

/-! ### Well-formed descriptions -/

/-- A description models Python dicts: dataset names are distinct, within each dataset the example
    ids are distinct, alias names are distinct. -/
structure WF (d : Desc) : Prop where
  datasets_nodup : (keysOf d.datasets).Nodup
  examples_nodup : ∀ p ∈ d.datasets, (keysOf p.2).Nodup
  alias_nodup : (keysOf (d.alias.getD [])).Nodup

/-! ### `lookup` -/

section lookup
variable {α : Type}

@[simp] theorem lookup_nil (k : String) : lookup ([] : List (String × α)) k = none := rfl

theorem lookup_cons (p : String × α) (l : List (String × α)) (k : String) :
    lookup (p :: l) k = if p.1 = k then some p.2 else lookup l k := by
  unfold lookup
  by_cases h : p.1 = k <;> simp [h]

@[simp] theorem keysOf_nil : keysOf ([] : List (String × α)) = [] := rfl

@[simp] theorem keysOf_cons (p : String × α) (l : List (String × α)) :
    keysOf (p :: l) = p.1 :: keysOf l := rfl

@[simp] theorem keysOf_append (l₁ l₂ : List (String × α)) :
    keysOf (l₁ ++ l₂) = keysOf l₁ ++ keysOf l₂ := by simp [keysOf]

theorem lookup_eq_none_iff (l : List (String × α)) (k : String) :
    lookup l k = none ↔ k ∉ keysOf l := by
  induction l with
  | nil => simp
  | cons p l ih =>
    rw [lookup_cons]
    by_cases h : p.1 = k
    · simp [h]
    · have h' : ¬ k = p.1 := fun e => h e.symm
      simp [h, h', ih]

theorem lookup_isSome_iff (l : List (String × α)) (k : String) :
    (lookup l k).isSome = true ↔ k ∈ keysOf l := by
  have := lookup_eq_none_iff l k
  cases h : lookup l k with
  | none => simpa using this.1 h
  | some v =>
    rw [h] at this
    simpa using this

theorem mem_keysOf_of_lookup {l : List (String × α)} {k : String} {v : α}
    (h : lookup l k = some v) : k ∈ keysOf l := by
  rw [← lookup_isSome_iff, h]; rfl

theorem mem_of_lookup {l : List (String × α)} {k : String} {v : α}
    (h : lookup l k = some v) : (k, v) ∈ l := by
  induction l with
  | nil => simp at h
  | cons p l ih =>
    rw [lookup_cons] at h
    by_cases hk : p.1 = k
    · simp [hk] at h
      have : p = (k, v) := by cases p; simp_all
      simp [this]
    · simp [hk] at h
      exact List.mem_cons_of_mem _ (ih h)

/-- in a dict (distinct keys) `lookup` finds every entry -/
theorem lookup_of_mem {l : List (String × α)} (hn : (keysOf l).Nodup) {k : String} {v : α}
    (h : (k, v) ∈ l) : lookup l k = some v := by
  induction l with
  | nil => simp at h
  | cons p l ih =>
    rw [keysOf_cons, List.nodup_cons] at hn
    rw [lookup_cons]
    rcases List.mem_cons.1 h with h | h
    · simp [← h]
    · have hk : k ∈ keysOf l := List.mem_map.2 ⟨(k, v), h, rfl⟩
      have : ¬ p.1 = k := fun e => hn.1 (e ▸ hk)
      simp [this, ih hn.2 h]

theorem lookup_append (l₁ l₂ : List (String × α)) (k : String) :
    lookup (l₁ ++ l₂) k = (lookup l₁ k).orElse (fun _ => lookup l₂ k) := by
  induction l₁ with
  | nil => simp
  | cons p l ih =>
    rw [List.cons_append, lookup_cons, lookup_cons]
    by_cases h : p.1 = k <;> simp [h, ih]

/-- in a dict (distinct keys) the order of the entries is irrelevant for `lookup` -/
theorem lookup_reverse {l : List (String × α)} (hn : (keysOf l).Nodup) (k : String) :
    lookup l.reverse k = lookup l k := by
  have hn' : (keysOf l.reverse).Nodup := by
    rw [keysOf, List.map_reverse]
    exact (List.reverse_perm _).nodup_iff.2 hn
  cases h : lookup l k with
  | none =>
    rw [lookup_eq_none_iff] at h ⊢
    simpa [keysOf, List.map_reverse] using h
  | some v =>
    exact lookup_of_mem hn' (List.mem_reverse.2 (mem_of_lookup h))

end lookup

/-- `WF` supplies the per-member hypothesis of `C19_alias_concat` (`hnd`) for every name -/
theorem WF.member_nodup {d : Desc} (h : WF d) (m : String) :
    (keysOf ((lookup d.datasets m).getD [])).Nodup := by
  cases hl : lookup d.datasets m with
  | none => simp
  | some ex => exact h.examples_nodup (m, ex) (mem_of_lookup hl)

/-! ### `intersects` -/

theorem intersects_eq_true_iff (a b : List String) :
    intersects a b = true ↔ ∃ k, k ∈ a ∧ k ∈ b := by
  simp [intersects, List.any_eq_true]

theorem intersects_eq_false_iff (a b : List String) :
    intersects a b = false ↔ ∀ k, k ∈ a → k ∉ b := by
  rw [← Bool.not_eq_true, intersects_eq_true_iff]
  simp

@[simp] theorem intersects_nil_left (b : List String) : intersects [] b = false := rfl

/-! ### `update` (`dict.update`) -/

section update
variable {α : Type}

/-- one step of `update`: `d[k] = v` -/
def set1 (l : List (String × α)) (k : String) (v : α) : List (String × α) :=
  if (lookup l k).isSome then l.map (fun kv => if kv.1 == k then (k, v) else kv) else l ++ [(k, v)]

@[simp] theorem update_nil (l : List (String × α)) : update l [] = l := rfl

theorem update_cons (l : List (String × α)) (k : String) (v : α) (rest : List (String × α)) :
    update l ((k, v) :: rest) = update (set1 l k v) rest := rfl

theorem lookup_map_set (l : List (String × α)) (k : String) (v : α) (k' : String) :
    lookup (l.map (fun kv => if kv.1 == k then (k, v) else kv)) k' =
      if k' = k then (lookup l k).map (fun _ => v) else lookup l k' := by
  induction l with
  | nil => simp
  | cons p l ih =>
    rw [List.map_cons, lookup_cons, ih, lookup_cons, lookup_cons]
    by_cases hp : p.1 = k <;> by_cases hk : k' = k <;> by_cases hpk : p.1 = k' <;>
      simp_all

/-- `d[k] = v; d[k']` -/
theorem lookup_set1 (l : List (String × α)) (k : String) (v : α) (k' : String) :
    lookup (set1 l k v) k' = if k' = k then some v else lookup l k' := by
  unfold set1
  cases h : lookup l k with
  | some w =>
    simp only [Option.isSome_some, if_true, lookup_map_set, h, Option.map_some]
  | none =>
    simp only [Option.isSome_none, Bool.false_eq_true, if_false, lookup_append, lookup_cons,
      lookup_nil]
    by_cases hk : k' = k
    · subst hk; simp [h]
    · have : ¬ k = k' := fun e => hk e.symm
      simp [hk, this]

/-- `dict.update` seen through `lookup`, no hypothesis: the LAST entry of `u` for a key wins -/
theorem lookup_update_last (l u : List (String × α)) (k : String) :
    lookup (update l u) k = (lookup u.reverse k).orElse (fun _ => lookup l k) := by
  induction u generalizing l with
  | nil => simp
  | cons p rest ih =>
    obtain ⟨k₀, v₀⟩ := p
    rw [update_cons, ih, lookup_set1, List.reverse_cons, lookup_append, lookup_cons]
    cases lookup rest.reverse k with
    | some w => simp
    | none =>
      by_cases hk : k = k₀
      · subst hk; simp
      · have : ¬ k₀ = k := fun e => hk e.symm
        simp [hk, this]

/-- `dict.update` seen through `lookup` when `u` is a dict: entries of `u` win over those of `l` -/
theorem lookup_update (l : List (String × α)) {u : List (String × α)} (hn : (keysOf u).Nodup)
    (k : String) :
    lookup (update l u) k = (lookup u k).orElse (fun _ => lookup l k) := by
  rw [lookup_update_last, lookup_reverse hn]

theorem mem_keysOf_update (l u : List (String × α)) (k : String) :
    k ∈ keysOf (update l u) ↔ k ∈ keysOf l ∨ k ∈ keysOf u := by
  rw [← lookup_isSome_iff, lookup_update_last]
  have hu : k ∈ keysOf u ↔ k ∈ keysOf u.reverse := by simp [keysOf, List.map_reverse]
  rw [hu, ← lookup_isSome_iff, ← lookup_isSome_iff]
  cases lookup u.reverse k <;> cases lookup l k <;> simp

theorem set1_of_not_mem {l : List (String × α)} {k : String} (h : k ∉ keysOf l) (v : α) :
    set1 l k v = l ++ [(k, v)] := by
  unfold set1
  rw [(lookup_eq_none_iff l k).2 h]; rfl

/-- `dict.update` with a dict whose keys are all new appends the entries in order -/
theorem update_eq_append {l u : List (String × α)} (hd : ∀ k, k ∈ keysOf u → k ∉ keysOf l)
    (hn : (keysOf u).Nodup) : update l u = l ++ u := by
  induction u generalizing l with
  | nil => simp
  | cons p rest ih =>
    obtain ⟨k₀, v₀⟩ := p
    rw [keysOf_cons, List.nodup_cons] at hn
    rw [update_cons, set1_of_not_mem (hd k₀ (by simp)), ih _ hn.2]
    · simp
    · intro k hk
      rw [keysOf_append, List.mem_append]
      rintro (h | h)
      · exact hd k (by simp [hk]) h
      · simp at h; subst h; exact hn.1 hk

theorem update_nil_left {u : List (String × α)} (hn : (keysOf u).Nodup) :
    update ([] : List (String × α)) u = u := by
  rw [update_eq_append (by simp) hn]; rfl

end update

/-! ### `augment` -/

theorem lookup_augment_example_id (name id : String) (f : Fields) :
    lookup (augment name id f) "example_id" = some (.str id) := by
  unfold augment
  rw [update_cons, update_cons, update_nil, lookup_set1, lookup_set1]
  simp

theorem lookup_augment_dataset (name id : String) (f : Fields) :
    lookup (augment name id f) "dataset" = some (.str name) := by
  unfold augment
  rw [update_cons, update_cons, update_nil, lookup_set1]
  simp

theorem lookup_augment_other (name id : String) (f : Fields) (k : String)
    (h1 : k ≠ "example_id") (h2 : k ≠ "dataset") :
    lookup (augment name id f) k = lookup f k := by
  unfold augment
  rw [update_cons, update_cons, update_nil, lookup_set1, lookup_set1]
  simp [h1, h2]

/-! ### `collectAlias` -/

/-- the stored examples of the members of an alias, member after member -/
def memberExamples (ds : Datasets) (members : List String) : Examples :=
  (members.map (fun m => (lookup ds m).getD [])).flatten

theorem keysOf_memberExamples (ds : Datasets) (members : List String) :
    keysOf (memberExamples ds members) =
      (members.map (fun m => keysOf ((lookup ds m).getD []))).flatten := by
  simp [memberExamples, keysOf, List.map_flatten, Function.comp_def]

theorem collectAlias_ok (ds : Datasets) (members : List String) (acc : Examples)
    (hex : ∀ m, m ∈ members → ∃ ex, lookup ds m = some ex)
    (hn : (keysOf acc ++ keysOf (memberExamples ds members)).Nodup) :
    collectAlias ds members acc = .ok (acc ++ memberExamples ds members) := by
  induction members generalizing acc with
  | nil => simp [collectAlias, memberExamples]
  | cons m rest ih =>
    obtain ⟨ex, hm⟩ := hex m (by simp)
    have hme : memberExamples ds (m :: rest) = ex ++ memberExamples ds rest := by
      simp [memberExamples, hm]
    rw [hme, keysOf_append, ← List.append_assoc] at hn
    have hn1 := (List.nodup_append.1 hn).1
    have hdisj : intersects (keysOf acc) (keysOf ex) = false := by
      rw [intersects_eq_false_iff]
      intro k hk hk'
      exact (List.nodup_append.1 hn1).2.2 k hk k hk' rfl
    have hupd : update acc ex = acc ++ ex :=
      update_eq_append (fun k hk hk' => (List.nodup_append.1 hn1).2.2 k hk' k hk rfl)
        (List.nodup_append.1 hn1).2.1
    rw [collectAlias, hm]
    simp only [hdisj, Bool.false_eq_true, if_false]
    rw [hupd, ih (acc ++ ex) (fun m' h' => hex m' (List.mem_cons_of_mem _ h'))
      (by rw [keysOf_append]; exact hn), hme, List.append_assoc]

/-- two members share no example id -/
def MembersDisjoint (ds : Datasets) (m₁ m₂ : String) : Prop :=
  ∀ k, k ∈ keysOf ((lookup ds m₁).getD []) → k ∉ keysOf ((lookup ds m₂).getD [])

theorem nodup_memberKeys (ds : Datasets) (members : List String)
    (hnd : ∀ m, m ∈ members → (keysOf ((lookup ds m).getD [])).Nodup)
    (hdisj : members.Pairwise (MembersDisjoint ds)) :
    (keysOf (memberExamples ds members)).Nodup := by
  rw [keysOf_memberExamples, List.Nodup, List.pairwise_flatten]
  constructor
  · intro l hl
    obtain ⟨m, hm, rfl⟩ := List.mem_map.1 hl
    exact hnd m hm
  · rw [List.pairwise_map]
    refine hdisj.imp ?_
    intro m₁ m₂ h x hx y hy e
    subst e
    exact h x hx hy

/-- if every member exists, collecting them either fails with the overlap assertion or succeeds,
    and it succeeds only if the members are pairwise disjoint (and disjoint from `acc`) -/
theorem collectAlias_total (ds : Datasets) (members : List String) (acc : Examples)
    (hex : ∀ m, m ∈ members → ∃ ex, lookup ds m = some ex) :
    collectAlias ds members acc = .error .assertionError ∨
      (∃ r, collectAlias ds members acc = .ok r ∧
        (∀ m, m ∈ members → ∀ k, k ∈ keysOf ((lookup ds m).getD []) → k ∉ keysOf acc) ∧
        members.Pairwise (MembersDisjoint ds)) := by
  induction members generalizing acc with
  | nil => right; exact ⟨acc, rfl, by simp, List.Pairwise.nil⟩
  | cons m rest ih =>
    obtain ⟨ex, hm⟩ := hex m (by simp)
    rw [collectAlias, hm]
    by_cases hi : intersects (keysOf acc) (keysOf ex) = true
    · left; simp [hi]
    · simp only [hi]
      have hi' := (intersects_eq_false_iff _ _).1 (by simpa using hi)
      rcases ih (update acc ex) (fun m' h' => hex m' (List.mem_cons_of_mem _ h')) with h | ⟨r, hr, h1, h2⟩
      · left; exact h
      · right
        refine ⟨r, hr, ?_, ?_⟩
        · intro m' hm' k hk hka
          rcases List.mem_cons.1 hm' with e | hm'
          · subst e; rw [hm] at hk; exact hi' k hka hk
          · exact h1 m' hm' k hk ((mem_keysOf_update _ _ _).2 (Or.inl hka))
        · rw [List.pairwise_cons]
          refine ⟨?_, h2⟩
          intro m' hm' k hk hk'
          rw [hm] at hk
          exact h1 m' hm' k hk' ((mem_keysOf_update _ _ _).2 (Or.inr hk))

/-- an overlap between the examples collected so far and the next member is rejected -/
theorem collectAlias_overlap (ds : Datasets) (m : String) (rest : List String) (acc ex : Examples)
    (hm : lookup ds m = some ex) (h : intersects (keysOf acc) (keysOf ex) = true) :
    collectAlias ds (m :: rest) acc = .error .assertionError := by
  rw [collectAlias, hm]; simp [h]

/-! ### `mergeInto` with one later description -/

/-- the names the later description must not reuse -/
def takenNames (d : Desc) : List String := keysOf d.datasets ++ keysOf (d.alias.getD [])

/-- the names a description introduces -/
def newNames (d : Desc) : List String := keysOf d.datasets ++ keysOf (d.alias.getD [])

theorem mergeInto_one_ok (d₁ d₂ : Desc) (hx : d₂.extra = [])
    (hc : ∀ n, n ∈ newNames d₂ → n ∉ takenNames d₁) :
    mergeInto d₁ [d₂] = .ok
      { d₁ with
        datasets := update d₁.datasets d₂.datasets
        alias := match d₂.alias with
          | none => d₁.alias
          | some al => some (update (d₁.alias.getD []) al) } := by
  have h1 : intersects (keysOf d₂.datasets) (keysOf d₁.datasets ++ keysOf (d₁.alias.getD [])) = false := by
    rw [intersects_eq_false_iff]
    intro k hk
    exact hc k (by simp [newNames, hk])
  unfold mergeInto
  simp only [hx, List.isEmpty_nil, Bool.not_true, Bool.false_eq_true, if_false, h1]
  cases hal : d₂.alias with
  | none => simp [mergeInto]
  | some al =>
    have h2 : intersects (keysOf al) (keysOf d₁.datasets ++ keysOf (d₁.alias.getD [])) = false := by
      rw [intersects_eq_false_iff]
      intro k hk
      exact hc k (by simp [newNames, hal, hk])
    simp [h2, mergeInto]

theorem mergeInto_one_extra (d₁ d₂ : Desc) (hx : d₂.extra ≠ []) :
    mergeInto d₁ [d₂] = .error .assertionError := by
  unfold mergeInto
  have : d₂.extra.isEmpty = false := by
    cases h : d₂.extra with
    | nil => exact absurd h hx
    | cons a b => rfl
  simp [this]

theorem mergeInto_one_clash (d₁ d₂ : Desc) (n : String) (hn : n ∈ newNames d₂)
    (ht : n ∈ takenNames d₁) : mergeInto d₁ [d₂] = .error .assertionError := by
  unfold mergeInto
  by_cases hx : d₂.extra.isEmpty = true
  · simp only [hx, Bool.not_true, Bool.false_eq_true, if_false]
    by_cases h1 : intersects (keysOf d₂.datasets)
        (keysOf d₁.datasets ++ keysOf (d₁.alias.getD [])) = true
    · simp [h1]
    · simp only [h1]
      have h1' := (intersects_eq_false_iff _ _).1 (by simpa using h1)
      have hn' : n ∈ keysOf (d₂.alias.getD []) := by
        rcases List.mem_append.1 hn with h | h
        · exact absurd ht (h1' n h)
        · exact h
      cases hal : d₂.alias with
      | none => simp [hal] at hn'
      | some al =>
        have h2 : intersects (keysOf al) (keysOf d₁.datasets ++ keysOf (d₁.alias.getD [])) = true := by
          rw [intersects_eq_true_iff]
          exact ⟨n, by simpa [hal] using hn', ht⟩
        simp [h2]
  · simp [hx]

/-- if merging succeeds, the later description has no extra keys and reuses no name -/
theorem mergeInto_one_inv {d₁ d₂ m : Desc} (h : mergeInto d₁ [d₂] = .ok m) :
    d₂.extra = [] ∧ ∀ n, n ∈ newNames d₂ → n ∉ takenNames d₁ := by
  constructor
  · cases hx : d₂.extra with
    | nil => rfl
    | cons a b =>
      rw [mergeInto_one_extra d₁ d₂ (by simp [hx])] at h
      cases h
  · intro n hn ht
    rw [mergeInto_one_clash d₁ d₂ n hn ht] at h
    cases h

/-! ### `getExamples` -/

theorem getExamples_dataset (d : Desc) (name : String)
    (ha : lookup (d.alias.getD []) name = none) :
    getExamples d name =
      match lookup d.datasets name with
      | none => .error .keyError
      | some ex => if ex.isEmpty then .error .runtimeError
          else .ok (ex.map (fun (id, f) => (id, augment name id f))) := by
  unfold getExamples
  rw [ha]
  cases lookup d.datasets name <;> rfl

theorem getExamples_alias (d : Desc) (name : String) (members : List String)
    (ha : lookup (d.alias.getD []) name = some members) :
    getExamples d name =
      match collectAlias d.datasets members [] with
      | .error e => .error e
      | .ok raw => if raw.isEmpty then .error .runtimeError
          else .ok (raw.map (fun (id, f) => (id, augment name id f))) := by
  cases h : collectAlias d.datasets members [] <;> simp [getExamples, ha, h, bind, Except.bind]

/-! ### `getMany` -/

/-- the examples `getExamples` delivers for `n`, nothing if it raises -/
def examplesOr (d : Desc) (n : String) : Examples :=
  match getExamples d n with
  | .ok p => p
  | .error _ => []

theorem getMany_ok_iff (d : Desc) (names : List String) (exs : Examples) :
    getMany d names = .ok exs ↔
      (∀ n, n ∈ names → ∃ p, getExamples d n = .ok p) ∧
        exs = (names.map (examplesOr d)).flatten := by
  induction names generalizing exs with
  | nil => simp [getMany, eq_comm]
  | cons n rest ih =>
    cases hg : getExamples d n with
    | error e =>
      simp [getMany, hg, bind, Except.bind]
    | ok a =>
      cases hr : getMany d rest with
      | error e =>
        have : ¬ ∀ n, n ∈ rest → ∃ p, getExamples d n = .ok p := by
          intro h
          have := (ih _).2 ⟨h, rfl⟩
          rw [hr] at this; cases this
        simp [getMany, hg, hr, bind, Except.bind]
        intro h; exact absurd h this
      | ok b =>
        obtain ⟨h1, h2⟩ := (ih b).1 hr
        simp [getMany, hg, hr, bind, Except.bind, examplesOr, ← h2]
        constructor
        · intro h; exact ⟨h1, h.symm⟩
        · intro h; exact h.2.symm

theorem getMany_mapM (d : Desc) (names : List String) :
    getMany d names = (do let parts ← names.mapM (getExamples d); .ok parts.flatten) := by
  induction names with
  | nil => simp [getMany]
  | cons n rest ih =>
    rw [getMany, ih, List.mapM_cons]
    cases getExamples d n <;> cases List.mapM (getExamples d) rest <;> rfl

/-! ### the weak memo -/

/-- run a sequence of requests / collections, keeping only the memo state -/
def mrun (d : Desc) (s : MemoSt) (ops : List MOp) : MemoSt :=
  ops.foldl (fun s op => (mstep d s op).1) s

@[simp] theorem mrun_nil (d : Desc) (s : MemoSt) : mrun d s [] = s := rfl

@[simp] theorem mrun_cons (d : Desc) (s : MemoSt) (op : MOp) (ops : List MOp) :
    mrun d s (op :: ops) = mrun d (mstep d s op).1 ops := rfl

/-- every live object was created earlier: its identity is below the next identity -/
def MemoWF (s : MemoSt) : Prop := ∀ p, p ∈ s.memo → p.2 < s.next

theorem mstep_get_cases (d : Desc) (s : MemoSt) (name : String) :
    (∃ e, getExamples d name = .error e ∧ mstep d s (.get name) = (s, some (.error e))) ∨
    (∃ ex id, getExamples d name = .ok ex ∧ lookup s.memo name = some id ∧
        mstep d s (.get name) = (s, some (.ok (id, ex)))) ∨
    (∃ ex, getExamples d name = .ok ex ∧ lookup s.memo name = none ∧
        mstep d s (.get name) =
          ({ memo := s.memo ++ [(name, s.next)], next := s.next + 1 }, some (.ok (s.next, ex)))) := by
  unfold mstep
  cases hl : lookup s.memo name <;> cases hg : getExamples d name <;> simp [hl, hg]

theorem mstep_next_le (d : Desc) (s : MemoSt) (op : MOp) : s.next ≤ (mstep d s op).1.next := by
  cases op with
  | gc name => simp [mstep]
  | get name =>
    rcases mstep_get_cases d s name with ⟨e, _, h⟩ | ⟨ex, id, _, _, h⟩ | ⟨ex, _, _, h⟩ <;> simp [h]

theorem mrun_next_le (d : Desc) (s : MemoSt) (ops : List MOp) : s.next ≤ (mrun d s ops).next := by
  induction ops generalizing s with
  | nil => simp
  | cons op ops ih => exact Nat.le_trans (mstep_next_le d s op) (ih _)

theorem memoWF_mstep (d : Desc) (s : MemoSt) (op : MOp) (h : MemoWF s) : MemoWF (mstep d s op).1 := by
  cases op with
  | gc name =>
    intro p hp
    simp [mstep] at hp
    exact h p hp.1
  | get name =>
    rcases mstep_get_cases d s name with ⟨e, _, h'⟩ | ⟨ex, id, _, _, h'⟩ | ⟨ex, _, _, h'⟩
    · rw [h']; exact h
    · rw [h']; exact h
    · rw [h']
      intro p hp
      simp at hp
      rcases hp with hp | hp
      · exact Nat.lt_succ_of_lt (h p hp)
      · subst hp; simp

theorem memoWF_mrun (d : Desc) (s : MemoSt) (ops : List MOp) (h : MemoWF s) :
    MemoWF (mrun d s ops) := by
  induction ops generalizing s with
  | nil => exact h
  | cons op ops ih => exact ih _ (memoWF_mstep d s op h)

theorem lookup_lt_next {s : MemoSt} (h : MemoWF s) {name : String} {id : Nat}
    (hl : lookup s.memo name = some id) : id < s.next :=
  h (name, id) (mem_of_lookup hl)

theorem lookup_filter_ne {α : Type} (l : List (String × α)) {other name : String}
    (hne : other ≠ name) : lookup (l.filter (·.1 != other)) name = lookup l name := by
  induction l with
  | nil => rfl
  | cons p l ih =>
    by_cases hp : p.1 = other
    · have : ¬ p.1 = name := fun e => hne (hp ▸ e)
      simp [hp, lookup_cons, ih, hp ▸ this]
    · simp [hp, lookup_cons, ih]

/-- a live entry survives every step except the collection of that very name -/
theorem mstep_keeps (d : Desc) (s : MemoSt) (op : MOp) (name : String) (id : Nat)
    (hop : op ≠ .gc name) (hl : lookup s.memo name = some id) :
    lookup (mstep d s op).1.memo name = some id := by
  cases op with
  | gc other =>
    have hne : other ≠ name := fun e => hop (e ▸ rfl)
    simp only [mstep]
    rw [lookup_filter_ne _ hne, hl]
  | get other =>
    rcases mstep_get_cases d s other with ⟨e, _, h'⟩ | ⟨ex, id', _, _, h'⟩ | ⟨ex, _, _, h'⟩
    · rw [h']; exact hl
    · rw [h']; exact hl
    · rw [h']; simp [lookup_append, hl]

theorem mrun_keeps (d : Desc) (s : MemoSt) (ops : List MOp) (name : String) (id : Nat)
    (hops : ∀ op, op ∈ ops → op ≠ .gc name) (hl : lookup s.memo name = some id) :
    lookup (mrun d s ops).memo name = some id := by
  induction ops generalizing s with
  | nil => exact hl
  | cons op ops ih =>
    exact ih _ (fun o ho => hops o (List.mem_cons_of_mem _ ho))
      (mstep_keeps d s op name id (hops op (by simp)) hl)

theorem lookup_after_gc (d : Desc) (s : MemoSt) (name : String) :
    lookup (mstep d s (.gc name)).1.memo name = none := by
  rw [lookup_eq_none_iff]
  simp [mstep, keysOf]

/-- after a successful `get name` the name is live with the returned identity -/
theorem lookup_after_get {d : Desc} {s : MemoSt} {name : String} {id : Nat} {ex : Examples}
    (h : (mstep d s (.get name)).2 = some (.ok (id, ex))) :
    lookup (mstep d s (.get name)).1.memo name = some id ∧ getExamples d name = .ok ex := by
  rcases mstep_get_cases d s name with ⟨e, _, h'⟩ | ⟨ex', id', hg, hl, h'⟩ | ⟨ex', hg, hl, h'⟩
  · rw [h'] at h; simp at h
  · rw [h'] at h ⊢; simp at h; simp [← h.1, ← h.2, hl, hg]
  · rw [h'] at h ⊢; simp at h
    simp [← h.1, ← h.2, hg, lookup_append, hl, lookup_cons]

/-! ### concrete descriptions for the examples in `Props/C19.lean` -/

def demo : Desc where
  datasets := [("train", [("a", [("x", .int 1)]), ("b", [("x", .int 2)])]),
               ("dev", [("c", [("x", .int 3)])]),
               ("dev2", [("a", [("x", .int 9)])]),
               ("empty", [])]
  alias := some [("all", ["train", "dev"]), ("bad", ["train", "dev2"])]
  extra := ["meta"]

/-- a later description with an alias section only here -/
def demoLater : Desc where
  datasets := [("test", [("t", [("x", .int 4)])])]
  alias := some [("eval", ["test"])]

/-- no alias section at all -/
def demoPlain : Desc where
  datasets := [("train", [("a", [("x", .int 1)])])]
  alias := none
  extra := ["meta"]

end LazyDs.Db

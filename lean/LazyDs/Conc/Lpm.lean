/-
  Layer C: `lazy_dataset.parallel_utils.lazy_parallel_map` as a transition system.

      with PoolExecutor(max_workers) as executor:
          try:
              generator = iter(generator)
              while True:
                  try:
                      ele = next(generator)                -- pull
                  except StopIteration:
                      break
                  except Exception:                        -- the source raised `e`
                      while not q.empty():
                          yield result(q.get())            -- drainErr e / yieldedErr e
                      raise                                -- drainErr e with q empty: exitWait (some e)
                  if q.qsize() >= buffer_size:
                      yield result(q.get())                -- waitHead / yielded
                  q.put(submit(executor, function, ele))   -- submit
              while not q.empty():
                  yield result(q.get())                    -- drain / yielded none
          except GeneratorExit:
              terminate(executor, q); raise                -- cancel loop
          except BaseException:
              if backend == "mp": terminate(executor, q)   -- pathos only: part of exitWait (`killOnError`)
              raise
      (executor.__exit__)                                  -- exitWait

  When the source raises, the results that are already queued belong to EARLIER elements: they
  are delivered first, in order (error drain, `drainErr e`), and only then the source's exception
  is re-raised.  If one of those results raises `e'`, then `e'` travels out instead (exactly as in
  the normal drain loop); a `close()` at one of these yields cancels as usual.
  (Before the repair the source's exception left the loop at once and the queued results were
  dropped: known defect F17, now gone, see `lpm_source_error_delivers_all`.)

  `q` is touched by the consumer thread only, so the interleaving that matters is exactly
  "future changes state" versus "consumer step"; that is the granularity of this model.
  The pool is described by the contract of `concurrent.futures` (DESIGN.md §5): work items
  start in submission order, at most `workers` run at a time, each runs at most once, a
  cancelled item never runs, `__exit__` waits for every non-cancelled item.
  CORE LEAN ONLY.
-/
namespace LazyDs.Lpm

inductive FState (β ε : Type) where
  | pending | running | done (r : Except ε β) | cancelled
  deriving Repr

/-- how the executor's context manager behaves on exit / what `terminate` does -/
inductive ExitKind where
  | waitAll        -- concurrent.futures: shutdown(wait=True)
  | killAll        -- multiprocessing.Pool: terminate()
  | leaveRunning   -- pathos BEFORE the fix: `__exit__` does nothing, whatever travels out
  /-- pathos AFTER the fix (`except BaseException: if backend == "mp": terminate(executor, q); raise`):
      when the generator is left with an exception (`.exitWait (some e) closed`) every pending or
      running future is discarded (exactly what `killAll` does to the table); when it is left
      without exception (`.exitWait none closed`) nothing is done (exactly `leaveRunning`).
      The `terminate` call in the `except BaseException` handler and the do-nothing `__exit__` of
      the pathos pool that follows it are modelled as this single `exitWait` step: between the two
      the consumer touches neither `q` nor the table, and `terminate` leaves nothing that the pool
      could still move. -/
  | killOnError
  deriving Repr, DecidableEq

inductive TermKind where
  | cancelQueued   -- concurrent.futures back ends: `q.get(block=False).cancel()` until Empty
  | nothing        -- multiprocessing
  | terminatePool  -- pathos `ex.terminate()`
  deriving Repr, DecidableEq

inductive CPc (α β ε : Type) where
  | pull                         -- `for ele in generator`
  | waitHead (x : α)             -- `result(q.get())` with `ele = x` in hand
  | yielded (x : Option α)       -- suspended at a `yield` (x = element still to be submitted)
  | submit (x : α)               -- `q.put(submit(...))`
  | drain                        -- `while not q.empty(): yield result(q.get())`
  | drainErr (e : ε)             -- the same loop in `except Exception:` (the source raised `e`)
  | yieldedErr (e : ε)           -- suspended at a `yield` of the error drain
  | cancel                       -- the loop inside `terminate`
  | exitWait (r : Option ε) (closed : Bool)   -- executor.__exit__ ; r = exception travelling out
  | done (r : Option ε) (closed : Bool)
  deriving Repr

inductive Tid where
  | consumer | resume | close
  | start            -- the pool starts the oldest pending future
  | finish (i : Nat) -- future number i finishes
  deriving Repr, DecidableEq

structure St (α β ε : Type) where
  workers : Nat
  buffer : Nat
  exitKind : ExitKind
  termKind : TermKind
  f : α → Except ε β
  src : List α
  ending : Option ε
  pulled : Nat
  /-- every future ever submitted, in submission order, with its argument -/
  futs : List (α × FState β ε)
  /-- the FIFO `q`: indices into `futs`, oldest first -/
  q : List Nat
  delivered : List β
  /-- number of futures that were ever started -/
  started : Nat
  c : CPc α β ε

def init {α β ε} (workers buffer : Nat) (ek : ExitKind) (tk : TermKind) (f : α → Except ε β)
    (src : List α) (ending : Option ε) : St α β ε :=
  { workers, buffer, exitKind := ek, termKind := tk, f, src, ending, pulled := 0, futs := [], q := [],
    delivered := [], started := 0, c := .pull }

def isRunning {β ε} : FState β ε → Bool | .running => true | _ => false
def isPending {β ε} : FState β ε → Bool | .pending => true | _ => false
def isActive {β ε} : FState β ε → Bool | .pending => true | .running => true | _ => false

def numRunning {α β ε} (s : St α β ε) : Nat := (s.futs.filter (fun p => isRunning p.2)).length

def setF {α β ε} (futs : List (α × FState β ε)) (i : Nat) (st : FState β ε) : List (α × FState β ε) :=
  match futs[i]? with
  | some (x, _) => futs.set i (x, st)
  | none => futs

/-- pop the head of `q` when its future is done: the popped result -/
def headDone {α β ε} (s : St α β ε) : Option (Except ε β × List Nat) :=
  match s.q with
  | [] => none
  | i :: rest =>
    match s.futs[i]? with
    | some (_, .done r) => some (r, rest)
    | _ => none

def firstPending {α β ε} (futs : List (α × FState β ε)) : Option Nat :=
  futs.findIdx? (fun p => isPending p.2)

def step {α β ε} (s : St α β ε) : Tid → Option (St α β ε)
  | .consumer =>
    match s.c with
    | .pull =>
      match s.src with
      | x :: rest =>
        some { s with src := rest, pulled := s.pulled + 1,
                      c := if s.q.length ≥ s.buffer then .waitHead x else .submit x }
      | [] =>
        match s.ending with
        | none => some { s with c := .drain }
        | some e => some { s with c := .drainErr e }     -- the source raises: deliver what is queued, then raise
    | .waitHead x =>
      match headDone s with
      | some (.ok v, rest) => some { s with q := rest, delivered := s.delivered ++ [v], c := .yielded (some x) }
      | some (.error e, rest) => some { s with q := rest, c := .exitWait (some e) false }
      | none => none
    | .yielded _ => none
    | .submit x => some { s with futs := s.futs ++ [(x, .pending)], q := s.q ++ [s.futs.length], c := .pull }
    | .drain =>
      match s.q with
      | [] => some { s with c := .exitWait none false }
      | _ :: _ =>
        match headDone s with
        | some (.ok v, rest) => some { s with q := rest, delivered := s.delivered ++ [v], c := .yielded none }
        | some (.error e, rest) => some { s with q := rest, c := .exitWait (some e) false }
        | none => none
    | .drainErr e =>
      match s.q with
      | [] => some { s with c := .exitWait (some e) false }          -- `raise`: the source's exception
      | _ :: _ =>
        match headDone s with
        | some (.ok v, rest) => some { s with q := rest, delivered := s.delivered ++ [v], c := .yieldedErr e }
        | some (.error e', rest) => some { s with q := rest, c := .exitWait (some e') false }
        | none => none
    | .yieldedErr _ => none
    | .cancel =>
      match s.termKind with
      | .cancelQueued =>
        match s.q with
        | [] => some { s with c := .exitWait none true }
        | i :: rest =>
          match s.futs[i]? with
          | some (_, .pending) => some { s with q := rest, futs := setF s.futs i .cancelled }
          | _ => some { s with q := rest }
      | .nothing => some { s with c := .exitWait none true }
      | .terminatePool =>
        -- pathos `terminate()`: every outstanding work item is discarded
        some { s with futs := s.futs.map (fun p => if isActive p.2 then (p.1, .cancelled) else p),
                      c := .exitWait none true }
    | .exitWait r closed =>
      match s.exitKind with
      | .waitAll => if s.futs.all (fun p => !isActive p.2) then some { s with c := .done r closed } else none
      | .killAll => some { s with futs := s.futs.map (fun p => if isActive p.2 then (p.1, .cancelled) else p),
                                  c := .done r closed }
      | .leaveRunning => some { s with c := .done r closed }
      | .killOnError =>
        match r with
        | some e => some { s with futs := s.futs.map (fun p => if isActive p.2 then (p.1, .cancelled) else p),
                                  c := .done (some e) closed }
        | none => some { s with c := .done none closed }
    | .done _ _ => none
  | .resume =>
    match s.c with
    | .yielded (some x) => some { s with c := .submit x }
    | .yielded none => some { s with c := .drain }
    | .yieldedErr e => some { s with c := .drainErr e }
    | _ => none
  | .close =>
    match s.c with
    | .yielded _ => some { s with c := .cancel }
    | .yieldedErr _ => some { s with c := .cancel }
    | _ => none
  | .start =>
    if numRunning s < s.workers then
      match firstPending s.futs with
      | some i => some { s with futs := setF s.futs i .running, started := s.started + 1 }
      | none => none
    else none
  | .finish i =>
    match s.futs[i]? with
    | some (x, .running) => some { s with futs := setF s.futs i (.done (s.f x)) }
    | _ => none

def run {α β ε} (s : St α β ε) : List Tid → Option (St α β ε)
  | [] => some s
  | t :: ts => match step s t with
    | some s' => run s' ts
    | none => none

def isDone {α β ε} (s : St α β ε) : Bool := match s.c with | .done _ _ => true | _ => false

end LazyDs.Lpm

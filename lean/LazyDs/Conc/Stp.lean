/-
  Layer C: `lazy_dataset.parallel_utils.single_thread_prefetch` as a transition system.

  One transition per shared-memory action of the Python code (line numbers of the pinned
  commit, for orientation only):

    worker                                        consumer (the generator body)
    w0     `if shutdown: return`            342   cGet    `item = data_queue.get()`          376
    wNext  `for item in generator`          345   cHave x `yield item`                       380
    wChk1 x`if shutdown: return`            346   cYield  generator suspended (environment: resume | close)
    wPut x `data_queue.put(item)`           348   cFin    `shutdown = True`                  382
    wChk2  `if shutdown: return`            349   cDrain  `data_queue.get_nowait()` loop     390
    wFin   `finally: if not shutdown:`      357   cJoin   `thread.join()`                    394
    wPutS  `data_queue.put(unique_object)`  370   cAfter  `if exc_info is not None: raise`   396
    wDone  thread finished                        cDone   generator finished

  The source is a list of items followed by how it ends (`none` = StopIteration, `some e` = it
  raises `e`; after the fix of F6 every exception class is stored in `exc_info`).
  CORE LEAN ONLY: the driver replays recorded schedules of the real code through `step`.
-/
namespace LazyDs.Stp

inductive QItem (α : Type) where
  | item (x : α)
  | sentinel
  deriving Repr, DecidableEq

inductive WPc (α : Type) where
  | w0 | wNext | wChk1 (x : α) | wPut (x : α) | wChk2 | wFin | wPutS | wDone
  deriving Repr, DecidableEq

inductive CPc (α : Type) where
  | cGet | cHave (x : α) | cYield | cFin | cDrain | cJoin | cAfter | cDone
  deriving Repr, DecidableEq

/-- who moves: the worker thread, the consumer thread, or the environment that owns the
    suspended generator (it resumes it with `next()` or closes it) -/
inductive Tid where
  | worker | consumer | resume | close
  deriving Repr, DecidableEq

structure St (α ε : Type) where
  /-- buffer size of `queue.Queue(buffer_size)`, ≥ 1 -/
  b : Nat
  q : List (QItem α)
  shutdown : Bool
  excInfo : Option ε
  /-- items the source has not produced yet -/
  src : List α
  /-- how the source ends once `src` is empty -/
  ending : Option ε
  /-- number of items pulled from the source so far -/
  pulled : Nat
  delivered : List α
  /-- the consumer closed (or dropped) the generator at a yield -/
  closed : Bool
  /-- what the generator finally raised into the consumer -/
  raised : Option ε
  w : WPc α
  c : CPc α

def init {α ε} (b : Nat) (src : List α) (ending : Option ε) : St α ε :=
  { b := b, q := [], shutdown := false, excInfo := none, src := src, ending := ending,
    pulled := 0, delivered := [], closed := false, raised := none, w := .w0, c := .cGet }

/-- one step of thread `t`; `none` = `t` is blocked / has nothing to do -/
def step {α ε} (s : St α ε) : Tid → Option (St α ε)
  | .worker =>
    match s.w with
    | .w0 => some { s with w := if s.shutdown then .wDone else .wNext }   -- `return` before the `try`: no `finally`
    | .wNext =>
      match s.src with
      | x :: rest => some { s with src := rest, pulled := s.pulled + 1, w := .wChk1 x }
      | [] =>
        match s.ending with
        | none => some { s with w := .wFin }
        | some e => some { s with excInfo := some e, w := .wFin }
    | .wChk1 x => some { s with w := if s.shutdown then .wFin else .wPut x }
    | .wPut x =>
      if s.q.length < s.b then some { s with q := s.q ++ [.item x], w := .wChk2 } else none
    | .wChk2 => some { s with w := if s.shutdown then .wFin else .wNext }
    | .wFin => some { s with w := if s.shutdown then .wDone else .wPutS }
    | .wPutS =>
      if s.q.length < s.b then some { s with q := s.q ++ [.sentinel], w := .wDone } else none
    | .wDone => none
  | .consumer =>
    match s.c with
    | .cGet =>
      match s.q with
      | [] => none
      | .item x :: rest => some { s with q := rest, c := .cHave x }
      | .sentinel :: rest => some { s with q := rest, c := .cFin }
    | .cHave x => some { s with delivered := s.delivered ++ [x], c := .cYield }
    | .cYield => none
    | .cFin => some { s with shutdown := true, c := .cDrain }
    | .cDrain =>
      match s.q with
      | [] => some { s with c := .cJoin }
      | _ :: rest => some { s with q := rest }
    | .cJoin =>
      match s.w with
      | .wDone => some { s with c := .cAfter }
      | _ => none
    | .cAfter => some { s with raised := if s.closed then none else s.excInfo, c := .cDone }
    | .cDone => none
  | .resume =>
    match s.c with
    | .cYield => some { s with c := .cGet }
    | _ => none
  | .close =>
    match s.c with
    | .cYield => some { s with closed := true, c := .cFin }
    | _ => none

def terminal {α ε} (s : St α ε) : Prop := s.c = .cDone ∧ s.w = .wDone

/-- run a schedule; `none` if some scheduled thread was not enabled -/
def run {α ε} (s : St α ε) : List Tid → Option (St α ε)
  | [] => some s
  | t :: ts => match step s t with
    | some s' => run s' ts
    | none => none

end LazyDs.Stp

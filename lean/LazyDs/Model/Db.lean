import LazyDs.Model.Basic
/-
  `lazy_dataset/database.py` (C19): descriptions as association lists (Python dicts keep
  insertion order; keys of one dict are distinct), `_merge_database_dicts`, `get_examples`,
  `_get_dataset` with the weak memo that the environment (the garbage collector) may clear at
  any step.  After the fix of F8 (`setdefault('alias', {})`, copy only dict-valued entries).
  CORE LEAN ONLY.
-/
namespace LazyDs.Db

abbrev Fields := List (String × Val)                 -- one example
abbrev Examples := List (String × Fields)            -- example_id -> example, in stored order
abbrev Datasets := List (String × Examples)
abbrev Aliases := List (String × List String)

structure Desc where
  datasets : Datasets
  alias : Option Aliases          -- `none`: the description has no 'alias' entry
  extra : List String := []       -- other top-level keys (allowed in the first description only)
  deriving Repr

def lookup {α} (l : List (String × α)) (k : String) : Option α := (l.find? (·.1 == k)).map (·.2)

/-- `dict.update`: existing keys keep their position and get the new value, new keys are appended -/
def update {α} (l : List (String × α)) : List (String × α) → List (String × α)
  | [] => l
  | (k, v) :: rest =>
    let l' := if (lookup l k).isSome then l.map (fun kv => if kv.1 == k then (k, v) else kv) else l ++ [(k, v)]
    update l' rest

def keysOf {α} (l : List (String × α)) : List String := l.map (·.1)

def intersects (a b : List String) : Bool := a.any (fun k => b.contains k)

/-- `_merge_database_dicts(first, *rest)` -/
def mergeInto (result : Desc) : List Desc → Res Desc
  | [] => .ok result
  | d :: rest =>
    if !d.extra.isEmpty then .error .assertionError
    else
      let names := keysOf result.datasets ++ keysOf (result.alias.getD [])
      if intersects (keysOf d.datasets) names then .error .assertionError
      else
        let result1 := { result with datasets := update result.datasets d.datasets }
        match d.alias with
        | none => mergeInto result1 rest
        | some al =>
          if intersects (keysOf al) names then .error .assertionError
          else mergeInto { result1 with alias := some (update (result1.alias.getD []) al) } rest

def merge : List Desc → Res Desc
  | [] => .error .assertionError
  | [d] => .ok d
  | d :: rest => mergeInto d rest

/-- `Database.get_examples(dataset_name)` -/
def collectAlias (ds : Datasets) : List String → Examples → Res Examples
  | [], acc => .ok acc
  | n :: rest, acc =>
    match lookup ds n with
    | none => .error .keyError
    | some ex =>
      if intersects (keysOf acc) (keysOf ex) then .error .assertionError
      else collectAlias ds rest (update acc ex)

/-- `{**example, 'example_id': id, 'dataset': name}` -/
def augment (name : String) (id : String) (f : Fields) : Fields :=
  update f [("example_id", .str id), ("dataset", .str name)]

def getExamples (d : Desc) (name : String) : Res Examples := do
  let raw ← match lookup (d.alias.getD []) name with
    | some members => collectAlias d.datasets members []
    | none => match lookup d.datasets name with
      | some ex => .ok ex
      | none => .error .keyError
  if raw.isEmpty then .error .runtimeError
  else .ok (raw.map (fun (id, f) => (id, augment name id f)))

/-! ### `_get_dataset` with the weak memo

A dataset object is identified by the number under which it was created; the memo maps a name
to the live object; `gc` (the environment) drops entries. -/

structure MemoSt where
  memo : List (String × Nat)
  next : Nat

inductive MOp where
  | get (name : String)
  | gc (name : String)
  deriving Repr

/-- returns the identity of the dataset object that answers the request, and its examples -/
def mstep (d : Desc) (s : MemoSt) : MOp → MemoSt × Option (Res (Nat × Examples))
  | .gc name => ({ s with memo := s.memo.filter (·.1 != name) }, none)
  | .get name =>
    match lookup s.memo name with
    | some id =>
      match getExamples d name with
      | .ok ex => (s, some (.ok (id, ex)))
      | .error e => (s, some (.error e))          -- unreachable: a memoised name was built before
    | none =>
      match getExamples d name with
      | .ok ex => ({ memo := s.memo ++ [(name, s.next)], next := s.next + 1 }, some (.ok (s.next, ex)))
      | .error e => (s, some (.error e))

/-- `get_dataset([n1, n2, …])` = concatenation of the members' examples (as `(id, fields)` pairs) -/
def getMany (d : Desc) : List String → Res Examples
  | [] => .ok []
  | n :: rest => do
    let a ← getExamples d n
    let b ← getMany d rest
    .ok (a ++ b)

end LazyDs.Db

import LazyDs.Model.Stage
import LazyDs.Model.Fn
/-
  The pipeline AST (what the generator of the correspondence check produces) and `build`,
  which interprets it with the stage definitions of `Stage.lean`.
-/
namespace LazyDs

mutual
inductive Pipeline where
  | listSrc (xs : List Val)
  | dictSrc (kvs : List (String × Val))
  | map (f : FnSym) (p : Pipeline)
  | parMap (f : FnSym) (workers buffer : Nat) (p : Pipeline)
  | filterLazy (f : PredSym) (p : Pipeline)
  | filterEager (f : PredSym) (p : Pipeline)
  | slice (s : SliceSpec) (p : Pipeline)
  | concat (ps : Pipelines)
  | intersperse (ps : Pipelines)
  | zip (ps : Pipelines)
  | keyZip (ps : Pipelines)
  | batch (n : Nat) (dropLast : Bool) (p : Pipeline)
  | unbatch (p : Pipeline)
  | items (p : Pipeline)
  | tile (reps : Nat) (p : Pipeline)
  | shuffleOnce (perm : List Nat) (p : Pipeline)
  | sort (key : Option FnSym) (reverse : Bool) (p : Pipeline)
  | shard (k i : Int) (p : Pipeline)
  | cache (p : Pipeline)
  | cacheEager (p : Pipeline)
  | catch (E : List Err) (p : Pipeline)
  | copy (freeze : Bool) (p : Pipeline)
  | prefetch (workers buffer : Nat) (thread : Bool) (catchE : Option (List Err)) (p : Pipeline)
  | cycle (p : Pipeline)
inductive Pipelines where
  | nil
  | cons (p : Pipeline) (ps : Pipelines)
end

def Pipelines.ofList : List Pipeline → Pipelines
  | [] => .nil
  | p :: ps => .cons p (Pipelines.ofList ps)

mutual
def build (ρ : Env) : Pipeline → Res DS
  | .listSrc xs => .ok (listSrc xs)
  | .dictSrc kvs => .ok (dictSrc kvs)
  | .map f p => do let d ← build ρ p; .ok (mapDS (ρ.fn f) d)
  | .parMap f w b p => do
      let d ← build ρ p
      if w == 0 then .ok (mapDS (ρ.fn f) d)          -- `num_workers > 0` is what selects ParMapDataset
      else if b < w || b == 0 then .ok (parMapDS (ρ.fn f) b d)   -- asserts fire at iteration; not generated
      else .ok (parMapDS (ρ.fn f) b d)
  | .filterLazy f p => do let d ← build ρ p; .ok (filterDS (ρ.pred f) d)
  | .filterEager f p => do let d ← build ρ p; mkFilterEager (ρ.pred f) d
  | .slice s p => do let d ← build ρ p; mkSlice s d
  | .concat ps => do let ds ← buildAll ρ ps; mkConcat ds
  | .intersperse ps => do
      let ds ← buildAll ρ ps
      match ds with
      | [] => .error .valueError
      | [d] => .ok d
      | ds => mkIntersperse ds
  | .zip ps => do
      let ds ← buildAll ρ ps
      if ds.isEmpty then .error .valueError else mkZip ds
  | .keyZip ps => do
      let ds ← buildAll ρ ps
      if ds.isEmpty then .error .valueError else mkKeyZip ds
  | .batch n dl p => do let d ← build ρ p; .ok (batchDS n dl d)
  | .unbatch p => do let d ← build ρ p; .ok (unbatchDS d)
  | .items p => do let d ← build ρ p; .ok (itemsDS d)
  | .tile r p => do let d ← build ρ p; mkTile r d
  | .shuffleOnce perm p => do let d ← build ρ p; mkShuffleOnce perm d
  | .sort key rev p => do let d ← build ρ p; mkSort (key.map ρ.fn) rev d
  | .shard k i p => do let d ← build ρ p; mkShard k i d
  | .cache p => do let d ← build ρ p; mkCache d
  | .cacheEager p => do let d ← build ρ p; mkCacheEager d
  | .catch E p => do let d ← build ρ p; .ok (catchDS E d)
  | .copy _ p => build ρ p
  | .prefetch w b t ce p => do let d ← build ρ p; mkPrefetch w b t ce d
  | .cycle p => do let d ← build ρ p; .ok (cycleDS d)
def buildAll (ρ : Env) : Pipelines → Res (List DS)
  | .nil => .ok []
  | .cons p ps => do
      let d ← build ρ p
      let ds ← buildAll ρ ps
      .ok (d :: ds)
end

end LazyDs

/-
  Layer B/D for C13: (1) what `copy()` of every Dataset class forwards, (2) random generators as
  explicit deterministic state so that "equal seeds give equal orders in every epoch" and
  "independent of the global numpy state" are statements about a fold.
  CORE LEAN ONLY.
-/
namespace LazyDs.CopyCfg

/-- a constructor / attribute value as far as `copy()` is concerned -/
inductive Param where
  | nat (n : Nat) | bool (b : Bool) | str (s : String)
  | fn (id : Nat)          -- a callable, compared by identity
  | rng (id : Option Nat)  -- an explicit generator (by identity) or `none` = the global `np.random`
  | shared (id : Nat)      -- an object that copies must SHARE (cache wrapper, order table, counters)
  | other (tag : String)
  deriving Repr, DecidableEq

/-- a dataset object: its class, its own parameters, its inputs -/
inductive Cfg where
  | node (cls : String) (params : List (String × Param)) (inputs : List Cfg)
  deriving Repr

/-- default value a constructor gives a parameter that `copy()` does not pass -/
def defaultOf (cls key : String) : Param :=
  match cls, key with
  | "ReShuffleDataset", "rng" => .rng none
  | "LocalShuffleDataset", "rng" => .rng none
  | "LocalShuffleDataset", "buffer_size" => .nat 100
  | "BatchDataset", "drop_last" => .bool false
  | "CatchExceptionDataset", "warn" => .bool false
  | "PrefetchDataset", "backend" => .str "t"
  | "PrefetchDataset", "catch_filter_exception" => .bool false
  | "ParMapDataset", "backend" => .str "t"
  | "DynamicBucketDataset", "drop_incomplete" => .bool false
  | "DynamicBucketDataset", "reverse_sort" => .bool false
  | _, _ => .other "<unset>"

/-- the parameters that the class's `copy()` method forwards (transcribed from core.py after the
    fix of F5; validated against the real objects on every run by the correspondence check) -/
def forwarded : String → List String
  | "DictDataset" => ["examples", "name", "_keys"]
  | "ListDataset" => ["examples", "name"]
  | "MapDataset" => ["map_function"]
  | "ParMapDataset" => ["map_function", "num_workers", "buffer_size", "backend"]
  | "CatchExceptionDataset" => ["exceptions", "warn"]
  | "PrefetchDataset" => ["num_workers", "buffer_size", "backend", "catch_filter_exception"]
  | "ReShuffleDataset" => ["rng"]
  | "LocalShuffleDataset" => ["buffer_size", "rng"]
  | "SliceDataset" => ["_slice", "slice"]
  | "FilterDataset" => ["filter_function"]
  | "ConcatenateDataset" => []
  | "IntersperseDataset" => ["order"]
  | "ZipDataset" => []
  | "KeyZipDataset" => []
  | "ItemsDataset" => []
  | "BatchDataset" => ["batch_size", "drop_last"]
  | "UnbatchDataset" => []
  | "DynamicBucketDataset" => ["bucket_cls", "expiration", "max_buffered_examples", "drop_incomplete", "sort_key",
                                "reverse_sort", "bucket_kwargs"]
  | "CacheDataset" => ["_cache", "_keep_mem_free"]
  | "DiskCacheDataset" => ["_cache"]
  | "ProfilingDataset" => ["time", "hit_count"]
  | _ => []

/-- one object's `copy(freeze=False)`: forwarded parameters keep their value, the others fall back to the default -/
def copyParams (cls : String) (params : List (String × Param)) : List (String × Param) :=
  params.map (fun kv => if (forwarded cls).contains kv.1 then kv else (kv.1, defaultOf cls kv.1))

mutual
def copyCfg : Cfg → Cfg
  | .node cls params inputs => .node cls (copyParams cls params) (copyList inputs)
def copyList : List Cfg → List Cfg
  | [] => []
  | c :: cs => copyCfg c :: copyList cs
end

-- every parameter the object carries is one its class forwards
mutual
def Known : Cfg → Prop
  | .node cls params inputs => (∀ kv ∈ params, (forwarded cls).contains kv.1 = true) ∧ KnownList inputs
def KnownList : List Cfg → Prop
  | [] => True
  | c :: cs => Known c ∧ KnownList cs
end

/-! ### random generators -/

/-- a generator is a deterministic function of its state: drawing a permutation of `n` elements
    yields the permutation and the next state -/
structure GenSpec where
  draw : Nat → Nat → List Nat × Nat        -- state → n → (permutation, next state)

/-- which generator a shuffling stage holds -/
inductive Holder where
  | explicit (id : Nat) | global_
  deriving Repr, DecidableEq

structure Store where
  explicit : List (Nat × Nat)    -- generator id ↦ state
  global_ : Nat

def getState (s : Store) : Holder → Nat
  | .explicit id => ((s.explicit.find? (·.1 == id)).map (·.2)).getD 0
  | .global_ => s.global_

def setState (s : Store) (h : Holder) (v : Nat) : Store :=
  match h with
  | .explicit id =>
    if (s.explicit.find? (·.1 == id)).isSome then
      { s with explicit := s.explicit.map (fun kv => if kv.1 == id then (id, v) else kv) }
    else { s with explicit := s.explicit ++ [(id, v)] }
  | .global_ => { s with global_ := v }

/-- one epoch of a pipeline with shuffling stages `stages` (each of length `n`): every stage draws once -/
def epoch (g : GenSpec) (n : Nat) : List Holder → Store → List (List Nat) × Store
  | [], s => ([], s)
  | h :: hs, s =>
    let (p, st) := g.draw (getState s h) n
    let (ps, s') := epoch g n hs (setState s h st)
    (p :: ps, s')

/-- `k` epochs; between epochs the environment may overwrite the global state arbitrarily (`noise`) -/
def epochs (g : GenSpec) (n : Nat) (stages : List Holder) : List Nat → Store → List (List (List Nat))
  | [], _ => []
  | z :: zs, s =>
    let (ps, s') := epoch g n stages { s with global_ := z }
    ps :: epochs g n stages zs s'

end LazyDs.CopyCfg

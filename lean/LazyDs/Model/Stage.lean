import LazyDs.Model.Basic
import LazyDs.Model.PySlice
/-
  Layer A: the sequential core of `lazy_dataset/core.py`, one definition per
  Python `Dataset` subclass.  A `DS` is "what one dataset object answers when asked".
  The definitions follow the Python method bodies (index walks, try/except, special
  cases) and are NOT a specification; the specification is in `Ref.lean`.

  User functions are parameters (`Val → Res Val`, `Val → Res Bool`), so every theorem
  about these definitions quantifies over arbitrary user code that may raise.
-/
namespace LazyDs

structure DS where
  indexable : Bool
  ordered : Bool
  /-- `len(ds)` -/
  len : Res Nat
  /-- `ds.keys()` -/
  keys : Res (List String)
  /-- `ds[i]` for an integer -/
  getInt : Int → Res Val
  /-- `ds[k]` for a str -/
  getKey : String → Res Val
  /-- `iter(ds)` run to its end -/
  iter : Stream Val
  /-- `ds.__iter__(with_key=True)` run to its end -/
  iterK : Stream (String × Val)
  /-- what `ds[<slice|list|tuple|ndarray>]` raises *before* `SliceDataset.__init__` runs -/
  sliceGuard : Res Unit := .ok ()

instance : Inhabited DS :=
  ⟨{ indexable := false, ordered := false, len := .error .typeError, keys := .error .notImplemented,
     getInt := fun _ => .error .notImplemented, getKey := fun _ => .error .notImplemented,
     iter := .nil, iterK := .nil }⟩

def pairVal (kv : String × Val) : Val := .tup [.str kv.1, kv.2]

/-! ### sources: `new(list)`, `new(dict)` (ListDataset / DictDataset + deserialising map) -/

def listSrc (xs : List Val) : DS where
  indexable := true
  ordered := true
  len := .ok xs.length
  keys := .error .notImplemented
  getInt i := pyIndex xs i
  getKey _ := .error .notImplemented
  iter := .ofList xs
  iterK := .fail .itemsNotDefinedInternal

def dictLookup (kvs : List (String × Val)) (k : String) : Res Val :=
  match kvs.find? (·.1 == k) with
  | some kv => .ok kv.2
  | none => .error .keyError

def dictSrc (kvs : List (String × Val)) : DS where
  indexable := true
  ordered := true
  len := .ok kvs.length
  keys := .ok (kvs.map (·.1))
  getInt i := do let kv ← pyIndex kvs i; .ok kv.2     -- keys()[i] then examples[key]
  getKey k := dictLookup kvs k
  iter := .ofList (kvs.map (·.2))
  iterK := .ofList kvs

/-! ### MapDataset -/

def mapDS (f : Val → Res Val) (d : DS) : DS where
  indexable := d.indexable
  ordered := d.ordered
  len := d.len
  keys := d.keys
  getInt i := d.getInt i >>= f
  getKey k := d.getKey k >>= f
  iter := d.iter.mapM f
  iterK := d.iterK.mapM (fun kv => do let v ← f kv.2; .ok (kv.1, v))

/-! ### ParMapDataset: `lazy_parallel_map(f, iter(input), buffer_size=b)` run sequentially.
   Since the repair of F17 a failing *source* no longer costs the results that are still queued:
   they are delivered first, so what is yielded is what `map` yields (the buffer size only shows in
   the read-ahead, C07/C08). -/

def parMapStream {α β} (f : α → Res β) (_b : Nat) (s : Stream α) : Stream β := s.mapM f

def parMapDS (f : Val → Res Val) (b : Nat) (d : DS) : DS :=
  { mapDS f d with
    iter := parMapStream f b d.iter
    iterK := parMapStream (fun kv => do let v ← f kv.2; .ok (kv.1, v)) b d.iterK }

/-! ### FilterDataset (lazy) -/

def filterDS (f : Val → Res Bool) (d : DS) : DS where
  indexable := false
  ordered := d.ordered
  len := .error .typeError
  keys := .error .notImplemented
  getInt _ := .error .assertionError
  getKey k := do
    let ex ← d.getKey k
    let b ← f ex
    if b then .ok ex else .error .indexError
  iter := d.iter.filterM f
  iterK := d.iterK.filterM (fun kv => f kv.2)
  sliceGuard := .error .assertionError

/-! ### SliceDataset: `sel` is the already resolved selection (`self.slice`) -/

/-- `for idx in self.slice: yield input[idx]` -/
def sliceOuts (d : DS) (sel : List Nat) : List (Res Val) := sel.map (fun (j : Nat) => d.getInt (j : Int))

/-- `for idx in self.slice: yield keys[idx], input[idx]`; `keys()` is evaluated first -/
def sliceIterK (d : DS) (sel : List Nat) : Stream (String × Val) :=
  match d.keys with
  | .error e => .fail e
  | .ok ks =>
    .ofOuts (sel.map (fun (j : Nat) => do
      let k ← pyIndex ks (j : Int)
      let v ← d.getInt (j : Int)
      .ok (k, v)))

/-- `operator.itemgetter(*self.slice)(keys)` (empty selection: `()`, after the fix of F2) -/
def sliceKeys (d : DS) (sel : List Nat) : Res (List String) := do
  let ks ← d.keys
  sel.mapM (fun (j : Nat) => pyIndex ks (j : Int))

def sliceDS (sel : List Nat) (d : DS) : DS where
  indexable := true
  ordered := d.ordered
  len := .ok sel.length
  keys := sliceKeys d sel
  getInt i := do let j ← pyIndex sel i; d.getInt (j : Int)
  getKey k := d.getKey k            -- forwards without looking at the selection (finding F15)
  iter := .ofOuts (sliceOuts d sel)
  iterK := sliceIterK d sel

/-- `ds[spec]` : `Dataset.__getitem__` → `SliceDataset(spec, ds)` -/
def mkSlice (spec : SliceSpec) (d : DS) : Res DS := do
  d.sliceGuard
  if !d.indexable then throw .runtimeError
  let n ← d.len
  let sel ← resolveSlice n d.keys spec
  .ok (sliceDS sel d)

/-! ### ConcatenateDataset -/

def sumLens : List DS → Res Nat
  | [] => .ok 0
  | d :: ds => do let a ← d.len; let b ← sumLens ds; .ok (a + b)

/-- the part walk of `ConcatenateDataset.__getitem__` for an already non-negative index -/
def concatWalk : List DS → Int → Res Val
  | [], _ => .error .indexError
  | d :: ds, i => do
    let n ← d.len
    if (n : Int) ≤ i then concatWalk ds (i - n) else d.getInt i

def concatKeysRaw : List DS → Res (List String)
  | [] => .ok []
  | d :: ds => do let a ← d.keys; let b ← concatKeysRaw ds; .ok (a ++ b)

def concatKeys (ds : List DS) : Res (List String) := do
  let ks ← concatKeysRaw ds
  if hasDup ks then .error .assertionError else .ok ks

/-- `for dataset in input_datasets: if item in dataset.keys(): return dataset[item]` -/
def firstWithKey : List DS → String → Option (Res Val)
  | [], _ => none
  | d :: ds, k =>
    match d.keys with
    | .error e => some (.error e)
    | .ok ks => if ks.contains k then some (d.getKey k) else firstWithKey ds k

def concatDS (ds : List DS) : DS where
  indexable := ds.all (·.indexable)
  ordered := ds.all (·.ordered)
  len := sumLens ds
  keys := concatKeys ds
  getInt i :=
    if i < 0 then do
      let n ← sumLens ds
      let j := i + n
      if j < 0 then .error .indexError else concatWalk ds j
    else concatWalk ds i
  getKey k := do
    let _ ← concatKeys ds
    match firstWithKey ds k with
    | some r => r
    | none => .error .keyError
  iter := ds.foldr (fun d acc => d.iter.append acc) .nil
  iterK := ds.foldr (fun d acc => d.iterK.append acc) .nil

/-! ### IntersperseDataset -/

/-- an entry of `self.order`: the fraction `(j+1)/len` as numerator/denominator, dataset index, example index -/
structure OrdEntry where
  num : Nat
  den : Nat
  d : Nat
  j : Nat
  deriving Repr, DecidableEq

/-- tuple comparison `(num/den, d, j) ≤ (num'/den', d', j')`, fractions compared by cross-multiplication -/
def OrdEntry.le (a b : OrdEntry) : Bool :=
  let l := a.num * b.den
  let r := b.num * a.den
  if l < r then true
  else if l > r then false
  else if a.d < b.d then true
  else if a.d > b.d then false
  else a.j ≤ b.j

def orderEntries (lens : List Nat) : List OrdEntry :=
  (lens.zipIdx.map (fun (n, d) => (List.range n).map (fun j => (⟨j + 1, n, d, j⟩ : OrdEntry)))).flatten

def intersperseOrder (lens : List Nat) : List OrdEntry :=
  (orderEntries lens).mergeSort OrdEntry.le

def allLens : List DS → Res (List Nat)
  | [] => .ok []
  | d :: ds => do let a ← d.len; let b ← allLens ds; .ok (a :: b)

/-- `yield next(iterators[dataset_idx])` along the order table. `pos` = how many elements
    each iterator has produced so far. A `StopIteration` leaking out of `next` inside a
    generator becomes `RuntimeError` (PEP 479). -/
def intersperseRun {α} (streams : List (Stream α)) : List OrdEntry → List Nat → Stream α
  | [], _ => .nil
  | e :: rest, pos =>
    match streams[e.d]?, pos[e.d]? with
    | some s, some p =>
      match s.vals[p]? with
      | some v => .cons v (intersperseRun streams rest (pos.set e.d (p + 1)))
      | none => match s.err with
        | some er => .fail er
        | none => .fail .runtimeError
    | _, _ => .fail .indexError

def intersperseKeys (ds : List DS) (order : List OrdEntry) : Res (List String) := do
  let kss ← ds.mapM (·.keys)
  let ks ← order.mapM (fun e => do
    let kl ← pyIndex kss (e.d : Int)
    pyIndex kl (e.j : Int))
  if hasDup ks then .error .assertionError else .ok ks

def intersperseDS (ds : List DS) (order : List OrdEntry) : DS where
  indexable := ds.all (·.indexable)
  ordered := ds.all (·.ordered)
  len := .ok order.length
  keys := intersperseKeys ds order
  getInt i := do
    let e ← pyIndex order i
    let d ← pyIndex ds (e.d : Int)
    d.getInt e.j
  getKey k := do
    let _ ← intersperseKeys ds order
    match firstWithKey ds k with
    | some r => r
    | none => .error .keyError           -- after the fix of F1 (was: `return None`)
  iter := intersperseRun (ds.map (·.iter)) order (ds.map (fun _ => 0))
  iterK := intersperseRun (ds.map (·.iterK)) order (ds.map (fun _ => 0))

/-- `IntersperseDataset.__init__` -/
def mkIntersperse (ds : List DS) : Res DS := do
  if ds.isEmpty then throw .assertionError
  let lens ← allLens ds
  if lens.any (· == 0) then throw .assertionError
  .ok (intersperseDS ds (intersperseOrder lens))

/-! ### ZipDataset -/

/-- Python's `zip(*iterables)` over generators that may raise: position by position, left to right;
    the first iterator that is exhausted ends the zip, the first that raises ends it with that error. -/
def zipRow {α} : List (Stream α) → Nat → Except (Option Err) (List α)
  | [], _ => .ok []
  | s :: ss, p =>
    match s.vals[p]? with
    | none => .error s.err
    | some v => match zipRow ss p with
      | .ok r => .ok (v :: r)
      | .error e => .error e

def zipRun {α} (ss : List (Stream α)) : Nat → Nat → Stream (List α)
  | 0, _ => .nil
  | fuel + 1, p =>
    match zipRow ss p with
    | .ok row => .cons row (zipRun ss fuel (p + 1))
    | .error e => ⟨[], e⟩

def zipStreams {α} (ss : List (Stream α)) : Stream (List α) :=
  match ss with
  | [] => .nil
  | s :: _ => zipRun ss (s.vals.length + 1) 0

def tupleGet (ds : List DS) (f : DS → Res Val) : Res Val := do
  let vs ← ds.mapM f
  .ok (.tup vs)

def allEq : List Nat → Bool
  | [] => true
  | a :: rest => rest.all (· == a)

def zipDS (ds : List DS) : DS where
  indexable := ds.all (·.indexable)
  ordered := ds.all (·.ordered)
  len := match ds with | [] => .error .indexError | d :: _ => d.len
  keys := .error .notImplemented
  getInt i := tupleGet ds (·.getInt i)
  getKey _ := .error .notImplemented
  iter := let z := zipStreams (ds.map (·.iter)); ⟨z.vals.map Val.tup, z.err⟩
  iterK := .fail .itemsNotDefinedInternal

def mkZip (ds : List DS) : Res DS := do
  if ds.isEmpty then throw .assertionError
  let lens ← allLens ds
  if !allEq lens then throw .assertionError
  .ok (zipDS ds)

/-! ### KeyZipDataset -/

def sameKeySets (kss : List (List String)) : Bool :=
  let all := kss.flatten
  kss.all (fun ks => all.all (fun k => ks.contains k))

def keyZipOuts (ds : List DS) (ks : List String) : List (Res Val) :=
  ks.map (fun k => tupleGet ds (·.getKey k))

def keyZipDS (ds : List DS) : DS :=
  let first : DS := ds.head!
  { indexable := ds.all (·.indexable)
    ordered := true
    len := first.len
    keys := first.keys
    getInt := fun i => do
      let ks ← first.keys
      let k ← pyIndex ks i
      tupleGet ds (·.getKey k)
    getKey := fun k => tupleGet ds (·.getKey k)
    iter := match first.keys with
      | .error e => .fail e
      | .ok ks => .ofOuts (keyZipOuts ds ks)
    iterK := match first.keys with
      | .error e => .fail e
      | .ok ks => .ofOuts (ks.map (fun k => do let v ← tupleGet ds (·.getKey k); .ok (k, v))) }

def mkKeyZip (ds : List DS) : Res DS := do
  if ds.length < 2 then throw .assertionError
  let kss ← ds.mapM (·.keys)
  if !sameKeySets kss then throw .assertionError
  .ok (keyZipDS ds)

/-! ### ItemsDataset -/

def itemsDS (d : DS) : DS where
  indexable := d.indexable
  ordered := d.ordered
  len := d.len
  keys := d.keys
  getInt i := do
    let ks ← d.keys
    let k ← pyIndex ks i
    let v ← d.getInt i
    .ok (pairVal (k, v))
  getKey k := do
    let ks ← d.keys
    let idx ← keyIndex ks k
    let v ← d.getInt idx
    .ok (pairVal (k, v))
  iter :=
    let s := d.iterK
    ⟨s.vals.map pairVal,
     s.err.map (fun e => if e == .itemsNotDefinedInternal then .itemsNotDefined else e)⟩
  iterK :=
    let s := d.iterK
    ⟨s.vals.map (fun kv => (kv.1, pairVal kv)),
     s.err.map (fun e => if e == .itemsNotDefinedInternal then .itemsNotDefined else e)⟩

/-! ### BatchDataset -/

/-- the loop of `BatchDataset.__iter__` with the batch collected so far -/
def chunkAux {α} (bs : Nat) (dropLast : Bool) : List α → List α → List (List α)
  | [], cur => if cur.length > 0 && !dropLast then [cur.reverse] else []
  | x :: xs, cur =>
    let cur' := x :: cur
    if cur'.length ≥ bs then cur'.reverse :: chunkAux bs dropLast xs []
    else chunkAux bs dropLast xs cur'

def batchStream (bs : Nat) (dropLast : Bool) (s : Stream Val) : Stream Val :=
  match s.err with
  | none => ⟨(chunkAux bs dropLast s.vals []).map Val.list, none⟩
  | some e => ⟨(chunkAux bs true s.vals []).map Val.list, some e⟩

/-- `for i in range(batch_size): try: append(input[idx+i]) except IndexError: if i == 0 or drop_last: raise` -/
def batchCollect (d : DS) (dropLast : Bool) (base : Int) : Nat → Nat → Res (List Val)
  | 0, _ => .ok []
  | k + 1, i =>
    match d.getInt (base + i) with
    | .ok v => do let rest ← batchCollect d dropLast base k (i + 1); .ok (v :: rest)
    | .error e =>
      if e == .indexError then
        if i == 0 || dropLast then .error e
        else batchCollect d dropLast base k (i + 1)
      else .error e

def batchLen (bs : Nat) (dropLast : Bool) (d : DS) : Res Nat := do
  let n ← d.len
  if bs == 0 then .error .zeroDivision
  else if dropLast then .ok (n / bs) else .ok ((n + bs - 1) / bs)

def batchDS (bs : Nat) (dropLast : Bool) (d : DS) : DS where
  indexable := d.indexable
  ordered := d.ordered
  len := batchLen bs dropLast d
  keys := .error .notImplemented
  getInt i :=
    if i < 0 then do
      let n ← batchLen bs dropLast d
      let j := i + n
      if j < 0 then .error .indexError
      else do let l ← batchCollect d dropLast (j * bs) bs 0; .ok (.list l)
    else do let l ← batchCollect d dropLast (i * bs) bs 0; .ok (.list l)
  getKey _ := .error .notImplemented
  iter := batchStream bs dropLast d.iter
  iterK := .fail .itemsNotDefinedInternal

/-! ### UnbatchDataset -/

def unbatchAux : List Val → Option Err → Stream Val
  | [], e => ⟨[], e⟩
  | .list xs :: rest, e => let s := unbatchAux rest e; ⟨xs ++ s.vals, s.err⟩
  | .tup xs :: rest, e => let s := unbatchAux rest e; ⟨xs ++ s.vals, s.err⟩
  | _ :: _, _ => ⟨[], some .assertionError⟩

def unbatchDS (d : DS) : DS where
  indexable := false
  ordered := d.ordered
  len := .error .typeError
  keys := .error .notImplemented
  getInt _ := .error .notImplemented
  getKey _ := .error .notImplemented
  iter := unbatchAux d.iter.vals d.iter.err
  iterK := .fail .itemsNotDefinedInternal

/-! ### CatchExceptionDataset -/

/-- run outcomes, dropping the failures caught by `except E`; the first other failure is raised -/
def catchOuts {α} (E : List Err) : List (Res α) → Stream α
  | [] => .nil
  | .ok v :: rest => .cons v (catchOuts E rest)
  | .error e :: rest => if e.isAny E then catchOuts E rest else .fail e

def catchDS (E : List Err) (d : DS) : DS where
  indexable := false
  ordered := d.ordered
  len := .error .typeError
  keys := .error .notImplemented
  getInt _ := .error .notImplemented
  getKey k := d.getKey k
  iter := match d.len with
    | .error e => .fail e
    | .ok n => catchOuts E ((irange n).map d.getInt)
  iterK := match d.keys with
    | .error e => .fail e
    | .ok ks => catchOuts E (ks.map (fun k => do let v ← d.getKey k; .ok (k, v)))

/-! ### CacheDataset (Layer A: its stateless meaning; the state machine is `Model/Cache.lean`) -/

def cacheDS (d : DS) : DS where
  indexable := d.indexable
  ordered := d.ordered
  len := d.len
  keys := d.keys
  getInt i :=
    if i < 0 then do            -- after the fix of F4: negative indices are normalised first
      let n ← d.len
      let j := i + n
      if j < 0 then .error .indexError else d.getInt j
    else d.getInt i
  getKey k := do
    let ks ← d.keys
    let idx ← keyIndex ks k
    d.getInt idx
  iter := match d.len with
    | .error e => .fail e
    | .ok n => .ofOuts ((irange n).map d.getInt)
  iterK := match d.keys with
    | .error e => .fail e
    | .ok ks => match d.len with
      | .error e => .fail e
      | .ok n => .ofOuts ((irange n).map (fun i => do
          let k ← pyIndex ks i
          let v ← d.getInt i
          .ok (k, v)))

def mkCache (d : DS) : Res DS :=
  if d.indexable then .ok (cacheDS d) else .error .assertionError

/-! ### PrefetchDataset (Layer A: the sequential meaning; the protocols are in `Conc/`) -/

def prefetchDS (workers : Nat) (threadBackend : Bool) (catchE : Option (List Err)) (d : DS) : DS :=
  let single := workers == 1 && threadBackend
  { indexable := false
    ordered := d.ordered
    len := match catchE with | some _ => .error .typeError | none => d.len
    keys := .error .notImplemented
    getInt := fun _ => .error .notImplemented
    getKey := fun _ => .error .notImplemented
    iter :=
      if single then
        match catchE with
        | some E => (catchDS E d).iter
        | none => d.iter
      else
        match d.len with
        | .error e => .fail e
        | .ok n =>
          match catchE with
          | some E => catchOuts E ((irange n).map d.getInt)
          | none => .ofOuts ((irange n).map d.getInt)
    iterK :=
      if single then
        -- after the fix of F3 the single-thread path honours `with_key`
        match catchE with
        | some E => (catchDS E d).iterK
        | none => d.iterK
      else .fail .notImplemented }      -- `self.keys()` of PrefetchDataset is not implemented

def mkPrefetch (workers buffer : Nat) (threadBackend : Bool) (catchE : Option (List Err)) (d : DS) : Res DS := do
  if !(workers == 1 && threadBackend) then
    match d.len with
    | .error _ => throw .runtimeError
    | .ok _ => pure ()
  if workers < 1 then throw .assertionError
  if buffer < workers then throw .assertionError
  .ok (prefetchDS workers threadBackend catchE d)

/-! ### CycleDataset: observed through `itertools.islice(ds, k)` -/

def cycleTake (s : Stream Val) : Nat → Nat → Stream Val
  | 0, _ => .nil
  | fuel + 1, k =>
    if k ≤ s.vals.length then ⟨s.vals.take k, none⟩
    else match s.err with
      | some e => ⟨s.vals, some e⟩
      | none =>
        if s.vals.isEmpty then .nil    -- the real code loops forever; never exercised
        else let r := cycleTake s fuel (k - s.vals.length); ⟨s.vals ++ r.vals, r.err⟩

def cycleDS (d : DS) : DS where
  indexable := d.indexable
  ordered := d.ordered
  len := .error .typeError
  keys := d.keys
  getInt i :=
    if d.ordered then do
      let n ← d.len
      if n == 0 then .error .zeroDivision else d.getInt (i % (n : Int))
    else do
      let n ← d.len
      if (n : Int) < i then
        if n == 0 then .error .zeroDivision else d.getInt (i % (n : Int))
      else .error .notImplemented
  getKey k := d.getKey k
  iter := d.iter       -- one period; consumers use `cycleTake`
  iterK := d.iterK

/-! ### eager operations built from the above (`filter(lazy=False)`, `shuffle()`, `sort`, `split`, `groupby`, `tile`) -/

/-- `[i for i, e in enumerate(self) if filter_fn(e)]` -/
def filterIdx (f : Val → Res Bool) : List Val → Nat → Res (List Nat)
  | [], _ => .ok []
  | v :: vs, i => do
    let b ← f v
    let rest ← filterIdx f vs (i + 1)
    .ok (if b then i :: rest else rest)

def streamToRes {α} (s : Stream α) : Res (List α) :=
  match s.err with
  | some e => .error e
  | none => .ok s.vals

def mkFilterEager (f : Val → Res Bool) (d : DS) : Res DS := do
  if !d.indexable then throw .runtimeError
  -- `[i for i, e in enumerate(self) if filter_fn(e)]`: the predicate runs on each example as it is
  -- yielded, so a predicate error on a yielded example comes before the error that ends the stream
  let idx ← filterIdx f d.iter.vals 0
  let _ ← streamToRes d.iter
  let _ ← d.len                              -- `if len(self) > len(idx)` (logging only)
  mkSlice (.idx (idx.map Int.ofNat)) d

/-- `np.array_split(np.arange(n), k)[i]` -/
def sectionStart (n k i : Nat) : Nat := i * (n / k) + min i (n % k)
def sectionIdx (n k i : Nat) : List Nat :=
  let a := sectionStart n k i
  let b := sectionStart n k (i + 1)
  (List.range (b - a)).map (· + a)

def mkSplit (k : Int) (d : DS) : Res (List DS) := do
  if k < 1 then throw .valueError
  let n ← d.len
  if k > n then throw .valueError
  let kk := k.toNat
  (List.range kk).mapM (fun i => mkSlice (.idx ((sectionIdx n kk i).map Int.ofNat)) d)

def mkShard (k i : Int) (d : DS) : Res DS := do
  let parts ← mkSplit k d
  pyIndex parts i

/-- `self.shuffle()` with the permutation the generator produced as an explicit input -/
def mkShuffleOnce (perm : List Nat) (d : DS) : Res DS := do
  let n ← d.len
  -- a generator that does not touch the array leaves `arange(n)` (only the harness' stub does that)
  let perm := if perm.length == n then perm else List.range n
  mkSlice (.idx (perm.map Int.ofNat)) d

/-- group ids are ints or strs (what the menu of functions produces) -/
inductive SKey where
  | int (i : Int) | str (s : String)
  deriving Repr, DecidableEq

def SKey.ofVal : Val → Option SKey
  | .int i => some (.int i)
  | .str s => some (.str s)
  | _ => none

/-- tuple comparison `(key, index) ≤ (key', index')` as `sorted(zip(values, count()))` performs it,
    generic in the (strict) order of the key type -/
def pairLeBy {κ} (lt : κ → κ → Bool) (a b : κ × Nat) : Bool :=
  if lt a.1 b.1 then true
  else if lt b.1 a.1 then false
  else a.2 ≤ b.2

/-- `[index for _, index in sorted(zip(values, count()), reverse=reverse)]`.
    All `(value, index)` tuples are distinct, so `reverse=True` is the reversed ascending order. -/
def sortOrderBy {κ} (lt : κ → κ → Bool) (ks : List κ) (reverse : Bool) : List Nat :=
  let sorted := (ks.zipIdx).mergeSort (pairLeBy lt)
  let sorted := if reverse then sorted.reverse else sorted
  sorted.map (·.2)

def intLt (a b : Int) : Bool := a < b
def strLt (a b : String) : Bool := a < b
def strLe (a b : String) : Bool := a ≤ b

def asInts : List Val → Option (List Int)
  | [] => some []
  | .int i :: rest => (asInts rest).map (i :: ·)
  | _ :: _ => none

def asStrs : List Val → Option (List String)
  | [] => some []
  | .str s :: rest => (asStrs rest).map (s :: ·)
  | _ :: _ => none

/-- `sorted(keys, reverse=reverse)` on a list of distinct-or-not strings (stable) -/
def sortKeys (ks : List String) (reverse : Bool) : List String :=
  if reverse then ks.mergeSort (fun a b => strLe b a) else ks.mergeSort strLe

def mkSort (keyFn : Option (Val → Res Val)) (reverse : Bool) (d : DS) : Res DS :=
  match keyFn with
  | none =>
    match d.keys with
    | .error e => if e == .notImplemented then .error .runtimeError else .error e
    | .ok ks =>
      -- after the fix of F7: `sort_fn(keys, reverse=reverse)`
      mkSlice (.keys (sortKeys ks reverse)) d
  | some f => do
    -- `[key_fn(example) for example in self]`: a key error on a yielded example comes first
    let kv ← d.iter.vals.mapM f
    let _ ← streamToRes d.iter
    match asInts kv with
    | some is => mkSlice (.idx ((sortOrderBy intLt is reverse).map Int.ofNat)) d
    | none =>
      match asStrs kv with
      | some ss => mkSlice (.idx ((sortOrderBy strLt ss reverse).map Int.ofNat)) d
      | none =>
        if kv.length ≤ 1 then mkSlice (.idx ((List.range kv.length).map Int.ofNat)) d
        else .error .typeError

/-- `groupby`: group ids in first-occurrence order, each with the indices of its members -/
def groupInsert (g : SKey) (i : Nat) : List (SKey × List Nat) → List (SKey × List Nat)
  | [] => [(g, [i])]
  | (g', is) :: rest => if g' = g then (g', is ++ [i]) :: rest else (g', is) :: groupInsert g i rest

def groupIndices (gs : List SKey) : List (SKey × List Nat) :=
  (gs.zipIdx).foldl (fun acc (g, i) => groupInsert g i acc) []

def mkGroupBy (f : Val → Res Val) (d : DS) : Res (List (SKey × DS)) := do
  let vs ← streamToRes (mapDS f d).iter
  match vs.mapM SKey.ofVal with
  | none => .error .typeError
  | some gs =>
    (groupIndices gs).mapM (fun (g, is) => do
      let s ← mkSlice (.idx (is.map Int.ofNat)) d
      .ok (g, s))

/-- `Dataset.concatenate(*[self] * reps)` -/
def mkTile (reps : Nat) (d : DS) : Res DS :=
  match reps with
  | 0 => .error .typeError
  | 1 => .ok d
  | r => .ok (concatDS (List.replicate r d))

/-- `a.concatenate(b, c, …)` / `lazy_dataset.concatenate(a, b, …)` -/
def mkConcat : List DS → Res DS
  | [] => .error .valueError
  | [d] => .ok d
  | ds => .ok (concatDS ds)

/-- `cache(lazy=False)` = `new(self)` = `from_dataset(self)` -/
def mkCacheEager (d : DS) : Res DS := do
  if !(d.indexable || d.ordered) then throw .assertionError
  let s := d.iterK
  match s.err with
  | some e =>
    if e == .itemsNotDefinedInternal then
      -- ItemsDataset turns it into ItemsNotDefined, which from_dataset catches
      let vs ← streamToRes d.iter
      .ok (listSrc vs)
    else .error e
  | none =>
    if hasDup (s.vals.map (·.1)) then .ok (listSrc (s.vals.map (·.2)))
    else .ok (dictSrc s.vals)

end LazyDs

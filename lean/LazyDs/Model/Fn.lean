import LazyDs.Model.Basic
/-
  The finite menu of user functions that the correspondence check can *execute* on both
  sides (`harness/fnmenu.py` interprets the same menu in Python).  Theorems never mention
  this file: they quantify over an arbitrary `Env`.
-/
namespace LazyDs

inductive FnSym where
  | identity
  | add (c : Int)                       -- lambda x: x + c            (TypeError unless int)
  | tag (s : String)                    -- lambda x: {s: x}
  | raiseIfMod (m : Nat) (r : Nat) (cls : Err)   -- raise cls() if int x and x % m == r else x
  | fragment (k : Nat)                  -- lambda x: [x*10 + j for j in range(k)]   (TypeError unless int)
  | first                               -- x[0] for a non-empty tuple/list, else TypeError
  | keyMod (m : Nat)                    -- x % m   (TypeError unless int)
  | neg                                 -- -x      (TypeError unless int)
  | strOf                               -- 'k' + str(abs(x)) for ints (TypeError otherwise)
  deriving Repr, Inhabited

inductive PredSym where
  | always (b : Bool)
  | keepMod (m r : Nat)                 -- x % m == r for ints, True otherwise
  | dropMod (m r : Nat)                 -- x % m != r for ints, True otherwise
  | raiseIfMod (m r : Nat) (cls : Err)  -- raise cls() if int x and x % m == r else True
  deriving Repr, Inhabited

structure Env where
  fn : FnSym → Val → Res Val
  pred : PredSym → Val → Res Bool

def natDigits (n : Nat) : String := toString n

def menuFn : FnSym → Val → Res Val
  | .identity, v => .ok v
  | .add c, .int i => .ok (.int (i + c))
  | .add _, _ => .error .typeError
  | .tag s, v => .ok (.dict [(s, v)])
  | .raiseIfMod m r cls, .int i => if m != 0 && i % (m : Int) == (r : Int) then .error cls else .ok (.int i)
  | .raiseIfMod _ _ _, v => .ok v
  | .fragment k, .int i => .ok (.list ((List.range k).map (fun (j : Nat) => Val.int (i * 10 + (j : Int)))))
  | .fragment _, _ => .error .typeError
  | .first, .tup (x :: _) => .ok x
  | .first, .list (x :: _) => .ok x
  | .first, _ => .error .typeError
  | .keyMod m, .int i => if m == 0 then .error .zeroDivision else .ok (.int (i % (m : Int)))
  | .keyMod _, _ => .error .typeError
  | .neg, .int i => .ok (.int (-i))
  | .neg, _ => .error .typeError
  | .strOf, .int i => .ok (.str ("k" ++ natDigits i.natAbs))
  | .strOf, _ => .error .typeError

def menuPred : PredSym → Val → Res Bool
  | .always b, _ => .ok b
  | .keepMod m r, .int i => .ok (m != 0 && i % (m : Int) == (r : Int))
  | .keepMod _ _, _ => .ok true
  | .dropMod m r, .int i => .ok !(m != 0 && i % (m : Int) == (r : Int))
  | .dropMod _ _, _ => .ok true
  | .raiseIfMod m r cls, .int i => if m != 0 && i % (m : Int) == (r : Int) then .error cls else .ok true
  | .raiseIfMod _ _ _, _ => .ok true

def menuEnv : Env := ⟨menuFn, menuPred⟩

end LazyDs

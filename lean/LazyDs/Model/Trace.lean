import LazyDs.Model.Stage
import LazyDs.Model.Fn
/-
  Layer B for C08 (demand-driven evaluation): a CHUNKED-TRACE semantics.  A traced stream is the
  list of yielded values, each together with the user-function calls made since the previous
  yield (its chunk), plus the calls made after the last yield and how the stream ends.
  Code of a Python generator runs only between a resumption and the next `yield`, so consuming
  the first `k` results performs exactly the calls of the first `k` chunks; what this model has
  to get right — and what the correspondence check compares after EVERY `next()` — is which
  call lands in which chunk for every stage.
  CORE LEAN ONLY.
-/
namespace LazyDs.Trace

/-- one application of a user function: the stage that owns the function, and the argument -/
structure Call where
  stage : Nat
  arg : Val
  deriving Repr

abbrev Log := List Call

structure TStream where
  chunks : List (Log × Val)
  tail : Log
  err : Option Err
  deriving Repr

/-- the untraced view (what Layer A calls `iter`) -/
def TStream.erase (t : TStream) : Stream Val := ⟨t.chunks.map (·.2), t.err⟩
/-- every call of the whole iteration, in execution order -/
def TStream.fullLog (t : TStream) : Log := (t.chunks.map (·.1)).flatten ++ t.tail
/-- the calls performed by consuming the first `k` results -/
def TStream.logAfter (t : TStream) (k : Nat) : Log := ((t.chunks.take k).map (·.1)).flatten

/-- the lazy pipelines of the property -/
inductive TPipe where
  | src (xs : List Val)
  | map (sid : Nat) (f : FnSym) (p : TPipe)
  | filter (sid : Nat) (f : PredSym) (p : TPipe)
  | batch (n : Nat) (dropLast : Bool) (p : TPipe)
  | unbatch (p : TPipe)
  | concat (p q : TPipe)
  | slice (sel : List Nat) (p : TPipe)          -- index driven: `for idx in sel: yield input[idx]`
  | zip (p q : TPipe)
  | localShuffle (bs : Nat) (choices : List Nat) (final : List Nat) (p : TPipe)
  | catch (E : List Err) (p : TPipe)            -- index driven: `for i in range(len(input)): try: yield input[i] except E: continue`
  | reshuffle (perm : List Nat) (p : TPipe)     -- `for idx in perm: yield input[idx]`, `perm` = the drawn permutation
  | cache (p : TPipe)                           -- first pass over an empty cache: `for i in range(len(self)): yield self[i]`
  | tile (r : Nat) (p : TPipe)                  -- `ConcatenateDataset([input] * r)`
  | intersperse (p q : TPipe)                   -- `IntersperseDataset(p, q)`
  deriving Repr

/-- `for x in input: yield f(x)` -/
def mapT (ρ : Env) (sid : Nat) (f : FnSym) : List (Log × Val) → Log → Option Err → TStream
  | [], tl, e => ⟨[], tl, e⟩
  | (lg, v) :: rest, tl, e =>
    match ρ.fn f v with
    | .ok w => let t := mapT ρ sid f rest tl e; ⟨(lg ++ [⟨sid, v⟩], w) :: t.chunks, t.tail, t.err⟩
    | .error er => ⟨[], lg ++ [⟨sid, v⟩], some er⟩

/-- `for x in input: if f(x): yield x` — the calls on rejected examples join the chunk of the next accepted one -/
def filterT (ρ : Env) (sid : Nat) (f : PredSym) : List (Log × Val) → Log → Log → Option Err → TStream
  | [], pending, tl, e => ⟨[], pending ++ tl, e⟩
  | (lg, v) :: rest, pending, tl, e =>
    match ρ.pred f v with
    | .ok true => let t := filterT ρ sid f rest [] tl e; ⟨(pending ++ lg ++ [⟨sid, v⟩], v) :: t.chunks, t.tail, t.err⟩
    | .ok false => filterT ρ sid f rest (pending ++ lg ++ [⟨sid, v⟩]) tl e
    | .error er => ⟨[], pending ++ lg ++ [⟨sid, v⟩], some er⟩

/-- BatchDataset.__iter__: `cur` = the batch collected so far (reversed), `lg` = its calls -/
def batchT (n : Nat) (dropLast : Bool) : List (Log × Val) → List Val → Log → Log → Option Err → TStream
  | [], cur, lg, tl, e =>
    match e with
    | some er => ⟨[], lg ++ tl, some er⟩
    | none =>
      if cur.length > 0 && !dropLast then ⟨[(lg ++ tl, .list cur.reverse)], [], none⟩
      else ⟨[], lg ++ tl, none⟩
  | (l, v) :: rest, cur, lg, tl, e =>
    let cur' := v :: cur
    if cur'.length ≥ n then
      let t := batchT n dropLast rest [] [] tl e
      ⟨(lg ++ l, .list cur'.reverse) :: t.chunks, t.tail, t.err⟩
    else batchT n dropLast rest cur' (lg ++ l) tl e

/-- UnbatchDataset.__iter__: the batch's calls happen before its first element is handed out;
    an empty batch passes its calls on to whatever is yielded next -/
def unbatchT : List (Log × Val) → Log → Log → Option Err → TStream
  | [], pending, tl, e => ⟨[], pending ++ tl, e⟩
  | (lg, v) :: rest, pending, tl, e =>
    let elems : Option (List Val) := match v with
      | .list xs => some xs
      | .tup xs => some xs
      | _ => none
    match elems with
    | none => ⟨[], pending ++ lg, some .assertionError⟩
    | some [] => unbatchT rest (pending ++ lg) tl e
    | some (x :: xs) =>
      let t := unbatchT rest [] tl e
      ⟨(pending ++ lg, x) :: xs.map (fun y => (([] : Log), y)) ++ t.chunks, t.tail, t.err⟩

def appendT (a b : TStream) : TStream :=
  match a.err with
  | some e => a
  | none =>
    match b.chunks with
    | [] => ⟨a.chunks, a.tail ++ b.tail, b.err⟩
    | (lg, v) :: rest => ⟨a.chunks ++ (a.tail ++ lg, v) :: rest, b.tail, b.err⟩

/-- Python `zip` of two generators: row by row, left then right -/
def zipT : List (Log × Val) → Log → Option Err → List (Log × Val) → Log → Option Err → TStream
  | [], tl, e, _, _, _ => ⟨[], tl, e⟩
  | (la, a) :: ra, tla, ea, [], tlb, eb => ⟨[], la ++ tlb, eb⟩
  | (la, a) :: ra, tla, ea, (lb, b) :: rb, tlb, eb =>
    let t := zipT ra tla ea rb tlb eb
    ⟨(la ++ lb, .tup [a, b]) :: t.chunks, t.tail, t.err⟩

/-- LocalShuffleDataset.__iter__ with the drawn positions as oracle: an element is handed out only
    once `bs` elements are buffered, so the chunk of output `j` contains the calls of input `j + bs - 1` -/
def localT (bs : Nat) : List (Log × Val) → List Val → Log → List Nat → List Nat → Log → Option Err → TStream
  | [], buf, lg, _, final, tl, e =>
    match e with
    | some er => ⟨[], lg ++ tl, some er⟩
    | none =>
      let out := final.filterMap (buf[·]?)
      match out with
      | [] => ⟨[], lg ++ tl, none⟩
      | x :: xs => ⟨(lg ++ tl, x) :: xs.map (fun y => (([] : Log), y)), [], none⟩
  | (l, v) :: rest, buf, lg, choices, final, tl, e =>
    let buf' := buf ++ [v]
    if buf'.length ≥ bs then
      match choices with
      | c :: cs =>
        match buf'[c]? with
        | some y =>
          let t := localT bs rest (buf'.eraseIdx c) [] cs final tl e
          ⟨(lg ++ l, y) :: t.chunks, t.tail, t.err⟩
        | none => ⟨[], lg ++ l, some .indexError⟩
      | [] => ⟨[], lg ++ l, some .indexError⟩
    else localT bs rest buf' (lg ++ l) choices final tl e

/-- `ConcatenateDataset([input] * r).__iter__`: the input is iterated afresh `r` times, one pass after the other
    (`tileT t 1 = t`, see `tileT_one`) -/
def tileT (t : TStream) : Nat → TStream
  | 0 => ⟨[], [], none⟩
  | r + 1 => appendT t (tileT t r)

/-- IntersperseDataset.__iter__: `iterators = [iter(p), iter(q)]; for (_, d, _) in order: yield next(iterators[d])`.
    `ca`/`cb` = what the two traced generators still have to yield.  A part that is exhausted when asked ends
    the stream: with its own error, or — the generator returned, `next` raised StopIteration inside a generator
    (PEP 479) — with RuntimeError; the calls after its last `yield` have run by then.  After the last entry of
    the table the loop just ends: nobody resumes the parts again, their tails never run. -/
def interT : List OrdEntry → List (Log × Val) → Log → Option Err → List (Log × Val) → Log → Option Err → TStream
  | [], _, _, _, _, _, _ => ⟨[], [], none⟩
  | o :: rest, ca, tla, ea, cb, tlb, eb =>
    if o.d == 0 then
      match ca with
      | (lg, v) :: ca' => let t := interT rest ca' tla ea cb tlb eb; ⟨(lg, v) :: t.chunks, t.tail, t.err⟩
      | [] => ⟨[], tla, some (match ea with | some er => er | none => .runtimeError)⟩
    else
      match cb with
      | (lg, v) :: cb' => let t := interT rest ca tla ea cb' tlb eb; ⟨(lg, v) :: t.chunks, t.tail, t.err⟩
      | [] => ⟨[], tlb, some (match eb with | some er => er | none => .runtimeError)⟩

/-- `len(ds)` where the class offers one -/
def lenT : TPipe → Option Nat
  | .src xs => some xs.length
  | .map _ _ p => lenT p
  | .filter _ _ _ => none
  | .batch n dl p => (lenT p).map (fun m => if n == 0 then 0 else if dl then m / n else (m + n - 1) / n)
  | .unbatch _ => none
  | .concat p q => do let a ← lenT p; let b ← lenT q; pure (a + b)
  | .slice sel _ => some sel.length
  | .zip p _ => lenT p
  | .localShuffle _ _ _ p => lenT p
  | .catch _ _ => none
  | .reshuffle _ p => lenT p
  | .cache p => lenT p
  | .tile r p => (lenT p).map (r * ·)
  | .intersperse p q => do let a ← lenT p; let b ← lenT q; pure (a + b)

mutual
/-- traced iteration -/
def iterT (ρ : Env) : TPipe → TStream
  | .src xs => ⟨xs.map (fun v => ([], v)), [], none⟩
  | .map sid f p => let t := iterT ρ p; mapT ρ sid f t.chunks t.tail t.err
  | .filter sid f p => let t := iterT ρ p; filterT ρ sid f t.chunks [] t.tail t.err
  | .batch n dl p => let t := iterT ρ p; batchT n dl t.chunks [] [] t.tail t.err
  | .unbatch p => let t := iterT ρ p; unbatchT t.chunks [] t.tail t.err
  | .concat p q => appendT (iterT ρ p) (iterT ρ q)
  | .slice sel p => sliceT ρ p sel
  | .zip p q =>
    let a := iterT ρ p
    let b := iterT ρ q
    zipT a.chunks a.tail a.err b.chunks b.tail b.err
  | .localShuffle bs choices final p => let t := iterT ρ p; localT bs t.chunks [] [] choices final t.tail t.err
  | .catch E p =>
    match lenT p with
    | some n => catchT ρ E p (List.range n) []
    | none => ⟨[], [], some .typeError⟩
  | .reshuffle perm p => sliceT ρ p perm
  | .cache p =>
    match lenT p with
    | some n => sliceT ρ p (List.range n)
    | none => ⟨[], [], some .typeError⟩
  | .tile r p => tileT (iterT ρ p) r
  | .intersperse p q =>
    match lenT p, lenT q with
    | some n₁, some n₂ =>
      let a := iterT ρ p
      let b := iterT ρ q
      interT (intersperseOrder [n₁, n₂]) a.chunks a.tail a.err b.chunks b.tail b.err
    | _, _ => ⟨[], [], some .typeError⟩
/-- traced `ds[i]` for a non-negative in-range `i` (the calls made for exactly that result) -/
def getT (ρ : Env) : TPipe → Nat → Log × Res Val
  | .src xs, i => ([], match xs[i]? with | some v => .ok v | none => .error .indexError)
  | .map sid f p, i =>
    match getT ρ p i with
    | (lg, .ok v) => (lg ++ [⟨sid, v⟩], ρ.fn f v)
    | (lg, .error e) => (lg, .error e)
  | .slice sel p, i =>
    match sel[i]? with
    | some j => getT ρ p j
    | none => ([], .error .indexError)
  | .concat p q, i =>
    match lenT p with
    | some n => if i < n then getT ρ p i else getT ρ q (i - n)
    | none => ([], .error .typeError)
  | .batch n dl p, i =>
    -- `for t in range(n): input[i*n+t]`, an IndexError after the first element ends the batch
    -- (`if i == 0 or self.drop_last: raise`: with `drop_last` an incomplete batch is refused)
    let rec go (t : Nat) (fuel : Nat) (lg : Log) (acc : List Val) : Log × Res Val :=
      match fuel with
      | 0 => (lg, .ok (.list acc.reverse))
      | fuel + 1 =>
        match getT ρ p (i * n + t) with
        | (l, .ok v) => go (t + 1) fuel (lg ++ l) (v :: acc)
        | (l, .error e) =>
          if e == .indexError && t != 0 && !dl then go (t + 1) fuel (lg ++ l) acc else (lg ++ l, .error e)
    go 0 n [] []
  | .zip p q, i =>
    match getT ρ p i with
    | (la, .ok a) =>
      match getT ρ q i with
      | (lb, .ok b) => (la ++ lb, .ok (.tup [a, b]))
      | (lb, .error e) => (la ++ lb, .error e)
    | (la, .error e) => (la, .error e)
  | .filter _ _ _, _ => ([], .error .assertionError)
  | .unbatch _, _ => ([], .error .notImplemented)
  | .localShuffle _ _ _ _, _ => ([], .error .typeError)
  | .catch _ _, _ => ([], .error .notImplemented)
  | .reshuffle _ _, _ => ([], .error .typeError)
  | .cache p, i => getT ρ p i                       -- a fresh cache: `self[i]` fetches `input[i]`
  | .tile r p, i =>
    match lenT p with
    | some n => if i < r * n then getT ρ p (i % n) else ([], .error .indexError)
    | none => ([], .error .typeError)
  | .intersperse p q, i =>
    -- `(_, d, j) = order[i]; return parts[d][j]`
    match lenT p, lenT q with
    | some n₁, some n₂ =>
      match (intersperseOrder [n₁, n₂])[i]? with
      | some o => if o.d == 0 then getT ρ p o.j else getT ρ q o.j
      | none => ([], .error .indexError)
    | _, _ => ([], .error .typeError)
/-- `for idx in sel: yield input[idx]` -/
def sliceT (ρ : Env) (p : TPipe) : List Nat → TStream
  | [] => ⟨[], [], none⟩
  | j :: rest =>
    match getT ρ p j with
    | (lg, .ok v) => let t := sliceT ρ p rest; ⟨(lg, v) :: t.chunks, t.tail, t.err⟩
    | (lg, .error e) => ⟨[], lg, some e⟩
/-- CatchExceptionDataset.__iter__ over the positions `sel` (= `range(len(input))`): `pending` = the calls of the
    positions skipped since the last `yield` -/
def catchT (ρ : Env) (E : List Err) (p : TPipe) : List Nat → Log → TStream
  | [], pending => ⟨[], pending, none⟩
  | j :: rest, pending =>
    match getT ρ p j with
    | (lg, .ok v) => let t := catchT ρ E p rest []; ⟨(pending ++ lg, v) :: t.chunks, t.tail, t.err⟩
    | (lg, .error e) =>
      if e.isAny E then catchT ρ E p rest (pending ++ lg) else ⟨[], pending ++ lg, some e⟩
end

end LazyDs.Trace

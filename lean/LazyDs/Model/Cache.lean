/-
  Layer B: `CacheDataset` / `_CacheWrapper` as a state machine over access histories (C10),
  after the fix of F4 (negative indices are normalised before the lookup).

  * the store (`_cache.cache`, a dict index -> pickled value) is SHARED by all copies;
  * the latch `_do_cache` is per instance (a class attribute that an instance overrides with
    `False` the first time `check()` fails; `copy()` does not copy it);
  * the upstream pipeline is `up j c` = the value produced for example `j` by its `c`-th
    evaluation (so pipelines that return something fresh on every call are covered);
  * the memory oracle (what `psutil.virtual_memory()` lets `check()` answer) is an input of
    every access.
  CORE LEAN ONLY.
-/
namespace LazyDs.Cache

structure St (V : Type) where
  n : Nat                       -- len(input_dataset)
  store : List (Nat × V)        -- shared dict: example index -> stored value
  latch : List Bool             -- per instance: `_do_cache`
  calls : List Nat              -- per example: how often the upstream evaluated it

inductive Op where
  | get (inst : Nat) (i : Int) (mem : Bool)     -- ds[i]; `mem` = would memory permit caching now
  | copy (inst : Nat)
  deriving Repr

inductive Out (V : Type) where
  | val (v : V)
  | indexError
  | newInst (id : Nat)
  | badInst
  deriving Repr

def init {V} (n : Nat) : St V :=
  { n, store := [], latch := [true], calls := List.replicate n 0 }

def lookup {V} (store : List (Nat × V)) (j : Nat) : Option V :=
  (store.find? (·.1 == j)).map (·.2)

/-- `check()`: a latched instance answers False without asking; otherwise the oracle decides and a
    False latches the instance -/
def check {V} (s : St V) (inst : Nat) (mem : Bool) : Bool × List Bool :=
  match s.latch[inst]? with
  | some true => if mem then (true, s.latch) else (false, s.latch.set inst false)
  | _ => (false, s.latch)

def step {V} (up : Nat → Nat → V) (s : St V) : Op → St V × Out V
  | .copy inst =>
    if inst < s.latch.length then ({ s with latch := s.latch ++ [true] }, .newInst s.latch.length)
    else (s, .badInst)
  | .get inst i mem =>
    if inst ≥ s.latch.length then (s, .badInst) else
    let N : Int := s.n
    let j := if i < 0 then i + N else i
    if j < 0 || j ≥ N then (s, .indexError)
    else
      let j := j.toNat
      match lookup s.store j with
      | some v => (s, .val v)
      | none =>
        let c := s.calls.getD j 0
        let v := up j c
        let calls := s.calls.set j (c + 1)
        let (ok, latch) := check s inst mem
        if ok then ({ s with store := s.store ++ [(j, v)], latch, calls }, .val v)
        else ({ s with latch, calls }, .val v)

def run {V} (up : Nat → Nat → V) : St V → List Op → St V × List (Out V)
  | s, [] => (s, [])
  | s, op :: ops =>
    let (s', o) := step up s op
    let (sf, os) := run up s' ops
    (sf, o :: os)

end LazyDs.Cache

/-
  Layer B: `DynamicBucketDataset.__iter__` as a fold over the input stream (property C17),
  generic in the bucket class, plus the `DynamicTimeSeriesBucket` instance in exact arithmetic
  (after the fix of F9: `assess` refuses an example that would exceed `max_total_size`).
  CORE LEAN ONLY.

  An example is `(id, len)`: `id` makes examples distinguishable (conservation is about the
  multiset of examples), `len` is what `len_key` returns.
-/
namespace LazyDs.Bucket

structure Ex where
  id : Nat
  len : Nat
  deriving Repr, DecidableEq

/-- what the dataset needs from a bucket class (`DynamicBucket` subclass) -/
structure BucketOps (β : Type) where
  init : Ex → β
  data : β → List Ex
  assess : β → Ex → Bool
  append : β → Ex → β
  completed : β → Bool

/-- the laws every `DynamicBucket` subclass satisfies by construction (`self.data = [init]`,
    `_append` appends to `self.data`) -/
structure Lawful {β} (ops : BucketOps β) : Prop where
  data_init : ∀ e, ops.data (ops.init e) = [e]
  data_append : ∀ b e, ops.data (ops.append b e) = ops.data b ++ [e]

structure Params where
  expiration : Option Nat
  maxBuffered : Option Nat
  dropIncomplete : Bool
  deriving Repr

/-- loop state: open buckets with their creation index, `buffered_count`, the index `i` of `enumerate` -/
structure St (β : Type) where
  buckets : List (β × Nat)
  buffered : Nat
  i : Nat

/-- what one pass of the loop body hands out -/
structure Out where
  emitted : List (List Ex) := []
  dropped : List (List Ex) := []
  deriving Repr

def Out.append (a b : Out) : Out := ⟨a.emitted ++ b.emitted, a.dropped ++ b.dropped⟩

/-- `for j, (bucket_j, _) in enumerate(buckets): if bucket_j.maybe_append(example): break`
    returns the updated list and the index of the bucket that took the example -/
def tryAppend {β} (ops : BucketOps β) (e : Ex) : List (β × Nat) → Nat → Option (List (β × Nat) × Nat)
  | [], _ => none
  | (b, c) :: rest, j =>
    if ops.assess b e then some ((ops.append b e, c) :: rest, j)
    else match tryAppend ops e rest (j + 1) with
      | some (rest', k) => some ((b, c) :: rest', k)
      | none => none

/-- emit or drop a bucket that is given up before completion -/
def release {β} (ops : BucketOps β) (p : Params) (b : β) : Out :=
  if p.dropIncomplete then { dropped := [ops.data b] } else { emitted := [ops.data b] }

/-- the expiry loop: the FIRST bucket (in list order) whose age reached `expiration` is released, then `break` -/
def expireOne {β} (ops : BucketOps β) (p : Params) (i : Nat) (ex : Nat) :
    List (β × Nat) → Option (List (β × Nat) × β)
  | [] => none
  | (b, c) :: rest =>
    if i - c ≥ ex then some (rest, b)
    else match expireOne ops p i ex rest with
      | some (rest', b') => some ((b, c) :: rest', b')
      | none => none

/-- `while buffered_count > max_buffered_examples: pop(0)` -/
def overflow {β} (ops : BucketOps β) (p : Params) (maxB : Nat) :
    List (β × Nat) → Nat → List (β × Nat) × Nat × Out
  | [], buffered => ([], buffered, {})
  | (b, c) :: rest, buffered =>
    if buffered > maxB then
      let (bs, n, o) := overflow ops p maxB rest (buffered - (ops.data b).length)
      (bs, n, (release ops p b).append o)
    else ((b, c) :: rest, buffered, {})

/-- one pass of the loop body for example `e` -/
def step {β} (ops : BucketOps β) (p : Params) (s : St β) (e : Ex) : St β × Out :=
  -- first fit, else a new bucket at the end
  let (buckets, j) := match tryAppend ops e s.buckets 0 with
    | some r => r
    | none => (s.buckets ++ [(ops.init e, s.i)], s.buckets.length)
  let buffered := s.buffered + 1
  -- completion of the bucket that took the example
  let (buckets, buffered, o1) :=
    match buckets[j]? with
    | some (b, _) =>
      if ops.completed b then (buckets.eraseIdx j, buffered - (ops.data b).length, ({ emitted := [ops.data b] } : Out))
      else (buckets, buffered, {})
    | none => (buckets, buffered, {})
  -- expiry (at most one bucket per pass)
  let (buckets, buffered, o2) :=
    match p.expiration with
    | none => (buckets, buffered, ({} : Out))
    | some ex =>
      match expireOne ops p s.i ex buckets with
      | some (rest, b) => (rest, buffered - (ops.data b).length, release ops p b)
      | none => (buckets, buffered, {})
  -- overflow
  let (buckets, buffered, o3) :=
    match p.maxBuffered with
    | none => (buckets, buffered, ({} : Out))
    | some m => overflow ops p m buckets buffered
  ({ buckets, buffered, i := s.i + 1 }, (o1.append o2).append o3)

/-- the final flush after the source is exhausted -/
def flush {β} (ops : BucketOps β) (p : Params) (s : St β) : Out :=
  s.buckets.foldl (fun o bc => o.append (release ops p bc.1)) {}

def init {β} : St β := { buckets := [], buffered := 0, i := 0 }

/-- run the whole input: the output of every pass, then the flush -/
def runAux {β} (ops : BucketOps β) (p : Params) : St β → List Ex → List Out × St β
  | s, [] => ([], s)
  | s, e :: es =>
    let (s', o) := step ops p s e
    let (os, sf) := runAux ops p s' es
    (o :: os, sf)

def run {β} (ops : BucketOps β) (p : Params) (input : List Ex) : List Out :=
  let (os, sf) := runAux ops p init input
  os ++ [flush ops p sf]

def allEmitted (os : List Out) : List (List Ex) := (os.map (·.emitted)).flatten
def allDropped (os : List Out) : List (List Ex) := (os.map (·.dropped)).flatten

/-! ### DynamicTimeSeriesBucket in exact arithmetic

`max_padding_rate = num/den` with `num < den`.  `lower_bound = max_i len_i·(1 - rate)` and
`upper_bound = min_i len_i/(1 - rate)`, so it suffices to track the longest and shortest member:
`lower ≤ x ⇔ maxLen·(den-num) ≤ x·den` and `x ≤ upper ⇔ x·(den-num) ≤ minLen·den`. -/

structure TSParams where
  batchSize : Nat
  num : Nat
  den : Nat
  maxTotal : Option Nat
  deriving Repr

structure TSBucket where
  data : List Ex
  maxLen : Nat
  minLen : Nat
  deriving Repr

def tsOps (tp : TSParams) : BucketOps TSBucket where
  init e := { data := [e], maxLen := e.len, minLen := e.len }
  data b := b.data
  assess b e :=
    (match tp.maxTotal with
      | some m => decide ((b.data.length + 1) * max b.maxLen e.len ≤ m)
      | none => true)
    && decide (b.maxLen * (tp.den - tp.num) ≤ e.len * tp.den)
    && decide (e.len * (tp.den - tp.num) ≤ b.minLen * tp.den)
  append b e := { data := b.data ++ [e], maxLen := max b.maxLen e.len, minLen := min b.minLen e.len }
  completed b :=
    decide (b.data.length ≥ tp.batchSize)
    || (match tp.maxTotal with
        | some m => decide ((b.data.length + 1) * b.maxLen > m)
        | none => false)

/-! ### the same bucket with IEEE doubles, exactly as the Python computes it (used by the driver
for the correspondence; the theorems are about the exact instance) -/

structure TSBucketF where
  data : List Ex
  lower : Float
  upper : Float
  maxLen : Nat
  deriving Repr

def tsOpsF (batchSize : Nat) (rate : Float) (maxTotal : Option Nat) : BucketOps TSBucketF where
  init e := { data := [e], lower := e.len.toFloat * (1.0 - rate), upper := e.len.toFloat / (1.0 - rate), maxLen := e.len }
  data b := b.data
  assess b e :=
    (match maxTotal with
      | some m => decide ((b.data.length + 1) * max b.maxLen e.len ≤ m)
      | none => true)
    && (b.lower ≤ e.len.toFloat) && (e.len.toFloat ≤ b.upper)
  append b e :=
    let l := e.len.toFloat * (1.0 - rate)
    let u := e.len.toFloat / (1.0 - rate)
    { data := b.data ++ [e],
      lower := if b.lower ≥ l then b.lower else l,       -- Python `max(a, b)` returns `a` unless `b > a`
      upper := if u < b.upper then u else b.upper,       -- Python `min(a, b)` returns `a` unless `b < a`
      maxLen := max b.maxLen e.len }
  completed b :=
    decide (b.data.length ≥ batchSize)
    || (match maxTotal with
        | some m => decide ((b.data.length + 1) * b.maxLen > m)
        | none => false)

end LazyDs.Bucket

namespace LazyDs.Bucket

/-- `sorted(data, key=sort_key, reverse=reverse_sort)` (stable; `reverse=True` keeps the original
    order of equal elements, which is what a stable descending merge sort does) -/
def sortBatch (key : Ex → Nat) (reverse : Bool) (data : List Ex) : List Ex :=
  if reverse then data.mergeSort (fun a b => decide (key a ≥ key b))
  else data.mergeSort (fun a b => decide (key a ≤ key b))

end LazyDs.Bucket

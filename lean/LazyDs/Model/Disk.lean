/-
  Layer B: `DiskCacheDataset` / `_DiskCacheWrapper` over histories with process death (C11).

  * a directory is `none` (does not exist) or `some entries` (exists; a diskcache directory
    always contains its database file, so an existing directory is "non-empty" for the
    `reuse` check even when it has no entries);
  * `set` is one atomic durable step (assumption on diskcache/SQLite, see DESIGN.md §5);
  * a wrapper is shared by a dataset and its copies; it is finalised (`__del__`) when the last
    holder is released: the cache is closed and, iff `clear`, the directory is removed;
  * `kill` ends the process at any point: wrappers vanish WITHOUT `__del__`, the directory stays.
  The upstream pipeline is a function `f : Nat → V` with a call counter per example.
  CORE LEAN ONLY.
-/
namespace LazyDs.Disk

structure Wrapper where
  dir : Nat           -- which directory
  clear : Bool
  holders : Nat       -- datasets (original + copies) alive that share this wrapper
  alive : Bool
  deriving Repr

structure St (V : Type) where
  n : Nat
  dirs : List (Option (List (Nat × V)))      -- the file system: directory id -> content
  wrappers : List Wrapper
  calls : List Nat                            -- per example: upstream evaluations (whole history, all processes)

inductive Op where
  | open_ (dir : Nat) (reuse clear : Bool)   -- ds.diskcache(dir, reuse, clear)
  | get (w : Nat) (i : Nat)                  -- ds[i] through wrapper w (0 ≤ i < n)
  | copy (w : Nat)                           -- ds.copy(): one more holder
  | release (w : Nat)                        -- a holder is garbage collected
  | kill                                     -- SIGKILL: all wrappers gone, no finaliser runs
  deriving Repr

inductive Out (V : Type) where
  | val (v : V) | opened (w : Nat) | refused | ok | bad
  deriving Repr

def init {V} (n ndirs : Nat) : St V :=
  { n, dirs := List.replicate ndirs none, wrappers := [], calls := List.replicate n 0 }

def lookup {V} (es : List (Nat × V)) (j : Nat) : Option V := (es.find? (·.1 == j)).map (·.2)

def step {V} (f : Nat → V) (s : St V) : Op → St V × Out V
  | .open_ d reuse clear =>
    -- not modelled: two caches opened on one directory at the same time within one process
    if s.wrappers.any (fun wr => wr.alive && wr.dir == d) then (s, .bad) else
    match s.dirs[d]? with
    | none => (s, .bad)
    | some none =>
      ({ s with dirs := s.dirs.set d (some []), wrappers := s.wrappers ++ [⟨d, clear, 1, true⟩] }, .opened s.wrappers.length)
    | some (some _) =>
      if reuse then ({ s with wrappers := s.wrappers ++ [⟨d, clear, 1, true⟩] }, .opened s.wrappers.length)
      else (s, .refused)
  | .get w i =>
    match s.wrappers[w]? with
    | some wr =>
      if !wr.alive || i ≥ s.n then (s, .bad) else
      match s.dirs[wr.dir]? with
      | some (some es) =>
        match lookup es i with
        | some v => (s, .val v)
        | none =>
          let v := f i
          ({ s with dirs := s.dirs.set wr.dir (some (es ++ [(i, v)])),
                    calls := s.calls.set i (s.calls.getD i 0 + 1) }, .val v)
      | _ => (s, .bad)       -- a live wrapper without its directory: unreachable (theorem C11_alive_has_dir)
    | none => (s, .bad)
  | .copy w =>
    match s.wrappers[w]? with
    | some wr => if wr.alive then ({ s with wrappers := s.wrappers.set w { wr with holders := wr.holders + 1 } }, .ok) else (s, .bad)
    | none => (s, .bad)
  | .release w =>
    match s.wrappers[w]? with
    | some wr =>
      if !wr.alive then (s, .bad)
      else if wr.holders > 1 then ({ s with wrappers := s.wrappers.set w { wr with holders := wr.holders - 1 } }, .ok)
      else
        -- last holder: `__del__` closes the cache and removes the directory iff clear
        let dirs := if wr.clear then s.dirs.set wr.dir none else s.dirs
        ({ s with dirs, wrappers := s.wrappers.set w { wr with holders := 0, alive := false } }, .ok)
    | none => (s, .bad)
  | .kill =>
    ({ s with wrappers := s.wrappers.map (fun wr => { wr with holders := 0, alive := false }) }, .ok)

def run {V} (f : Nat → V) : St V → List Op → St V × List (Out V)
  | s, [] => (s, [])
  | s, op :: ops =>
    let (s', o) := step f s op
    let (sf, os) := run f s' ops
    (sf, o :: os)

end LazyDs.Disk

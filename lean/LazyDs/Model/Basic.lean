/-
  Basic value domain shared by every model file.
  CORE LEAN ONLY (no Mathlib): these files are linked into the compiled driver.
-/

namespace LazyDs

/-- Exception classes the properties distinguish.  Messages are dropped.
    `exception`, `lookupError`, `baseException` are abstract classes that are only
    ever used on the *catching* side. -/
inductive Err where
  | baseException | exception | lookupError
  | indexError | keyError | valueError | typeError | assertionError
  | runtimeError | notImplemented
  | itemsNotDefined            -- lazy_dataset.core.ItemsNotDefined (Exception)
  | itemsNotDefinedInternal    -- lazy_dataset.core._ItemsNotDefined (BaseException!)
  | filterException
  | userA | userB | userC      -- user exception classes: userB is a subclass of userA
  | userBase                   -- a user class deriving from BaseException only
  | attributeError | zeroDivision | stopIteration | other
  deriving DecidableEq, Repr, Inhabited

/-- direct superclass (Python MRO restricted to the classes above) -/
def Err.parent : Err → Option Err
  | .baseException => none
  | .exception => some .baseException
  | .lookupError => some .exception
  | .indexError => some .lookupError
  | .keyError => some .lookupError
  | .valueError => some .exception
  | .typeError => some .exception
  | .assertionError => some .exception
  | .runtimeError => some .exception
  | .notImplemented => some .runtimeError
  | .itemsNotDefined => some .exception
  | .itemsNotDefinedInternal => some .baseException
  | .filterException => some .exception
  | .userA => some .exception
  | .userB => some .userA
  | .userC => some .exception
  | .userBase => some .baseException
  | .attributeError => some .exception
  | .zeroDivision => some .exception
  | .stopIteration => some .exception
  | .other => some .exception

/-- `e.isA c` : an exception of class `e` is caught by `except c`. (depth of the tree ≤ 4) -/
def Err.isA (e c : Err) : Bool :=
  e == c ||
  match e.parent with
  | none => false
  | some p1 => p1 == c ||
    match p1.parent with
    | none => false
    | some p2 => p2 == c ||
      match p2.parent with
      | none => false
      | some p3 => p3 == c ||
        match p3.parent with
        | none => false
        | some p4 => p4 == c

/-- `except (c1, c2, ...)` -/
def Err.isAny (e : Err) (cs : List Err) : Bool := cs.any (e.isA ·)

abbrev Res (α : Type) := Except Err α

/-- Python values as far as the library looks into them. -/
inductive Val where
  | none
  | int (i : Int)
  | str (s : String)
  | tup (xs : List Val)
  | list (xs : List Val)
  | dict (kvs : List (String × Val))
  deriving Repr, Inhabited

/-- What a generator does when it is run to the end: it yields `vals` and then either
    stops (`err = none`) or raises `err`. -/
structure Stream (α : Type) where
  vals : List α
  err : Option Err
  deriving Repr

namespace Stream

def nil {α} : Stream α := ⟨[], none⟩
def fail {α} (e : Err) : Stream α := ⟨[], some e⟩
def ofList {α} (l : List α) : Stream α := ⟨l, none⟩

/-- run outcomes in order: yield until the first failure, which is raised -/
def ofOuts {α} : List (Res α) → Stream α
  | [] => ⟨[], none⟩
  | .ok v :: rest => let s := ofOuts rest; ⟨v :: s.vals, s.err⟩
  | .error e :: _ => ⟨[], some e⟩

/-- generic generator loop over a finite input that may end with an error:
    `body x` says what happens for one input element. -/
def mapMAux {α β} (f : α → Res β) : List α → Option Err → Stream β
  | [], e => ⟨[], e⟩
  | x :: xs, e =>
    match f x with
    | .ok y => let s := mapMAux f xs e; ⟨y :: s.vals, s.err⟩
    | .error e' => ⟨[], some e'⟩

/-- `for x in s: yield f(x)` where `f` may raise -/
def mapM {α β} (f : α → Res β) (s : Stream α) : Stream β := mapMAux f s.vals s.err

def filterMAux {α} (f : α → Res Bool) : List α → Option Err → Stream α
  | [], e => ⟨[], e⟩
  | x :: xs, e =>
    match f x with
    | .ok true => let s := filterMAux f xs e; ⟨x :: s.vals, s.err⟩
    | .ok false => filterMAux f xs e
    | .error e' => ⟨[], some e'⟩

/-- `for x in s: if f(x): yield x` -/
def filterM {α} (f : α → Res Bool) (s : Stream α) : Stream α := filterMAux f s.vals s.err

/-- sequential composition of generators: `yield from s; yield from t` -/
def append {α} (s t : Stream α) : Stream α :=
  match s.err with
  | some e => ⟨s.vals, some e⟩
  | none => ⟨s.vals ++ t.vals, t.err⟩

def cons {α} (a : α) (s : Stream α) : Stream α := ⟨a :: s.vals, s.err⟩

end Stream

/-- Python `range(n)` as integers -/
def irange (n : Nat) : List Int := (List.range n).map Int.ofNat

/-- Python list indexing `l[i]` for an integer `i` (negative wraps once, otherwise IndexError) -/
def pyIndex {α} (l : List α) (i : Int) : Res α :=
  let n : Int := l.length
  let j := if i < 0 then i + n else i
  if j < 0 then .error .indexError
  else match l[j.toNat]? with
    | some v => .ok v
    | none => .error .indexError

/-- first position of `k` in `ks` (`tuple.index`), `ValueError` if absent -/
def keyIndex (ks : List String) (k : String) : Res Nat :=
  match ks.findIdx? (· == k) with
  | some i => .ok i
  | none => .error .valueError

def hasDup : List String → Bool
  | [] => false
  | k :: ks => ks.contains k || hasDup ks

end LazyDs

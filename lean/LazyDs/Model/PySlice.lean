import LazyDs.Model.Basic
/-
  `np.arange(n)[s,]` for the index forms `SliceDataset.__init__` accepts.
-/
namespace LazyDs

inductive SliceSpec where
  | range (start stop step : Option Int)     -- a Python `slice`
  | idx (is : List Int)                      -- list / tuple / 1-d ndarray of ints
  | mask (bs : List Bool)                    -- list / ndarray of bools
  | keys (ks : List String)                  -- list / tuple of str
  deriving Repr, Inhabited

/-- CPython `PySlice_AdjustIndices` for one bound. `lo`/`hi` are the clamping values. -/
def clampBound (n : Int) (b : Option Int) (dflt lo hi : Int) : Int :=
  match b with
  | none => dflt
  | some v =>
    let v := if v < 0 then v + n else v
    if v < lo then lo else if v > hi then hi else v

/-- the arithmetic progression `start, start+step, …` (k elements) as naturals -/
def progression (start step : Int) : Nat → List Nat
  | 0 => []
  | k + 1 => start.toNat :: progression (start + step) step k

/-- `list(range(*slice(start, stop, step).indices(n)))` -/
def pySliceIdx (n : Nat) (start stop step : Option Int) : Res (List Nat) :=
  let st : Int := step.getD 1
  let N : Int := n
  if st == 0 then .error .valueError
  else if st > 0 then
    let a := clampBound N start 0 0 N
    let b := clampBound N stop N 0 N
    let cnt : Nat := if a < b then ((b - a - 1) / st + 1).toNat else 0
    .ok (progression a st cnt)
  else
    let a := clampBound N start (N - 1) (-1) (N - 1)
    let b := clampBound N stop (-1) (-1) (N - 1)
    let cnt : Nat := if b < a then ((a - b - 1) / (-st) + 1).toNat else 0
    .ok (progression a st cnt)

/-- numpy integer fancy indexing of `arange(n)`: wrap negatives once, IndexError outside -/
def resolveIdx (n : Nat) : List Int → Res (List Nat)
  | [] => .ok []
  | i :: rest =>
    let N : Int := n
    let j := if i < 0 then i + N else i
    if j < 0 || j ≥ N then .error .indexError
    else match resolveIdx n rest with
      | .ok r => .ok (j.toNat :: r)
      | .error e => .error e

def maskPositions : List Bool → Nat → List Nat
  | [], _ => []
  | true :: bs, i => i :: maskPositions bs (i + 1)
  | false :: bs, i => maskPositions bs (i + 1)

/-- `{k: i for i, k in enumerate(keys)}[k]` : the LAST position of `k` -/
def lastIndexOf (ks : List String) (k : String) : Option Nat :=
  let rec go : List String → Nat → Option Nat → Option Nat
    | [], _, acc => acc
    | x :: xs, i, acc => go xs (i + 1) (if x == k then some i else acc)
  go ks 0 none

def resolveKeys (inputKeys : List String) : List String → Res (List Nat)
  | [] => .ok []
  | k :: rest =>
    match lastIndexOf inputKeys k with
    | none => .error .keyError
    | some i => match resolveKeys inputKeys rest with
      | .ok r => .ok (i :: r)
      | .error e => .error e

/-- The selection (`self.slice`) computed by `SliceDataset.__init__`.
    `inputKeys` is only evaluated (and its error only surfaces) on the key path. -/
def resolveSlice (n : Nat) (inputKeys : Res (List String)) : SliceSpec → Res (List Nat)
  | .range a b c => pySliceIdx n a b c
  | .idx is => resolveIdx n is
  | .mask bs => if bs.length == n then .ok (maskPositions bs 0) else .error .indexError
  | .keys [] => .ok []          -- `np.arange(n)[[],]` is an empty int selection
  | .keys ks => do
      let iks ← inputKeys
      resolveKeys iks ks

end LazyDs

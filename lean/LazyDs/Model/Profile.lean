import LazyDs.Model.Basic
/-
  `ProfilingDataset` (C20): the wrapper that is interposed at every edge of a COPY of the
  pipeline.  Its generator loop

      it = iter(input)                       # (with_key forwarded, after the fix of F11)
      while True:
          hit_count[0] += 1
          try:    x = next(it)
          except StopIteration: hit_count[0] -= 1; return
          except Exception:     hit_count[1] += 1; raise
          yield x

  and its `__getitem__` (`hit_count[0] += 1`, on `Exception` `hit_count[1] += 1; raise`).
  The two counters live in a list that copies SHARE.  Timing is not modelled.
  CORE LEAN ONLY.
-/
namespace LazyDs.Profile

structure Counters where
  hits : Nat
  failed : Nat
  deriving Repr, DecidableEq

/-- the wrapper's generator, driven by a consumer that asks for at most `demand` results
    (`none` = until the end).  Returns what the consumer received and the counters afterwards. -/
def profIter {α} (s : Stream α) (demand : Option Nat) (c : Counters) : Stream α × Counters :=
  let n := s.vals.length
  match demand with
  | some k =>
    if k ≤ n then (⟨s.vals.take k, none⟩, { c with hits := c.hits + k })
    else
      match s.err with
      | none => (⟨s.vals, none⟩, { c with hits := c.hits + n })
      | some e => (⟨s.vals, some e⟩, { hits := c.hits + n + 1,
                                        failed := c.failed + (if e.isA .exception then 1 else 0) })
  | none =>
    match s.err with
    | none => (⟨s.vals, none⟩, { c with hits := c.hits + n })
    | some e => (⟨s.vals, some e⟩, { hits := c.hits + n + 1,
                                      failed := c.failed + (if e.isA .exception then 1 else 0) })

/-- the wrapper's `__getitem__` -/
def profGet {α} (r : Res α) (c : Counters) : Res α × Counters :=
  match r with
  | .ok v => (.ok v, { c with hits := c.hits + 1 })
  | .error e => (.error e, { hits := c.hits + 1, failed := c.failed + (if e.isA .exception then 1 else 0) })

/-- The wrapper's generator loop as written, one `next(it)` per step: `hit_count[0] += 1` BEFORE the
    fetch, taken back when the fetch ends with `StopIteration`, `hit_count[1] += 1` when it raises an
    `Exception`; the consumer resumes the generator `demand` times (`none`: until it ends) — a
    generator that is not resumed executes nothing. -/
def profLoop {α} : List α → Option Err → Option Nat → Counters → Stream α × Counters
  | _, _, some 0, c => (⟨[], none⟩, c)
  | [], none, _, c => (⟨[], none⟩, { c with hits := c.hits + 1 - 1 })
  | [], some e, _, c =>
    (⟨[], some e⟩, { hits := c.hits + 1, failed := c.failed + (if e.isA .exception then 1 else 0) })
  | x :: xs, e, d, c =>
    let r := profLoop xs e (d.map (· - 1)) { c with hits := c.hits + 1 }
    (⟨x :: r.1.vals, r.1.err⟩, r.2)

end LazyDs.Profile

/-
  Layer B: aliasing (C09).  Python objects live in a heap of mutable cells; `pickle.dumps`
  produces an immutable tree, `pickle.loads` / `deepcopy` allocate FRESH cells.
  CORE LEAN ONLY.

  Storage modes of `lazy_dataset.new(examples, immutable_warranty=…)`:
    pickle / wu : the dataset keeps `Tree`s (bytes); every access allocates a fresh copy;
    copy        : the dataset keeps the ADDRESSES of the caller's objects and deep-copies on access.
  The memory / disk cache keeps `Tree`s; on a miss the memory cache hands out the freshly
  computed object itself (and stores its snapshot).
-/
namespace LazyDs.Heap

abbrev Addr := Nat

inductive Cell where
  | int (i : Int)
  | list (xs : List Addr)
  | dict (kvs : List (String × Addr))
  deriving Repr, DecidableEq

inductive Tree where
  | int (i : Int)
  | list (xs : List Tree)
  | dict (kvs : List (String × Tree))
  deriving Repr

abbrev Heap := List Cell

/-- `pickle.dumps`: read the object graph below `a` (fuel bounds the depth; object graphs of
    examples are finite trees) -/
def snapshot (h : Heap) : Nat → Addr → Option Tree
  | 0, _ => none
  | fuel + 1, a =>
    match h[a]? with
    | none => none
    | some (.int i) => some (.int i)
    | some (.list xs) => (xs.mapM (snapshot h fuel)).map .list
    | some (.dict kvs) => (kvs.mapM (fun kv => (snapshot h fuel kv.2).map (fun t => (kv.1, t)))).map .dict

/-- `pickle.loads` / `deepcopy`: allocate fresh cells at the end of the heap; returns the root -/
def alloc : Heap → Tree → Heap × Addr
  | h, .int i => (h ++ [.int i], h.length)
  | h, .list xs =>
    let (h', as) := allocList h xs
    (h' ++ [.list as], h'.length)
  | h, .dict kvs =>
    let (h', as) := allocKvs h kvs
    (h' ++ [.dict as], h'.length)
where
  allocList : Heap → List Tree → Heap × List Addr
    | h, [] => (h, [])
    | h, t :: ts =>
      let (h1, a) := alloc h t
      let (h2, as) := allocList h1 ts
      (h2, a :: as)
  allocKvs : Heap → List (String × Tree) → Heap × List (String × Addr)
    | h, [] => (h, [])
    | h, (k, t) :: ts =>
      let (h1, a) := alloc h t
      let (h2, as) := allocKvs h1 ts
      (h2, (k, a) :: as)

/-- in-place mutation of one cell by user code -/
def write (h : Heap) (a : Addr) (c : Cell) : Heap := if a < h.length then h.set a c else h

/-- the dataset's storage -/
inductive Stored where
  | tree (t : Tree)        -- pickle / wu / caches
  | addr (a : Addr)        -- copy mode: the caller's object itself

structure St where
  heap : Heap
  store : List Stored
  /-- addresses handed out so far (roots of returned examples) -/
  handed : List Addr

inductive Op where
  | access (i : Nat)                      -- ds[i], iteration, … : one example is handed out
  | mutate (a : Addr) (c : Cell)          -- user code writes a cell it can reach
  deriving Repr

/-- depth bound used for snapshots of this state -/
def fuelOf (h : Heap) : Nat := h.length + 1

def step (s : St) : Op → St × Option Tree
  | .access i =>
    match s.store[i]? with
    | none => (s, none)
    | some (.tree t) =>
      let (h, a) := alloc s.heap t
      ({ s with heap := h, handed := a :: s.handed }, snapshot h (fuelOf h) a)
    | some (.addr a0) =>
      match snapshot s.heap (fuelOf s.heap) a0 with
      | none => (s, none)
      | some t =>
        let (h, a) := alloc s.heap t
        ({ s with heap := h, handed := a :: s.handed }, snapshot h (fuelOf h) a)
  | .mutate a c => ({ s with heap := write s.heap a c }, none)

def run : St → List Op → St × List (Option Tree)
  | s, [] => (s, [])
  | s, op :: ops =>
    let (s', o) := step s op
    let (sf, os) := run s' ops
    (sf, o :: os)

end LazyDs.Heap

/-
  Layer B/D: the shuffles (C12).  Whatever numpy's generators draw is an INPUT (oracle):
  the permutation `rng.shuffle` leaves in the array, the index `rng.choice(n)` returns.
  CORE LEAN ONLY.
-/
namespace LazyDs.Shuffle

/-- `ds[perm]` / `ds[idx]`: positional selection (one-time shuffle, shuffled tiling, random_choice) -/
def select {α} (l : List α) (idx : List Nat) : List α := idx.filterMap (l[·]?)

/-- `np.random.shuffle(a)` leaves `a` rearranged: `a' = [a[π[0]], a[π[1]], …]` for the drawn `π` -/
def applyPerm {α} (π : List Nat) (a : List α) : List α := select a π

/-! ### LocalShuffleDataset.__iter__

    buffer = []
    for element in iterator:
        buffer.append(element)
        if len(buffer) >= buffer_size:
            yield buffer.pop(int(rng.choice(buffer_size)))
    rng.shuffle(buffer)
    yield from buffer
-/

/-- the loop: `choices` are the successive results of `rng.choice(buffer_size)`.
    Returns the examples emitted by the loop and the buffer left at the end. -/
def localLoop {α} (bs : Nat) : List α → List α → List Nat → List α × List α
  | [], buf, _ => ([], buf)
  | x :: xs, buf, choices =>
    let buf := buf ++ [x]
    if buf.length ≥ bs then
      match choices with
      | c :: cs =>
        match buf[c]? with
        | some y =>
          let (out, rest) := localLoop bs xs (buf.eraseIdx c) cs
          (y :: out, rest)
        | none => ([], buf)          -- numpy never returns c ≥ buffer_size; unreachable under the hypothesis
      | [] => ([], buf)              -- the oracle stream is as long as needed; unreachable under the hypothesis
    else localLoop bs xs buf choices

def localShuffle {α} (bs : Nat) (input : List α) (choices : List Nat) (finalPerm : List Nat) : List α :=
  let (out, buf) := localLoop bs input [] choices
  out ++ applyPerm finalPerm buf

/-! ### ReShuffleDataset: ONE array shared by all iterators over the object, shuffled in place
    at the start of every iteration, read live by every iterator in flight -/

structure RState where
  arr : List Nat            -- `self._permutation`
  pos : List Nat            -- per iterator: how many elements it has taken

inductive ROp where
  | start (π : List Nat)    -- `iter(ds)`: `rng.shuffle(self._permutation)` draws π, new iterator
  | next (it : Nat)         -- `next(it)`
  | freeze (π : List Nat)   -- `ds.copy(freeze=True)`: shuffles too, then snapshots by fancy indexing
  deriving Repr

inductive ROut where
  | started (it : Nat) | val (i : Nat) | stop | frozen (snapshot : List Nat) | bad
  deriving Repr, DecidableEq

def rinit (n : Nat) : RState := { arr := List.range n, pos := [] }

def rstep (s : RState) : ROp → RState × ROut
  | .start π => ({ arr := applyPerm π s.arr, pos := s.pos ++ [0] }, .started s.pos.length)
  | .freeze π => let a := applyPerm π s.arr; ({ s with arr := a }, .frozen a)
  | .next it =>
    match s.pos[it]? with
    | none => (s, .bad)
    | some p =>
      match s.arr[p]? with
      | some v => ({ s with pos := s.pos.set it (p + 1) }, .val v)
      | none => (s, .stop)

def rrun : RState → List ROp → RState × List ROut
  | s, [] => (s, [])
  | s, op :: ops =>
    let (s', o) := rstep s op
    let (sf, os) := rrun s' ops
    (sf, o :: os)

/-- the values iterator `it` received in a run -/
def valuesOf (it : Nat) : List ROp → List ROut → List Nat
  | .next j :: ops, .val v :: outs => if j = it then v :: valuesOf it ops outs else valuesOf it ops outs
  | _ :: ops, _ :: outs => valuesOf it ops outs
  | _, _ => []

end LazyDs.Shuffle

import LazyDs.Model.Pipeline
/-
  The REFERENCE semantics: "the sequence obtained by applying the corresponding eager list
  operations to the source examples".  Nothing here walks indices lazily, catches IndexError,
  or consults a dataset object: a reference dataset is plain data

    outs    : one outcome per position (a value, or the exception evaluating that example raises)
    stream  : what iterating yields (values, then how it ended)
    kstream : what iterating with keys yields
    keys    : the key table (or why there is none)
    len     : the reported length (or why there is none)

  and every combinator is a list operation on that data (`List.map`, `++`, chunking, positional
  zip, selection by an index list, ...).
-/
namespace LazyDs

structure RefDS where
  indexable : Bool
  outs : List (Res Val)
  stream : Stream Val
  kstream : Stream (String × Val)
  keys : Res (List String)
  len : Res Nat

/-- flatten `l[i]` on a list of outcomes -/
def outAt (outs : List (Res Val)) (i : Int) : Res Val :=
  match pyIndex outs i with
  | .ok o => o
  | .error e => .error e

namespace Ref

def listSrc (xs : List Val) : RefDS where
  indexable := true
  outs := xs.map .ok
  stream := .ofList xs
  kstream := .fail .itemsNotDefinedInternal
  keys := .error .notImplemented
  len := .ok xs.length

def dictSrc (kvs : List (String × Val)) : RefDS where
  indexable := true
  outs := kvs.map (fun kv => .ok kv.2)
  stream := .ofList (kvs.map (·.2))
  kstream := .ofList kvs
  keys := .ok (kvs.map (·.1))
  len := .ok kvs.length

def map (f : Val → Res Val) (r : RefDS) : RefDS where
  indexable := r.indexable
  outs := r.outs.map (· >>= f)
  stream := r.stream.mapM f
  kstream := r.kstream.mapM (fun kv => do let v ← f kv.2; .ok (kv.1, v))
  keys := r.keys
  len := r.len

def filter (f : Val → Res Bool) (r : RefDS) : RefDS where
  indexable := false
  outs := []
  stream := r.stream.filterM f
  kstream := r.kstream.filterM (fun kv => f kv.2)
  keys := .error .notImplemented
  len := .error .typeError

/-- positional selection `[l[j] for j in sel]` (all `j` are in range for a resolved selection) -/
def select {α} (l : List α) (sel : List Nat) : List α := sel.filterMap (l[·]?)

def selectKeys (keys : Res (List String)) (sel : List Nat) : Res (List String) := do
  let ks ← keys
  sel.mapM (fun (j : Nat) => pyIndex ks (j : Int))

def selectK (keys : Res (List String)) (outs : List (Res Val)) (sel : List Nat) : Stream (String × Val) :=
  match keys with
  | .error e => .fail e
  | .ok ks => .ofOuts (sel.map (fun (j : Nat) => do
      let k ← pyIndex ks (j : Int)
      let v ← outAt outs (j : Int)
      .ok (k, v)))

def slice (sel : List Nat) (r : RefDS) : RefDS where
  indexable := true
  outs := sel.map (fun (j : Nat) => outAt r.outs (j : Int))
  stream := .ofOuts (sel.map (fun (j : Nat) => outAt r.outs (j : Int)))
  kstream := selectK r.keys r.outs sel
  keys := selectKeys r.keys sel
  len := .ok sel.length

def concatKeys (rs : List RefDS) : Res (List String) := do
  let kss ← rs.mapM (·.keys)
  let ks := kss.flatten
  if hasDup ks then .error .assertionError else .ok ks

def sumLens : List RefDS → Res Nat
  | [] => .ok 0
  | r :: rs => do let a ← r.len; let b ← sumLens rs; .ok (a + b)

def concat (rs : List RefDS) : RefDS where
  indexable := rs.all (·.indexable)
  outs := (rs.map (·.outs)).flatten
  stream := rs.foldr (fun r acc => r.stream.append acc) .nil
  kstream := rs.foldr (fun r acc => r.kstream.append acc) .nil
  keys := concatKeys rs
  len := sumLens rs

/-- `[l[0:n], l[n:2n], …]` -/
def chunks {α} (n : Nat) (l : List α) : Nat → List (List α)
  | 0 => []
  | fuel + 1 => if l.isEmpty then [] else l.take n :: chunks n (l.drop n) fuel

/-- a chunk of outcomes is one outcome: the list of values, or the first failure -/
def chunkOut (c : List (Res Val)) : Res Val := do
  let vs ← c.mapM id
  .ok (.list vs)

def batch (bs : Nat) (dropLast : Bool) (r : RefDS) : RefDS where
  indexable := r.indexable
  outs :=
    let cs := chunks bs r.outs (r.outs.length + 1)
    let cs := if dropLast then cs.filter (·.length == bs) else cs
    cs.map chunkOut
  stream := batchStream bs dropLast r.stream
  kstream := .fail .itemsNotDefinedInternal
  keys := .error .notImplemented
  len := do
    let n ← r.len
    if bs == 0 then .error .zeroDivision
    else if dropLast then .ok (n / bs) else .ok ((n + bs - 1) / bs)

def unbatch (r : RefDS) : RefDS where
  indexable := false
  outs := []
  stream := unbatchAux r.stream.vals r.stream.err
  kstream := .fail .itemsNotDefinedInternal
  keys := .error .notImplemented
  len := .error .typeError

/-- positional zip of outcome lists: row `i` is the tuple of the i-th outcomes, or the first failure in the row -/
def zipOuts : List (List (Res Val)) → Nat → List (Res Val)
  | _, 0 => []
  | ls, n + 1 =>
    zipOuts ls n ++ [do
      let row ← ls.mapM (fun l => outAt l (n : Int))
      .ok (.tup row)]

def zip (rs : List RefDS) : RefDS where
  indexable := rs.all (·.indexable)
  outs := match rs with
    | [] => []
    | r :: _ => zipOuts (rs.map (·.outs)) r.outs.length
  stream := let z := zipStreams (rs.map (·.stream)); ⟨z.vals.map Val.tup, z.err⟩
  kstream := .fail .itemsNotDefinedInternal
  keys := .error .notImplemented
  len := match rs with | [] => .error .indexError | r :: _ => r.len

def mapErr (e : Option Err) : Option Err :=
  e.map (fun e => if e == .itemsNotDefinedInternal then .itemsNotDefined else e)

def items (r : RefDS) : RefDS where
  indexable := r.indexable
  outs := match r.keys with
    | .error e => r.outs.map (fun _ => .error e)
    | .ok ks => (List.range r.outs.length).map (fun (j : Nat) => do
        let k ← pyIndex ks (j : Int)
        let v ← outAt r.outs (j : Int)
        .ok (pairVal (k, v)))
  stream := ⟨r.kstream.vals.map pairVal, mapErr r.kstream.err⟩
  kstream := ⟨r.kstream.vals.map (fun kv => (kv.1, pairVal kv)), mapErr r.kstream.err⟩
  keys := r.keys
  len := r.len

def cache (r : RefDS) : RefDS where
  indexable := r.indexable
  outs := r.outs
  stream := match r.len with
    | .error e => .fail e
    | .ok _ => .ofOuts r.outs
  kstream := match r.keys with
    | .error e => .fail e
    | .ok ks => match r.len with
      | .error e => .fail e
      | .ok _ => .ofOuts ((List.range r.outs.length).map (fun (j : Nat) => do
          let k ← pyIndex ks (j : Int)
          let v ← outAt r.outs (j : Int)
          .ok (k, v)))
  keys := r.keys
  len := r.len

def catch_ (E : List Err) (r : RefDS) : RefDS where
  indexable := false
  outs := []
  stream := match r.len with
    | .error e => .fail e
    | .ok _ => catchOuts E r.outs
  kstream := .nil     -- characterised separately (C14 key iteration)
  keys := .error .notImplemented
  len := .error .typeError

end Ref
end LazyDs

import LazyDs.Model.Pipeline
/-
  The REFERENCE semantics: "the sequence obtained by applying the corresponding eager list
  operations to the source examples".  Nothing here walks indices lazily, catches IndexError,
  or consults a dataset object: a reference dataset is plain data

    outs    : one outcome per position (a value, or the exception evaluating that example raises)
    stream  : what iterating yields (values, then how it ended)
    kstream : what iterating with keys yields
    keys    : the key table (or why there is none)
    len     : the reported length (or why there is none)

  and every combinator is a list operation on that data (`List.map`, `++`, chunking, positional
  zip, selection by an index list, ...).
-/
namespace LazyDs

structure RefDS where
  indexable : Bool
  outs : List (Res Val)
  stream : Stream Val
  kstream : Stream (String × Val)
  keys : Res (List String)
  len : Res Nat

instance : Inhabited RefDS :=
  ⟨{ indexable := false, outs := [], stream := .nil, kstream := .nil, keys := .error .notImplemented,
     len := .error .typeError }⟩

/-- flatten `l[i]` on a list of outcomes -/
def outAt (outs : List (Res Val)) (i : Int) : Res Val :=
  match pyIndex outs i with
  | .ok o => o
  | .error e => .error e

namespace Ref

def listSrc (xs : List Val) : RefDS where
  indexable := true
  outs := xs.map .ok
  stream := .ofList xs
  kstream := .fail .itemsNotDefinedInternal
  keys := .error .notImplemented
  len := .ok xs.length

def dictSrc (kvs : List (String × Val)) : RefDS where
  indexable := true
  outs := kvs.map (fun kv => .ok kv.2)
  stream := .ofList (kvs.map (·.2))
  kstream := .ofList kvs
  keys := .ok (kvs.map (·.1))
  len := .ok kvs.length

def map (f : Val → Res Val) (r : RefDS) : RefDS where
  indexable := r.indexable
  outs := r.outs.map (· >>= f)
  stream := r.stream.mapM f
  kstream := r.kstream.mapM (fun kv => do let v ← f kv.2; .ok (kv.1, v))
  keys := r.keys
  len := r.len

def filter (f : Val → Res Bool) (r : RefDS) : RefDS where
  indexable := false
  outs := []
  stream := r.stream.filterM f
  kstream := r.kstream.filterM (fun kv => f kv.2)
  keys := .error .notImplemented
  len := .error .typeError

/-- positional selection `[l[j] for j in sel]` (all `j` are in range for a resolved selection) -/
def select {α} (l : List α) (sel : List Nat) : List α := sel.filterMap (l[·]?)

def selectKeys (keys : Res (List String)) (sel : List Nat) : Res (List String) := do
  let ks ← keys
  sel.mapM (fun (j : Nat) => pyIndex ks (j : Int))

def selectK (keys : Res (List String)) (outs : List (Res Val)) (sel : List Nat) : Stream (String × Val) :=
  match keys with
  | .error e => .fail e
  | .ok ks => .ofOuts (sel.map (fun (j : Nat) => do
      let k ← pyIndex ks (j : Int)
      let v ← outAt outs (j : Int)
      .ok (k, v)))

def slice (sel : List Nat) (r : RefDS) : RefDS where
  indexable := true
  outs := sel.map (fun (j : Nat) => outAt r.outs (j : Int))
  stream := .ofOuts (sel.map (fun (j : Nat) => outAt r.outs (j : Int)))
  kstream := selectK r.keys r.outs sel
  keys := selectKeys r.keys sel
  len := .ok sel.length

def concatKeys (rs : List RefDS) : Res (List String) := do
  let kss ← rs.mapM (·.keys)
  let ks := kss.flatten
  if hasDup ks then .error .assertionError else .ok ks

def sumLens : List RefDS → Res Nat
  | [] => .ok 0
  | r :: rs => do let a ← r.len; let b ← sumLens rs; .ok (a + b)

def concat (rs : List RefDS) : RefDS where
  indexable := rs.all (·.indexable)
  outs := (rs.map (·.outs)).flatten
  stream := rs.foldr (fun r acc => r.stream.append acc) .nil
  kstream := rs.foldr (fun r acc => r.kstream.append acc) .nil
  keys := concatKeys rs
  len := sumLens rs

/-- `[l[0:n], l[n:2n], …]` -/
def chunks {α} (n : Nat) (l : List α) : Nat → List (List α)
  | 0 => []
  | fuel + 1 => if l.isEmpty then [] else l.take n :: chunks n (l.drop n) fuel

/-- a chunk of outcomes is one outcome: the list of values, or the first failure -/
def chunkOut (c : List (Res Val)) : Res Val := do
  let vs ← c.mapM id
  .ok (.list vs)

def batch (bs : Nat) (dropLast : Bool) (r : RefDS) : RefDS where
  indexable := r.indexable
  outs :=
    let cs := chunks bs r.outs (r.outs.length + 1)
    let cs := if dropLast then cs.filter (·.length == bs) else cs
    cs.map chunkOut
  stream := batchStream bs dropLast r.stream
  kstream := .fail .itemsNotDefinedInternal
  keys := .error .notImplemented
  len := do
    let n ← r.len
    if bs == 0 then .error .zeroDivision
    else if dropLast then .ok (n / bs) else .ok ((n + bs - 1) / bs)

def unbatch (r : RefDS) : RefDS where
  indexable := false
  outs := []
  stream := unbatchAux r.stream.vals r.stream.err
  kstream := .fail .itemsNotDefinedInternal
  keys := .error .notImplemented
  len := .error .typeError

/-- positional zip of outcome lists: row `i` is the tuple of the i-th outcomes, or the first failure in the row -/
def zipOuts : List (List (Res Val)) → Nat → List (Res Val)
  | _, 0 => []
  | ls, n + 1 =>
    zipOuts ls n ++ [do
      let row ← ls.mapM (fun l => outAt l (n : Int))
      .ok (.tup row)]

def zip (rs : List RefDS) : RefDS where
  indexable := rs.all (·.indexable)
  outs := match rs with
    | [] => []
    | r :: _ => zipOuts (rs.map (·.outs)) r.outs.length
  stream := let z := zipStreams (rs.map (·.stream)); ⟨z.vals.map Val.tup, z.err⟩
  kstream := .fail .itemsNotDefinedInternal
  keys := .error .notImplemented
  len := match rs with | [] => .error .indexError | r :: _ => r.len

def mapErr (e : Option Err) : Option Err :=
  e.map (fun e => if e == .itemsNotDefinedInternal then .itemsNotDefined else e)

def items (r : RefDS) : RefDS where
  indexable := r.indexable
  outs := match r.keys with
    | .error e => r.outs.map (fun _ => .error e)
    | .ok ks => (List.range r.outs.length).map (fun (j : Nat) => do
        let k ← pyIndex ks (j : Int)
        let v ← outAt r.outs (j : Int)
        .ok (pairVal (k, v)))
  stream := ⟨r.kstream.vals.map pairVal, mapErr r.kstream.err⟩
  kstream := ⟨r.kstream.vals.map (fun kv => (kv.1, pairVal kv)), mapErr r.kstream.err⟩
  keys := r.keys
  len := r.len

def cache (r : RefDS) : RefDS where
  indexable := r.indexable
  outs := r.outs
  stream := match r.len with
    | .error e => .fail e
    | .ok _ => .ofOuts r.outs
  kstream := match r.keys with
    | .error e => .fail e
    | .ok ks => match r.len with
      | .error e => .fail e
      | .ok _ => .ofOuts ((List.range r.outs.length).map (fun (j : Nat) => do
          let k ← pyIndex ks (j : Int)
          let v ← outAt r.outs (j : Int)
          .ok (k, v)))
  keys := r.keys
  len := r.len

def catch_ (E : List Err) (r : RefDS) : RefDS where
  indexable := false
  outs := []
  stream := match r.len with
    | .error e => .fail e
    | .ok _ => catchOuts E r.outs
  kstream := match r.keys with
    | .error e => .fail e
    | .ok ks => catchOuts E ((List.range ks.length).map (fun (j : Nat) => do
        let k ← pyIndex ks (j : Int)
        let v ← outAt r.outs (j : Int)
        .ok (k, v)))
  keys := .error .notImplemented
  len := .error .typeError

/-- the order table entries select positionally from the parts -/
def intersperse (rs : List RefDS) (order : List OrdEntry) : RefDS where
  indexable := rs.all (·.indexable)
  outs := order.map (fun e => match rs[e.d]? with
    | some r => outAt r.outs (e.j : Int)
    | none => .error .indexError)
  stream := intersperseRun (rs.map (·.stream)) order (rs.map (fun _ => 0))
  kstream := intersperseRun (rs.map (·.kstream)) order (rs.map (fun _ => 0))
  keys := do
    let kss ← rs.mapM (·.keys)
    let ks ← order.mapM (fun e => do
      let kl ← pyIndex kss (e.d : Int)
      pyIndex kl (e.j : Int))
    if hasDup ks then .error .assertionError else .ok ks
  len := .ok order.length

/-- the example stored under key `k` (first position of `k` in the key table) -/
def lookup (r : RefDS) (k : String) : Res Val :=
  match r.keys with
  | .error e => .error e
  | .ok ks => match ks.findIdx? (· == k) with
    | some j => outAt r.outs (j : Int)
    | none => .error .keyError

def keyZip (rs : List RefDS) : RefDS :=
  let first := rs.head!
  let ks := match first.keys with | .ok ks => ks | .error _ => []
  let rows : List (Res Val) := ks.map (fun k => do
      let row ← rs.mapM (fun r => lookup r k)
      .ok (.tup row))
  { indexable := rs.all (·.indexable)
    outs := rows
    stream := match first.keys with
      | .error e => .fail e
      | .ok _ => .ofOuts rows
    kstream := match first.keys with
      | .error e => .fail e
      | .ok ks => .ofOuts (ks.map (fun k => do
          let row ← rs.mapM (fun r => lookup r k)
          .ok (k, Val.tup row)))
    keys := first.keys
    len := first.len }

def parMap (f : Val → Res Val) (b : Nat) (r : RefDS) : RefDS :=
  { map f r with
    stream := parMapStream f b r.stream
    kstream := parMapStream (fun kv => do let v ← f kv.2; .ok (kv.1, v)) b r.kstream }

/-- sequential meaning of prefetch: single worker thread = iterate the input, several workers =
    evaluate position by position; `catchE` drops the outcomes that fail with a listed class -/
def prefetch (workers : Nat) (threadBackend : Bool) (catchE : Option (List Err)) (r : RefDS) : RefDS :=
  let single := workers == 1 && threadBackend
  { indexable := false
    outs := []
    stream :=
      if single then
        match catchE with
        | some E => (catch_ E r).stream
        | none => r.stream
      else match r.len with
        | .error e => .fail e
        | .ok _ => match catchE with
          | some E => catchOuts E r.outs
          | none => .ofOuts r.outs
    kstream :=
      if single then
        match catchE with
        | some E => (catch_ E r).kstream
        | none => r.kstream
      else .fail .notImplemented
    keys := .error .notImplemented
    len := match catchE with | some _ => .error .typeError | none => r.len }

/-! ### build-time wrappers (they mirror the argument checks of the Python constructors) -/

def mkSlice (spec : SliceSpec) (r : RefDS) : Res RefDS := do
  if !r.indexable then throw .runtimeError
  let n ← r.len
  let sel ← resolveSlice n r.keys spec
  .ok (slice sel r)

def mkFilterEager (f : Val → Res Bool) (r : RefDS) : Res RefDS := do
  if !r.indexable then throw .runtimeError
  let idx ← filterIdx f r.stream.vals 0
  let _ ← streamToRes r.stream
  let _ ← r.len
  mkSlice (.idx (idx.map Int.ofNat)) r

def mkSplit (k : Int) (r : RefDS) : Res (List RefDS) := do
  if k < 1 then throw .valueError
  let n ← r.len
  if k > n then throw .valueError
  let kk := k.toNat
  (List.range kk).mapM (fun i => mkSlice (.idx ((sectionIdx n kk i).map Int.ofNat)) r)

def mkShard (k i : Int) (r : RefDS) : Res RefDS := do
  let parts ← mkSplit k r
  pyIndex parts i

def mkShuffleOnce (perm : List Nat) (r : RefDS) : Res RefDS := do
  let n ← r.len
  let perm := if perm.length == n then perm else List.range n
  mkSlice (.idx (perm.map Int.ofNat)) r

def mkSort (keyFn : Option (Val → Res Val)) (reverse : Bool) (r : RefDS) : Res RefDS :=
  match keyFn with
  | none =>
    match r.keys with
    | .error e => if e == .notImplemented then .error .runtimeError else .error e
    | .ok ks => mkSlice (.keys (sortKeys ks reverse)) r
  | some f => do
    let kv ← r.stream.vals.mapM f
    let _ ← streamToRes r.stream
    match asInts kv with
    | some is => mkSlice (.idx ((sortOrderBy intLt is reverse).map Int.ofNat)) r
    | none =>
      match asStrs kv with
      | some ss => mkSlice (.idx ((sortOrderBy strLt ss reverse).map Int.ofNat)) r
      | none =>
        if kv.length ≤ 1 then mkSlice (.idx ((List.range kv.length).map Int.ofNat)) r
        else .error .typeError

def mkTile (reps : Nat) (r : RefDS) : Res RefDS :=
  match reps with
  | 0 => .error .typeError
  | 1 => .ok r
  | n => .ok (concat (List.replicate n r))

def mkConcat : List RefDS → Res RefDS
  | [] => .error .valueError
  | [r] => .ok r
  | rs => .ok (concat rs)

def allLens : List RefDS → Res (List Nat)
  | [] => .ok []
  | r :: rs => do let a ← r.len; let b ← allLens rs; .ok (a :: b)

def mkIntersperse (rs : List RefDS) : Res RefDS := do
  if rs.isEmpty then throw .assertionError
  let lens ← allLens rs
  if lens.any (· == 0) then throw .assertionError
  .ok (intersperse rs (intersperseOrder lens))

def mkZip (rs : List RefDS) : Res RefDS := do
  if rs.isEmpty then throw .assertionError
  let lens ← allLens rs
  if !allEq lens then throw .assertionError
  .ok (zip rs)

def mkKeyZip (rs : List RefDS) : Res RefDS := do
  if rs.length < 2 then throw .assertionError
  let kss ← rs.mapM (·.keys)
  if !sameKeySets kss then throw .assertionError
  .ok (keyZip rs)

def mkCache (r : RefDS) : Res RefDS :=
  if r.indexable then .ok (cache r) else .error .assertionError

def mkPrefetch (workers buffer : Nat) (threadBackend : Bool) (catchE : Option (List Err)) (r : RefDS) : Res RefDS := do
  if !(workers == 1 && threadBackend) then
    match r.len with
    | .error _ => throw .runtimeError
    | .ok _ => pure ()
  if workers < 1 then throw .assertionError
  if buffer < workers then throw .assertionError
  .ok (prefetch workers threadBackend catchE r)

/-- eager cache = materialise now: a list source, or a dict source when items() is defined and keys are unique -/
def mkCacheEager (r : RefDS) (ordered : Bool) : Res RefDS := do
  if !(r.indexable || ordered) then throw .assertionError
  let s := r.kstream
  match s.err with
  | some e =>
    if e == .itemsNotDefinedInternal then
      let vs ← streamToRes r.stream
      .ok (listSrc vs)
    else .error e
  | none =>
    if hasDup (s.vals.map (·.1)) then .ok (listSrc (s.vals.map (·.2)))
    else .ok (dictSrc s.vals)

end Ref

/-! ### the reference semantics of a pipeline -/

mutual
def ref (ρ : Env) : Pipeline → Res RefDS
  | .listSrc xs => .ok (Ref.listSrc xs)
  | .dictSrc kvs => .ok (Ref.dictSrc kvs)
  | .map f p => do let r ← ref ρ p; .ok (Ref.map (ρ.fn f) r)
  | .parMap f w b p => do
      let r ← ref ρ p
      if w == 0 then .ok (Ref.map (ρ.fn f) r) else .ok (Ref.parMap (ρ.fn f) b r)
  | .filterLazy f p => do let r ← ref ρ p; .ok (Ref.filter (ρ.pred f) r)
  | .filterEager f p => do let r ← ref ρ p; Ref.mkFilterEager (ρ.pred f) r
  | .slice s p => do let r ← ref ρ p; Ref.mkSlice s r
  | .concat ps => do let rs ← refAll ρ ps; Ref.mkConcat rs
  | .intersperse ps => do
      let rs ← refAll ρ ps
      match rs with
      | [] => .error .valueError
      | [r] => .ok r
      | rs => Ref.mkIntersperse rs
  | .zip ps => do
      let rs ← refAll ρ ps
      if rs.isEmpty then .error .valueError else Ref.mkZip rs
  | .keyZip ps => do
      let rs ← refAll ρ ps
      if rs.isEmpty then .error .valueError else Ref.mkKeyZip rs
  | .batch n dl p => do let r ← ref ρ p; .ok (Ref.batch n dl r)
  | .unbatch p => do let r ← ref ρ p; .ok (Ref.unbatch r)
  | .items p => do let r ← ref ρ p; .ok (Ref.items r)
  | .tile n p => do let r ← ref ρ p; Ref.mkTile n r
  | .shuffleOnce perm p => do let r ← ref ρ p; Ref.mkShuffleOnce perm r
  | .sort key rev p => do let r ← ref ρ p; Ref.mkSort (key.map ρ.fn) rev r
  | .shard k i p => do let r ← ref ρ p; Ref.mkShard k i r
  | .cache p => do let r ← ref ρ p; Ref.mkCache r
  | .cacheEager p => do let r ← ref ρ p; Ref.mkCacheEager r true
  | .catch E p => do let r ← ref ρ p; .ok (Ref.catch_ E r)
  | .copy _ p => ref ρ p
  | .prefetch w b t ce p => do let r ← ref ρ p; Ref.mkPrefetch w b t ce r
  | .cycle p => ref ρ p
def refAll (ρ : Env) : Pipelines → Res (List RefDS)
  | .nil => .ok []
  | .cons p ps => do
      let r ← ref ρ p
      let rs ← refAll ρ ps
      .ok (r :: rs)
end

end LazyDs

def hello := "world"
